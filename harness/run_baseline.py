"""Run the pinned test suite of a repo tree and compare with /root/.vp/BASELINE.json stable_pass.
usage: run_baseline.py [repo_dir]   (default /repo)   exit 0 iff every stable_pass test passed."""
import json, os, subprocess, sys, tempfile, xml.etree.ElementTree as ET
repo = sys.argv[1] if len(sys.argv) > 1 else "/repo"
base = json.load(open("/root/.vp/BASELINE.json"))
with tempfile.TemporaryDirectory() as d:
    x = os.path.join(d, "j.xml")
    env = dict(os.environ, PYTHONPATH=os.path.join(repo, "src"))
    env.pop("NUMBERS_PARSER_VERIF", None)
    subprocess.run(["/venv/bin/python", "-m", "pytest", "-q", "-p", "no:cacheprovider", "--timeout=900",
                    "--continue-on-collection-errors", f"--junitxml={x}"], cwd=repo, env=env,
                   stdout=subprocess.DEVNULL, stderr=subprocess.DEVNULL)
    passed = set()
    for tc in ET.parse(x).getroot().iter("testcase"):
        if not any(c.tag in ("failure", "error", "skipped") for c in tc):
            passed.add(f"{tc.get('classname')}::{tc.get('name')}")
missing = [t for t in base["stable_pass"] if t not in passed]
print(f"{len(base['stable_pass']) - len(missing)}/{len(base['stable_pass'])} stable tests pass")
for t in missing:
    print("NOT PASSING:", t)
sys.exit(1 if missing else 0)
