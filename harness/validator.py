"""Independent structural validator for saved Numbers packages (C07).

Implementation-level exploration, not a proof: it decodes a saved package with `layouts.Package` (the library's own
IWA/protobuf classes are used only as a *decoder*) and checks the conjuncts of C07:

  open        the saved file opens again and every cell can be read
  refs        every `TSP.Reference` inside every object, and every `object_references` entry of an archive header,
              resolves inside the package — unless the same target was already unresolved in the source document
  ids         no identifier is carried by two archives; identifiers that are not in the source are pairwise distinct
              and not above `PackageMetadata.last_object_identifier` (archive id 2, `Index/Metadata.iwa`)
  inventory   every `.iwa` member that is not in the source is listed in `PackageMetadata.components`
              (`Index/<locator>.iwa`, identifier = an archive of that file); every component that is not in the
              source has its file; external references of components resolve
  tiles       per (non-pivot) table: tile ids distinct, every tile within the declared rows (no tile whose first row
              is not a row of the table), <= 256 rows per tile, `numrows` = number of row-infos, declared row indices
              distinct and in bounds, and — the library rewrites every table it saves — exactly the rows
              0..number_of_rows-1; per row-info exactly `number_of_columns` offsets, `cell_count` = stored cells, cell
              records 4-byte aligned, inside the buffer, in column order and not overlapping (record length from its
              own flag word)

`validate(saved, source_facts)` returns a list of (signature, what, detail).
"""
from __future__ import annotations

import struct
from array import array

import layouts as L

PACKAGE_ID = 2
MAX_TILE = 256


def record_length(buf: bytes, start: int) -> int | None:
    """Length of the cell record starting at `start`, from its flag word (None if the header does not fit)."""
    if start + 12 > len(buf):
        return None
    flags = struct.unpack("<I", buf[start + 8:start + 12])[0]
    n = 12
    if flags & 0x1:
        n += 16
    if flags & 0x2:
        n += 8
    if flags & 0x4:
        n += 8
    n += 4 * bin(flags & 0x1FFFF8).count("1")
    return n


def _is_repeated(fd) -> bool:
    r = getattr(fd, "is_repeated", None)
    if r is not None:
        return bool(r() if callable(r) else r)
    return fd.label == 3


def all_references(obj) -> list[int]:
    """identifiers of every TSP.Reference reachable inside a message (own walk, independent of iwafile.find_references)."""
    out = []

    def walk(m):
        for fd, val in m.ListFields():
            if fd.message_type is None:
                continue
            if fd.message_type.GetOptions().map_entry:
                continue
            vals = list(val) if _is_repeated(fd) else [val]
            for v in vals:
                if fd.message_type.full_name == "TSP.Reference":
                    out.append(v.identifier)
                else:
                    walk(v)
    if hasattr(obj, "ListFields"):
        walk(obj)
    return out


class Facts:
    """What the validator needs to remember about a package (the source of a save, or the saved file)."""

    def __init__(self, path):
        self.path = str(path)
        pp = L.Package.load(path).parsed()
        self.pp = pp
        self.files = set(pp.files)
        self.members = {n for n, _ in pp.pkg.members}
        self.id_files: dict[int, list[str]] = {}
        for name, f in pp.files.items():
            for chunk in f.chunks:
                for a in chunk.archives:
                    self.id_files.setdefault(a.header.identifier, []).append(name)
        self.ids = set(self.id_files)
        self.meta = pp.objects.get(PACKAGE_ID)
        self.last_id = self.meta.last_object_identifier if self.meta is not None else None
        self.components = {c.identifier: c for c in self.meta.components} if self.meta is not None else {}
        self.dangling: set[int] = set()       # targets of unresolved references
        self.dangling_pairs: set = set()
        for i, o in pp.objects.items():
            for r in all_references(o):
                if r not in self.ids:
                    self.dangling.add(r)
                    self.dangling_pairs.add((i, r))
        self.header_dangling: set[int] = set()
        for f in pp.files.values():
            for a in f.chunks[0].archives:
                for mi in a.header.message_infos:
                    for r in mi.object_references:
                        if r not in self.ids:
                            self.header_dangling.add(r)


def table_issues(pp: L.ParsedPackage, tid: int, tm, rewritten: bool) -> list:
    """tile / row-info / record arithmetic of one table."""
    out = []

    def bad(sig, what, **d):
        out.append((sig, f"table {tid}: {what}", {"table_id": tid, **d}))
    bds = tm.base_data_store
    n, ncols = tm.number_of_rows, tm.number_of_columns
    ts = bds.tiles.tile_size or MAX_TILE
    tileids = [t.tileid for t in bds.tiles.tiles]
    if len(set(tileids)) != len(tileids):
        bad("tile-ids-repeat", f"tile ids {tileids}")
    declared = []
    for t in bds.tiles.tiles:
        tile = pp.objects.get(t.tile.identifier)
        if tile is None or type(tile).__name__ != "Tile":
            bad("tile-reference-unresolved", f"tile {t.tileid} -> {t.tile.identifier} is not a TST.Tile in the package")
            continue
        base = t.tileid * ts
        if base >= n and n > 0:
            bad("tile-beyond-declared-rows", f"tile {t.tileid} starts at row {base} but the table declares {n} rows "
                f"(numrows {tile.numrows}, {len(tile.rowInfos)} row-infos); tiles {tileids}", tileid=t.tileid, rows=n)
        if tile.numrows > ts or len(tile.rowInfos) > ts:
            bad("tile-too-many-rows", f"tile {t.tileid} has numrows {tile.numrows} / {len(tile.rowInfos)} row-infos (> {ts})")
        if tile.numrows != len(tile.rowInfos):
            bad("tile-numrows-mismatch", f"tile {t.tileid}: numrows {tile.numrows} but {len(tile.rowInfos)} row-infos")
        for r in tile.rowInfos:
            if r.tile_row_index >= ts:
                bad("row-index-outside-tile", f"tile {t.tileid}: tile_row_index {r.tile_row_index} >= tile size {ts}")
            row = base + r.tile_row_index
            declared.append(row)
            if row >= n:
                bad("row-beyond-declared-rows", f"row-info declares row {row}, table has {n} rows")
            if len(r.cell_offsets) % 2:
                bad("offsets-odd-length", f"row {row}: {len(r.cell_offsets)} offset bytes")
                continue
            offs = array("h", r.cell_offsets).tolist()
            if rewritten and len(offs) != ncols:
                bad("offsets-count-not-columns", f"row {row}: {len(offs)} offsets for {ncols} declared columns")
            if any(o >= 0 for o in offs[ncols:]):
                bad("cell-beyond-declared-columns", f"row {row}: a cell is stored at a column >= {ncols}")
            unit = 4 if r.has_wide_offsets else 1
            buf = r.cell_storage_buffer
            cells = [(c, o * unit) for c, o in enumerate(offs) if o >= 0]
            if r.cell_count != len(cells):
                bad("cell-count-wrong", f"row {row}: cell_count {r.cell_count} but {len(cells)} stored cells")
            prev_end, prev_col = 0, None
            for c, start in cells:
                if start % 4:
                    bad("record-misaligned", f"row {row} col {c}: record at byte {start}")
                ln = record_length(buf, start)
                if ln is None or start + ln > len(buf):
                    bad("record-out-of-bounds", f"row {row} col {c}: record at {start} length {ln} in a buffer of {len(buf)} bytes")
                    continue
                if start < prev_end:
                    bad("records-overlap", f"row {row}: record of column {c} at {start} begins before the record of column {prev_col} ends ({prev_end})")
                prev_end, prev_col = start + ln, c
    if len(set(declared)) != len(declared):
        dup = sorted({r for r in declared if declared.count(r) > 1})
        bad("row-declared-twice", f"rows {dup[:5]} have more than one row-info")
    if rewritten and set(declared) != set(range(n)):
        missing = sorted(set(range(n)) - set(declared))
        bad("rows-not-accounted-for", f"{n} declared rows, row-infos for {len(set(declared))}; missing {missing[:5]}")
    return out


def pivot_table_ids(pp: L.ParsedPackage) -> set:
    """tables the library refuses to rewrite (`TableInfoArchive.is_a_pivot_table`)."""
    return {info.tableModel.identifier for _, info in pp.of_type("TableInfoArchive") if info.is_a_pivot_table}


def formula_owner_issues(pp: L.ParsedPackage, fresh_tables: dict) -> list:
    """Extra consistency condition (outside the enumerated conjuncts of C07, labelled as such): the formula-owner record the
    library creates for a new table states the table's extent (`total_range_for_table`), as Numbers itself writes it
    (151 of 154 fixture tables: (0,0)-(rows-1, cols-1)). Checked only for tables created in this history and not resized."""
    out = []
    infos = {info.tableModel.identifier: i for i, info in pp.of_type("TableInfoArchive")}
    owners = {}
    for i, o in pp.of_type("FormulaOwnerDependenciesArchive"):
        if o.HasField("formula_owner"):
            owners.setdefault(o.formula_owner.identifier, []).append((i, o))
    for tid, (rows, cols) in fresh_tables.items():
        for oid, o in owners.get(infos.get(tid), []):
            for nm in ("spanning_column_dependencies", "spanning_row_dependencies"):
                if not o.HasField(nm):
                    continue
                r = getattr(o, nm).total_range_for_table
                got = (r.top_left_row, r.top_left_column, r.bottom_right_row, r.bottom_right_column)
                if got != (0, 0, rows - 1, cols - 1):
                    out.append(("formula-owner-range-disagrees-with-table",
                                f"table {tid} created with {rows} rows x {cols} columns: formula owner {oid} {nm}.total_range_for_table = "
                                f"rows {got[0]}..{got[2]}, columns {got[1]}..{got[3]}", {"table_id": tid, "rows": rows, "cols": cols, "range": list(got)}))
                    break
    return out


def validate(saved_path, source: Facts | None, *, reopen: bool = True, skip_tables: set | None = None,
             fresh_tables: dict | None = None) -> tuple[list, Facts | None]:
    issues = []

    def bad(sig, what, **d):
        issues.append((sig, what, d))
    # -- open ------------------------------------------------------------------------------
    if reopen:
        try:
            dump = L.dump_document(saved_path)
            # `value` must be readable for every cell; formula text / formatted value are other properties' business (C02, C08)
            exc = [e for e in dump if e[0] == "C" and isinstance(e[6], str) and e[6].startswith("EXC:")]
            if exc:
                bad("reopened-cell-unreadable", f"after reopening, the value of cell {exc[0][1:5]} raises {exc[0][6]}", cell=list(exc[0][1:5]))
        except Exception as e:  # noqa: BLE001
            bad("saved-file-does-not-open", f"{type(e).__name__}: {e}"[:300])
            try:
                Facts(saved_path)
            except Exception:  # noqa: BLE001
                return issues, None
    try:
        f = Facts(saved_path)
    except Exception as e:  # noqa: BLE001
        bad("saved-package-undecodable", f"{type(e).__name__}: {e}"[:300])
        return issues, None
    src_ids = source.ids if source else set()
    # -- ids -------------------------------------------------------------------------------
    for i, where in f.id_files.items():
        if len(where) > 1:
            bad("identifier-in-two-archives", f"identifier {i} is carried by {len(where)} archives ({where[:3]})", identifier=i)
    if f.meta is None:
        bad("package-metadata-missing", "no PackageMetadata (identifier 2)")
        return issues, f
    new_ids = f.ids - src_ids
    over = sorted(i for i in new_ids if i > f.last_id)
    if over:
        bad("new-id-above-high-water-mark", f"{len(over)} new identifiers above last_object_identifier {f.last_id}, e.g. {over[:3]}",
            last_object_identifier=f.last_id, ids=over[:5])
    if source and new_ids and min(new_ids) <= max(src_ids):
        reused = sorted(i for i in new_ids if i <= max(src_ids))
        # not a violation by itself (ids need only be unique), recorded for the evidence
        f.low_new_ids = reused[:5]
    # -- references ------------------------------------------------------------------------
    allowed = (source.dangling | source.header_dangling) if source else set()
    for (i, r) in sorted(f.dangling_pairs):
        if r == 0 and r not in allowed:
            bad("null-reference-identifier-zero", f"object {i} ({type(f.pp.objects[i]).__name__}, {'new' if i in new_ids else 'from source'}) "
                f"carries a TSP.Reference with identifier 0", object=i, target=0)
        elif r not in allowed:
            bad("dangling-reference", f"object {i} ({type(f.pp.objects[i]).__name__}, {'new' if i in new_ids else 'from source'}) "
                f"refers to {r}, which is not in the package", object=i, target=r)
    for r in sorted(f.header_dangling - allowed):
        if r == 0:
            bad("null-reference-identifier-zero", "an archive header lists object reference 0", target=0)
            continue
        bad("dangling-header-object-reference", f"an archive header lists object reference {r}, which is not in the package", target=r)
    # -- inventory -------------------------------------------------------------------------
    by_file = {}
    for c in f.meta.components:
        by_file.setdefault("Index/" + (c.locator or c.preferred_locator) + ".iwa", []).append(c)
    src_files = source.files if source else set()
    for name in sorted(f.files - src_files):
        if name == "Index/Metadata.iwa":
            continue
        comps = by_file.get(name, [])
        if not comps:
            bad("new-iwa-file-not-in-components", f"{name} is in the package but no PackageMetadata component has locator {name[6:-4]!r}", file=name)
            continue
        file_ids = {a.header.identifier for a in f.pp.files[name].chunks[0].archives}
        if not any(c.identifier in file_ids for c in comps):
            bad("component-identifier-not-in-file", f"component for {name} has identifier {[c.identifier for c in comps]}, the file holds {sorted(file_ids)[:4]}", file=name)
    src_comp = set(source.components) if source else set()
    comp_ids = set(f.components)
    for cid, c in f.components.items():
        if cid in src_comp:
            continue
        name = "Index/" + (c.locator or c.preferred_locator) + ".iwa"
        if name not in f.files:
            bad("component-without-file", f"new component {cid} names {name}, which is not in the package", component=cid)
    seen = {}
    for c in f.meta.components:
        seen[c.identifier] = seen.get(c.identifier, 0) + 1
    for cid, k in seen.items():
        if k > 1 and cid not in src_comp:
            bad("component-listed-twice", f"component identifier {cid} is listed {k} times", component=cid)
    src_ext = set()
    if source:
        for c in source.meta.components:
            for e in c.external_references:
                src_ext.add((c.identifier, e.component_identifier, e.object_identifier))
    for c in f.meta.components:
        for e in c.external_references:
            if (c.identifier, e.component_identifier, e.object_identifier) in src_ext:
                continue
            if e.component_identifier not in comp_ids:
                bad("external-reference-unknown-component", f"component {c.identifier} ({c.preferred_locator}) has an external reference to "
                    f"component {e.component_identifier}, which is not listed", component=c.identifier, target=e.component_identifier)
            if e.object_identifier and e.object_identifier not in f.ids:
                bad("external-reference-unknown-object", f"component {c.identifier} refers to object {e.object_identifier}, not in the package",
                    component=c.identifier, target=e.object_identifier)
    # -- tiles -----------------------------------------------------------------------------
    pivots = pivot_table_ids(f.pp)
    for tid, tm in f.pp.tables():
        if (skip_tables and tid in skip_tables) or tid in pivots:
            continue
        issues.extend(table_issues(f.pp, tid, tm, rewritten=True))
    if fresh_tables:
        issues.extend(formula_owner_issues(f.pp, fresh_tables))
    return issues, f
