"""Common machinery for every property check (see DESIGN.md sections 3-4).

A check module (harness/checks/cXX.py) exposes
    PID            property id
    PROPS_MODULE   Lean module with the property theorems
    THEOREMS       fully-qualified theorem names audited with #print axioms
    PARTIAL        (optional) names of `_partial` theorems with what is missing
    run(ctx)       correspondence + oracle on the real code; fills ctx
    replay(data)   (optional) re-run one stored input, return a description
"""
from __future__ import annotations

import hashlib
import json
import os
import random
import re
import subprocess
import sys
import time
from collections import Counter
from pathlib import Path

VERIF = Path(__file__).resolve().parent.parent
LEAN = VERIF / "lean"
REPO = Path(os.environ.get("VERIF_REPO", "/repo"))
DRIVER = LEAN / ".lake" / "build" / "bin" / "nmdriver"
TRDRIVER = LEAN / ".lake" / "build" / "bin" / "trdriver"  # definitions regenerated from the Python source (py2lean)
# request prefixes the translated-source driver answers (lean/TrDriver.lean)
TR_OPS = ("a1 colname ", "a1 cell ", "a1 range ", "a1 parse ", "a1 coloff ", "a1 colidx ", "items getitem ", "numfmt fracparts ", "numfmt twos ", "addr iterrows ", "addr itercols ",
          "datefmt fmt ", "datefmt expand ", "dur units ", "d128 pack ", "cache calls ", "tok tokenize ", "loader load f ",
          "iwa isiwa ", "iwa decompress ", "iwa framestream ", "cell dec ")
ALLOWED_AXIOMS = {"propext", "Classical.choice", "Quot.sound"}
FORBIDDEN = re.compile(
    r"\b(sorry|admit|native_decide|bv_decide|implemented_by|unsafe)\b|^\s*axiom\s|maxHeartbeats\s+0\b"
)

import warnings as _warnings

_warnings.showwarning = lambda *a, **k: None  # sigfig resets the warning filters; library warnings are not verdicts

sys.path.insert(0, str(REPO / "src"))
os.environ.setdefault("NUMBERS_PARSER_VERIF", "1")


def enc_text(s: str) -> str:
    return "-" if s == "" else ",".join(format(ord(c), "x") for c in s)


def dec_text(w: str) -> str:
    return "" if w == "-" else "".join(chr(int(p, 16)) for p in w.split(","))


def enc_bytes(b: bytes) -> str:
    return "-" if not b else b.hex()


def exc_name(e: BaseException) -> str:
    return type(e).__name__


def run_model(lines: list[str], timeout: int = 3600, driver: Path | None = None) -> list[str]:
    """Pipe protocol lines through the compiled Lean driver."""
    if not lines:
        return []
    data = ("\n".join(lines) + "\n").encode("utf-8")
    p = subprocess.run([str(driver or DRIVER)], input=data, capture_output=True, timeout=timeout, check=False)
    if p.returncode != 0:
        raise RuntimeError(f"nmdriver exited {p.returncode}: {p.stderr.decode()[:400]}")
    out = p.stdout.decode("utf-8").split("\n")
    if out and out[-1] == "":
        out.pop()
    if len(out) != len(lines):
        raise RuntimeError(f"nmdriver returned {len(out)} lines for {len(lines)} requests")
    return [o.rstrip("\r") for o in out]


class Ctx:
    def __init__(self, pid: str, tier: str, seed: int):
        self.pid = pid
        self.tier = tier
        self.seed = seed
        self.rng = random.Random(seed)
        self.evaluations = 0
        self.nontrivial: set = set()
        self.samples: list = []
        self.subspaces: dict[str, dict] = {}
        self.disagreements: list[dict] = []  # model vs implementation differ
        self.violations: list[dict] = []  # property fails on the implementation (concrete input)
        self.histogram: Counter = Counter()
        self.sig_counts: Counter = Counter()
        self.notes: list[str] = []
        self.extra: dict = {}
        self.model_available = True
        self.translated_available = False  # set by vcheck when the check uses py2lean definitions and trdriver built
        self.t0 = time.time()

    @property
    def quick(self) -> bool:
        return self.tier == "quick"

    # -- correspondence ------------------------------------------------------
    def correspond(self, name: str, requests: list[str], impl_out: list[str], *, exhaustive: bool = False,
                   describe=None, nontrivial=None, keep: int = 3, translated: bool = False):
        """Compare implementation outputs with the model on the same protocol lines.
        translated=True: the request lines the translated-source driver understands are also run through the
        definitions py2lean regenerated from the Python source (validates the translator against the real code)."""
        sub = self.subspaces.setdefault(name, {"cases": 0, "exhaustive": exhaustive, "disagreements": 0})
        sub["cases"] += len(requests)
        self.evaluations += len(requests)
        for r, o in zip(requests[:keep], impl_out[:keep]):
            self.samples.append({"subspace": name, "request": r if describe is None else describe(r), "impl": o})
        for r, o in zip(requests, impl_out):
            self.histogram[name + ":" + o.split(" ", 1)[0] + ("" if o.startswith("ok") else ":" + o.split(" ")[-1])] += 1
            if nontrivial is None or nontrivial(r, o):
                self.nontrivial.add(hashlib.blake2b((name + r).encode(), digest_size=8).digest())
        if not self.model_available:
            sub["skipped_model"] = True
            return
        model_out = run_model(requests)
        for r, a, b in zip(requests, impl_out, model_out):
            if a != b:
                sub["disagreements"] += 1
                if len(self.disagreements) < 50:
                    self.disagreements.append({"subspace": name, "request": r, "impl": a, "model": b})
        if translated and self.translated_available:
            idx = [i for i, r in enumerate(requests) if r.startswith(TR_OPS)]
            tr_out = run_model([requests[i] for i in idx], driver=TRDRIVER)
            sub["translated_source_cases"] = sub.get("translated_source_cases", 0) + len(idx)
            for i, b in zip(idx, tr_out):
                if impl_out[i] != b:
                    sub["disagreements"] += 1
                    if len(self.disagreements) < 50:
                        self.disagreements.append({"subspace": name + " [definitions translated from the source]",
                                                   "request": requests[i], "impl": impl_out[i], "model": b})

    def count(self, name: str, n: int = 1, exhaustive: bool | None = None):
        sub = self.subspaces.setdefault(name, {"cases": 0, "exhaustive": bool(exhaustive), "disagreements": 0})
        sub["cases"] += n
        self.evaluations += n

    def mark(self, key):
        self.nontrivial.add(hashlib.blake2b(repr(key).encode(), digest_size=8).digest())

    def violation(self, sig: str, what: str, inp):
        """The property's own predicate failed on the real code for a concrete input."""
        self.sig_counts[sig] += 1
        if self.sig_counts[sig] <= 3:  # a few examples per failure class; every class is kept
            self.violations.append({"signature": sig, "what": what, "input": inp})

    def sample(self, obj):
        if len(self.samples) < 40:
            self.samples.append(obj)


def translated_only_stream(ctx: "Ctx", name: str, requests: list[str], impl_out: list[str], exhaustive: bool = False):
    """requests that only the translated-source driver answers (the model driver has no such op): real code vs the
    definitions py2lean regenerated from the source."""
    sub = ctx.subspaces.setdefault(name, {"cases": 0, "exhaustive": exhaustive, "disagreements": 0})
    sub["cases"] += len(requests)
    ctx.evaluations += len(requests)
    for r, o in list(zip(requests, impl_out))[:2]:
        ctx.samples.append({"subspace": name, "request": r, "impl": o})
    if not ctx.translated_available:
        sub["skipped_model"] = True
        return
    tr = run_model(requests, driver=TRDRIVER)
    sub["translated_source_cases"] = sub.get("translated_source_cases", 0) + len(requests)
    for r, a, b in zip(requests, impl_out, tr):
        if a != b:
            sub["disagreements"] += 1
            if len(ctx.disagreements) < 50:
                ctx.disagreements.append({"subspace": name + " [definitions translated from the source]", "request": r,
                                          "impl": a, "model": b})


def python_operator_stream(ctx: "Ctx"):
    """The meaning Py/Trans.lean gives to the integer operators the translator emits (& | << >> // % int(a / b)
    int(ceil(a / c)) range(a, b, c)), compared with CPython on signed operands: part of the translator's trusted base,
    exercised on every run of a check that uses translated definitions."""
    import math
    rng = ctx.rng
    vals = [0, 1, -1, 2, -2, 5, -5, 12, 127, 128, -128, 255, 256, 65535, 65536, -65536, 2**31, 2**32 - 1, 2**32, -(2**32), 2**53 - 1]
    vals += [rng.randrange(-2**40, 2**40) for _ in range(60)] + [rng.randrange(-300, 300) for _ in range(40)]
    req, out = [], []

    def res(f):
        try:
            return f"ok {f()}"
        except Exception as e:  # noqa: BLE001
            return "err " + exc_name(e)
    for a in vals:
        for b in rng.sample(vals, 12) + [0, 1, -1, 7, 16]:
            req += [f"py and {a} {b}", f"py or {a} {b}", f"py floordiv {a} {b}", f"py mod {a} {b}"]
            out += [res(lambda: a & b), res(lambda: a | b), res(lambda: a // b), res(lambda: a % b)]
            if abs(a) < 2**50 and 0 < abs(b) < 2**20:
                req += [f"py truedivtrunc {a} {b}", f"py ceildiv {a} {b}"]
                out += [res(lambda: int(a / b)), res(lambda: int(math.ceil(a / float(b))))]
        for k in (0, 1, 7, 8, 16, 33, -1):
            req += [f"py shl {a} {k}", f"py shr {a} {k}"]
            out += [res(lambda: a << k), res(lambda: a >> k)]
    for a in range(-3, 15, 4):
        for b in range(-3, 15, 3):
            for c in (-3, -1, 0, 1, 2, 5):
                req.append(f"py range3 {a} {b} {c}")
                out.append(res(lambda: " ".join(map(str, range(a, b, c)))).rstrip())
    out = [o if o != "ok" else "ok " for o in out]
    translated_only_stream(ctx, "integer operators of Py/Trans.lean vs CPython on signed operands (translator's trusted base)", req, out)


def run_parallel(ctx: "Ctx", worker, tasks: list, procs: int | None = None) -> list:
    """Run `worker(task)` in forked processes. A worker builds its own `Ctx` (seeded from the task) and
    returns it via `sub_result(sub)`; violations, counts, samples and notes are merged into `ctx`.
    Returns the list of per-task `payload` values in task order."""
    import multiprocessing as mp
    procs = procs or min(int(os.environ.get("VERIF_PROCS", "14")), max(1, len(tasks)))
    if procs <= 1 or len(tasks) <= 1:
        results = [worker(t) for t in tasks]
    else:
        with mp.get_context("fork").Pool(procs) as pool:
            results = pool.map(worker, tasks, chunksize=max(1, len(tasks) // (procs * 4)))
    payloads = []
    for r in results:
        for v in r["violations"]:
            ctx.sig_counts[v["signature"]] += 1
            if ctx.sig_counts[v["signature"]] <= 3:
                ctx.violations.append(v)
        for name, n in r["counts"].items():
            ctx.count(name, n)
        for smp in r["samples"]:
            ctx.sample(smp)
        ctx.notes.extend(r["notes"])
        for k in r["nontrivial"]:
            ctx.nontrivial.add(k)
        payloads.append(r["payload"])
    return payloads


def sub_result(sub: "Ctx", payload=None) -> dict:
    return {"violations": sub.violations, "counts": {k: v["cases"] for k, v in sub.subspaces.items()},
            "samples": sub.samples[:3], "notes": sub.notes, "nontrivial": list(sub.nontrivial), "payload": payload}


# ---------------------------------------------------------------------------
# Lean side
# ---------------------------------------------------------------------------

def lake(*targets: str, timeout: int = 3000):
    p = subprocess.run(["lake", "build", *targets], cwd=LEAN, capture_output=True, text=True, timeout=timeout,
                       check=False)
    return p.returncode, p.stdout + p.stderr


def broken_decls(log: str) -> list[str]:
    """Map `error: File.lean:LINE:COL` messages to the enclosing theorem/def names."""
    out = []
    for m in re.finditer(r"error: (\S+?\.lean):(\d+):(\d+)", log):
        f, line = LEAN / m.group(1), int(m.group(2))
        name = None
        try:
            src = f.read_text().split("\n")
            for i in range(min(line, len(src)) - 1, -1, -1):
                mm = re.match(r"\s*(?:@\[[^\]]*\]\s*)?(?:private |protected )?(theorem|lemma|def|example|instance|abbrev)\s+(\S+)?", src[i])
                if mm:
                    name = f"{mm.group(1)} {mm.group(2) or ''}".strip()
                    break
        except OSError:
            pass
        d = f"{m.group(1)}:{line} ({name})"
        if d not in out:
            out.append(d)
    return out


def lean_sources_closure(module: str) -> list[Path]:
    seen, todo, files = set(), [module], []
    while todo:
        m = todo.pop()
        if m in seen or not m.startswith("NumbersModel"):
            continue
        seen.add(m)
        f = LEAN / (m.replace(".", "/") + ".lean")
        if not f.exists():
            continue
        files.append(f)
        for mm in re.finditer(r"^import\s+(\S+)", f.read_text(), re.M):
            todo.append(mm.group(1))
    return files


def count_obligations(module: str) -> tuple[int, list[str]]:
    n, hits = 0, []
    for f in lean_sources_closure(module):
        txt = f.read_text()
        # strip comments before scanning for forbidden constructs
        body = re.sub(r"/-.*?-/", "", txt, flags=re.S)
        body = re.sub(r"--.*", "", body)
        n += len(re.findall(r"^\s*(?:@\[[^\]]*\]\s*)?(?:private |protected )?(?:theorem|lemma)\s", body, re.M))
        for i, line in enumerate(body.split("\n")):
            if FORBIDDEN.search(line):
                hits.append(f"{f.relative_to(LEAN)}: {line.strip()[:80]}")
    return n, hits


def audit_axioms(module: str, theorems: list[str]) -> tuple[dict, list[str]]:
    """#print axioms for each property theorem; returns (axioms per theorem, problems)."""
    tmp = LEAN / f".audit_{module.split('.')[-1]}.lean"
    tmp.write_text(f"import {module}\n" + "".join(f"#print axioms {t}\n" for t in theorems))
    try:
        p = subprocess.run(["lake", "env", "lean", tmp.name], cwd=LEAN, capture_output=True, text=True,
                           timeout=1800, check=False)
    finally:
        tmp.unlink(missing_ok=True)
    out = p.stdout + p.stderr
    res, problems = {}, []
    for t in theorems:
        m = re.search(r"'" + re.escape(t) + r"' depends on axioms: \[([^\]]*)\]", out, re.S)
        if m:
            ax = {a.strip() for a in m.group(1).replace("\n", " ").split(",") if a.strip()}
            res[t] = sorted(ax)
            bad = ax - ALLOWED_AXIOMS
            if bad:
                problems.append(f"{t} depends on non-standard axioms {sorted(bad)}")
        elif re.search(r"'" + re.escape(t) + r"' does not depend on any axioms", out):
            res[t] = []
        else:
            problems.append(f"{t}: not found / not checked ({out.strip()[:200]})")
    return res, problems


# ---------------------------------------------------------------------------
# known findings
# ---------------------------------------------------------------------------

def load_findings(pid: str) -> dict[str, str]:
    f = VERIF / "known_findings.json"
    if not f.exists():
        return {}
    data = json.loads(f.read_text())
    return {e["signature"]: e["what"] for e in data.get("open", []) if e["property"] == pid}


def write_json(path: Path, obj):
    path.parent.mkdir(parents=True, exist_ok=True)
    path.write_text(json.dumps(obj, indent=1, ensure_ascii=False, default=str) + "\n")
