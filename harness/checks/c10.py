"""C10 — A1-notation conversion functions are mutually inverse bijections."""
from __future__ import annotations

import itertools

from common import Ctx, enc_text, exc_name

PID = "C10"
PROPS_MODULE = "NumbersModel.Props.C10"
THEOREMS = [f"NumbersModel.Props.C10.{t}" for t in (
    "col_roundtrip", "name_roundtrip", "col_name_injective", "col_name_wellformed", "col_name_length",
    "negative_rejected", "negative_col_rejected", "cell_roundtrip", "cell_roundtrip_gen", "col_gt_18277_rejected",
    "cell_name_injective", "range_collapses_iff", "col_offset_roundtrip", "col_strict_mono", "patterns_as_modelled",
    "zeros_ok")] + [f"NumbersModel.Props.C10.Src.{t}" for t in (
    # the same clauses over the definitions py2lean regenerates from xrefs.py on every run
    "src_cell_roundtrip", "src_col_name", "src_col_name_injective", "src_col_name_surjective", "src_col_strict_mono",
    "src_negative_rejected", "src_negative_col_rejected", "src_range_collapses_iff", "src_col_offset_roundtrip",
    "src_col_name_fuel_suffices", "src_tokenizer_col_index_roundtrip", "src_tokenizer_col_index_name")] + [f"NumbersModel.Translated.{t}" for t in (
    "xl_col_to_name_eq_model", "xl_rowcol_to_cell_eq_model", "xl_range_eq_model", "xl_cell_to_rowcol_eq_model",
    "xl_col_to_offset_eq_model", "col_to_index_eq_model")]
TRANSLATED_GROUPS = ("A1",)
RULE = ("exhaustive: every column 0..18277 x col_abs through xl_col_to_name, every <=3-letter name through both "
        "decoders, every short string over {$,A,B,Z,a,0,1,9,:} through both regex-based parsers; rows: quick = "
        "0..2000 + powers of ten +-1 + 999990..1000010 + seeded, thorough = all 0..1000000; a case is non-trivial "
        "if it is a distinct request whose outcome is ok or an IndexError (i.e. all of them are counted once)")
MANIFEST = {
    "text": "Full: every clause of the property is a Lean theorem about a model of xl_col_to_name / xl_rowcol_to_cell / "
            "xl_range / xl_cell_to_rowcol / xl_col_to_offset / tokenizer col_to_index, for ALL rows and columns (no bound): "
            "col_roundtrip, name_roundtrip (bijection N <-> non-empty A..Z words), col_strict_mono (short-lex order), "
            "cell_roundtrip (all four $ combinations, columns <= ZZZ), cell_name_injective, range_collapses_iff, "
            "negative_rejected. The model is tied to the code by exhaustive correspondence over all 18278 columns, all "
            "names, all short strings for the regex scanners, and (thorough) all 1,000,001 rows. In addition the five "
            "functions are TRANSLATED from xrefs.py on every run (harness/py2lean.py -> Gen/TrA1.lean), each translated "
            "definition is proved equal to its model function (Lemmas/TrA1.lean: xl_*_eq_model) and every clause is "
            "restated over the translated definitions (Props.C10.Src.src_*), so the theorems are re-checked against what "
            "the source says now; the translated definitions are themselves run against the real code on every "
            "correspondence stream (trdriver).",
    "note": "Python `re` is replaced by a hand scanner (equivalence exercised exhaustively on strings of length <= 4/5 over "
            "a 9-symbol alphabet + every Unicode digit block); float division int((col-1)/26) is modelled as integer division "
            "(agreement checked on all columns reachable by 3-letter names and some larger).",
    "technique": "Lean 4 proof (induction, omega/nlinarith) over a model proved equal to definitions regenerated from the Python source by a translator + exhaustive differential correspondence",
}
ASSUMPTIONS = ["py2lean's reading of the Python subset it supports (harness/py2lean.py docstring, Py/Trans.lean): int((col-1)/26) as exact "
               "truncating division (true for col < 2^53), the two regex matches as the hand-derived group scanners; validated on every run by "
               "running the translated definitions against the real functions on all correspondence streams",
               "Python `re` is replaced by a hand scanner in the model; equivalence is exercised exhaustively on short strings",
               "`int()` on Unicode Nd digits evaluates each block of ten as 0..9 (generated and re-checked each run)"]


class _Cache:
    def refresh(self):
        pass


class _StubModel:
    name_ref_cache = _Cache()

    def table_names(self):
        return []

    def table_id_to_sheet_id(self, _):
        return None


def _call(fn, *a, fmt):
    try:
        return "ok " + fmt(fn(*a))
    except Exception as e:  # noqa: BLE001
        return "err " + exc_name(e)


def run(ctx: Ctx):
    from numbers_parser import xrefs as X
    from numbers_parser.tokenizer import parse_numbers_range

    rng = ctx.rng
    stub = _StubModel()

    # --- columns: exhaustive ------------------------------------------------
    cols = list(range(-3, 18278 + 40)) + [10**6, 10**9, 2**53 + 1 if not ctx.quick else 475254]
    req, out = [], []
    names = {}
    for c in cols:
        for a in (0, 1):
            req.append(f"a1 colname {c} {a}")
            o = _call(X.xl_col_to_name, c, bool(a), fmt=enc_text)
            out.append(o)
            if 0 <= c <= 18277 and not a:
                names[c] = X.xl_col_to_name(c)
    ctx.correspond("xl_col_to_name: all columns -3..18317 x col_abs", req, out, exhaustive=True, translated=True)

    # property oracle on the implementation (independent of the model)
    prev = None
    seen = set()
    for c in range(18278):
        n = names[c]
        if n in seen or not n.isalpha() or not n.isupper() or not n.isascii():
            ctx.violation("col-name-malformed-or-repeated", f"xl_col_to_name({c}) = {n!r}", {"col": c})
        seen.add(n)
        if prev is not None and not ((len(prev), prev) < (len(n), n)):
            ctx.violation("col-name-order", f"name order breaks at column {c}: {prev!r} !< {n!r}", {"col": c})
        prev = n
    if len(seen) != 18278 or any(len(n) > 3 for n in seen):
        ctx.violation("col-name-not-bijective", f"{len(seen)} distinct names for 18278 columns", {})
    for c in (-1, -2, -1000):
        try:
            X.xl_col_to_name(c)
            ctx.violation("negative-col-named", f"xl_col_to_name({c}) returned", {"col": c})
        except IndexError:
            pass
        except Exception as e:  # noqa: BLE001
            ctx.violation("negative-col-wrong-exception", f"xl_col_to_name({c}) raised {exc_name(e)}", {"col": c})

    # --- both decoders on every name, with and without '$' -------------------
    req, out = [], []
    for c in range(18278):
        for pre in ("", "$"):
            s = pre + names[c]
            req.append(f"a1 coloff {enc_text(s)}")
            o = _call(X.xl_col_to_offset, s, fmt=str)
            out.append(o)
            if o != f"ok {c}":
                ctx.violation("col-offset-roundtrip", f"xl_col_to_offset({s!r}) -> {o}, expected {c}", {"s": s})
        req.append(f"a1 colidx {enc_text(names[c])}")
        o = _call(lambda s: parse_numbers_range(stub, s + "1").col_start, names[c], fmt=str)
        out.append(o)
        if o != f"ok {c}":
            ctx.violation("tokenizer-col-index", f"col_to_index({names[c]!r}) -> {o}, expected {c}", {"s": names[c]})
    ctx.correspond("decoders: every name of <=3 letters (xl_col_to_offset with/without $, tokenizer col_to_index)",
                   req, out, exhaustive=True, translated=True)

    # --- rows ------------------------------------------------------------------
    if ctx.quick:
        rows = set(range(-3, 2001)) | set(range(999_990, 1_000_011))
        for k in range(1, 16):
            rows |= {10**k - 1, 10**k, 10**k + 1}
        rows |= {rng.randrange(0, 1_000_000) for _ in range(20_000)}
    else:
        rows = set(range(-3, 1_000_011)) | {10**k + d for k in range(7, 16) for d in (-1, 0, 1)}
    rows = sorted(rows)
    req, out = [], []
    for i, r in enumerate(rows):
        c = (i * 7919) % 18278 if i % 3 else rng.choice((0, 25, 26, 701, 702, 18277))
        ra, ca = (i >> 1) & 1, i & 1
        req.append(f"a1 cell {r} {c} {ra} {ca}")
        o = _call(X.xl_rowcol_to_cell, r, c, bool(ra), bool(ca), fmt=enc_text)
        out.append(o)
        if r >= 0:
            s = X.xl_rowcol_to_cell(r, c, bool(ra), bool(ca))
            back = _call(X.xl_cell_to_rowcol, s, fmt=lambda t: f"{t[0]} {t[1]}")
            req.append(f"a1 parse {enc_text(s)}")
            out.append(back)
            if back != f"ok {r} {c}":
                ctx.violation("cell-roundtrip", f"{(r, c, ra, ca)} -> {s!r} -> {back}", {"row": r, "col": c, "row_abs": ra, "col_abs": ca})
            if s.count("$") != ra + ca:
                ctx.violation("cell-dollar-marks", f"{(r, c, ra, ca)} -> {s!r}", {"row": r, "col": c, "row_abs": ra, "col_abs": ca})
        elif not o.startswith("err IndexError"):
            ctx.violation("negative-row-named", f"xl_rowcol_to_cell({r},{c}) -> {o}", {"row": r, "col": c})
    ctx.correspond("xl_rowcol_to_cell / xl_cell_to_rowcol over rows" + (" (all 0..1000000)" if not ctx.quick else ""),
                   req, out, exhaustive=not ctx.quick, translated=True)

    # all four $ combinations x negative corners
    req, out = [], []
    for r, c, ra, ca in itertools.product((-2, -1, 0, 1, 999_999), (-2, -1, 0, 26, 18277, 18278), (0, 1), (0, 1)):
        req.append(f"a1 cell {r} {c} {ra} {ca}")
        o = _call(X.xl_rowcol_to_cell, r, c, bool(ra), bool(ca), fmt=enc_text)
        out.append(o)
        if (r < 0 or c < 0) and o != "err IndexError":
            ctx.violation("negative-not-rejected", f"xl_rowcol_to_cell({r},{c}) -> {o}", {"row": r, "col": c})
    ctx.correspond("corner grid incl. negatives x 4 dollar combinations", req, out, exhaustive=True, translated=True)

    # --- malformed / edge strings through both regex parsers (scanner == re) -----
    alphabet = "$ABZa019:"
    maxlen = 4 if ctx.quick else 5
    strs = [""]
    for n in range(1, maxlen + 1):
        strs += ["".join(t) for t in itertools.product(alphabet, repeat=n)]
    strs += ["AAAA1", "A0", "$A$0", "a1", "A1xyz", "ZZZ1000000", "A١٢", "A1٣", "B१", "$", "$$A1",
             "A$$1", "AB$12:C3", "A 1", " A1", "А" + "1", "A１", "A\U0001d7ce", "AAA", "AAAA", "$AAAA"]
    from gen_constants import code_points
    zeros = code_points(r"\d")[0::10]
    strs += ["C" + chr(z + k) for z in zeros for k in (0, 7)]
    req, out = [], []
    for s in strs:
        req.append(f"a1 parse {enc_text(s)}")
        out.append(_call(X.xl_cell_to_rowcol, s, fmt=lambda t: f"{t[0]} {t[1]}"))
        req.append(f"a1 coloff {enc_text(s)}")
        out.append(_call(X.xl_col_to_offset, s, fmt=str))
    ctx.correspond(f"all strings of length <= {maxlen} over '{alphabet}' + edge strings + every Nd block through both parsers",
                   req, out, exhaustive=True, translated=True)

    # --- ranges -------------------------------------------------------------------
    n = 50_000 if ctx.quick else 1_000_000
    req, out = [], []
    for i in range(n):
        r1, c1 = rng.randrange(0, 1_000_000), rng.randrange(0, 18278)
        mode = i % 4
        if mode == 0:
            r2, c2 = r1, c1
        elif mode == 1:
            r2, c2 = r1, rng.randrange(0, 18278)
        elif mode == 2:
            r2, c2 = rng.randrange(0, 1_000_000), c1
        else:
            r2, c2 = rng.randrange(-1, 30), rng.randrange(-1, 30)
            r1, c1 = rng.randrange(0, 30), rng.randrange(0, 30)
        req.append(f"a1 range {r1} {c1} {r2} {c2}")
        o = _call(X.xl_range, r1, c1, r2, c2, fmt=enc_text)
        out.append(o)
        if o.startswith("ok"):
            s = X.xl_range(r1, c1, r2, c2)
            if (":" not in s) != ((r1, c1) == (r2, c2)):
                ctx.violation("range-collapse", f"xl_range{(r1, c1, r2, c2)} = {s!r}", {"args": [r1, c1, r2, c2]})
    ctx.correspond("xl_range corners (seeded)", req, out, translated=True)


def replay(data):
    from numbers_parser import xrefs as X
    i = data.get("input", {})
    res = {}
    if "col" in i and "row" not in i:
        res["xl_col_to_name"] = _call(X.xl_col_to_name, i["col"], fmt=str)
    if "row" in i:
        res["xl_rowcol_to_cell"] = _call(X.xl_rowcol_to_cell, i["row"], i["col"], bool(i.get("row_abs")), bool(i.get("col_abs")), fmt=str)
    if "s" in i:
        res["xl_col_to_offset"] = _call(X.xl_col_to_offset, i["s"], fmt=str)
    if "args" in i:
        res["xl_range"] = _call(X.xl_range, *i["args"], fmt=str)
    return res
