"""C17 — Damaged or foreign files fail only with the library's own error types."""
from __future__ import annotations

import contextlib
import io
import os
import plistlib
import shutil
import struct
import tempfile
import traceback
import zipfile
import zlib
from pathlib import Path

from common import REPO, Ctx, enc_text, exc_name

PID = "C17"
PROPS_MODULE = "NumbersModel.Props.C17"
THEOREMS = [f"NumbersModel.Props.C17.{t}" for t in (
    "load_error_closed", "load_error_closed_no_escalation", "open_error_closed", "store_blob_closed",
    "store_blob_sniff_raises", "open_zipfile_translates", "document_open_closed", "document_open_ok",
    # the loader as py2lean regenerates it from iwork.py / containers.py on every run, proved equal to the model for every
    # behaviour of the externals, and the clauses restated over the translation
    "Src.src_load_eq_model", "Src.src_open_eq_model", "Src.src_stages_eq_model", "Src.src_load_error_closed",
    "Src.src_open_error_closed", "Src.src_store_blob_closed", "Src.src_open_zipfile_translates")]
TRANSLATED_GROUPS = ("Load",)
PARTIAL: dict[str, str] = {}
RULE = ("a case is one loading scenario: either a scripted assignment of an outcome (return value or one of ~22 exception "
        "classes) to every external call of the loader, run through the real ObjectStore/IWork code with those externals "
        "patched in, or a real (damaged) file/package opened with Document(path) while every external answer is recorded; "
        "both are replayed in the Lean model and the outcome class / object counts compared. Non-trivial = distinct "
        "(document, fault kind, fault parameters) or distinct scripted scenario")
MANIFEST = {
    "text": "Core proved, glue assumed: Lean theorem load_error_closed over a model of ObjectStore.__init__ / IWork.open / "
            "_open / document_version / _open_zipfile / _read_objects_from_zipfile (recursion into Index.zip) / "
            "_read_objects_from_package / _store_blob in which EVERY external call (pathlib probes, ZipFile(), read, "
            "ZipFile(BytesIO), plistlib.loads, warnings.warn, is_iwa_file, IWAFile.from_buffer, the package walk) returns or "
            "raises an arbitrary exception: for all behaviours of the externals loading returns or raises only FileError / "
            "FileFormatError / UnsupportedError (or re-raises an escalated Warning). False on the pinned tree (witnesses "
            "proved for the `pinned` variant of the model and reproduced on the real code: BadZipFile, struct.error, "
            "IndexError, ValueError, ExpatError, KeyError, TypeError, UnicodeDecodeError, OSError); "
            "fixes/C17-load-error-translation.patch adds a translation boundary in IWork.open, moves the archive walk of "
            "_store_blob into its try, and rejects an empty object store. Tied to the code by scripted fault injection at "
            "every external call site and by byte-level faults (truncation at every length class, single/multiple bit "
            "flips, ~24 per-member faults, plist faults, structural faults) on fixtures, package folders and an "
            "API-generated document, with all external answers recorded and replayed in the model. The whole Document(path) "
            "call is covered: document_open_closed treats the eager construction of sheets and tables after the container is "
            "loaded as one more stage that may raise ANYTHING (objects of a member kept as a blob are simply absent) and "
            "proves the constructor's boundary closes it too; 881 of 26 000 damaged files of the thorough tier used to "
            "escape there with KeyError / AttributeError (fix 945efed). Second tie: the exception flow itself is additionally "
            "TRANSLATED from iwork.py / containers.py on every run (harness/py2lean.py group Load -> Gen/TrLoad.lean: "
            "ObjectStore.__init__, IWork.open, _open, document_version, _open_zipfile, _read_objects_from_zipfile, "
            "_read_objects_from_package, _store_blob; try / except X as e: raise Y from e is a match on the outcome with the "
            "classes as written, every call that leaves the library is a field of the same externals record) and proved equal to "
            "the model for EVERY behaviour of the externals (Src.src_load_eq_model, src_open_eq_model, src_stages_eq_model); "
            "load_error_closed / open_error_closed / store_blob_closed / open_zipfile_translates are restated over the "
            "translation (Src.src_*), and every scripted / recorded scenario also goes through the translated definitions "
            "(trdriver).",
    "note": "scope: every exception that leaves Document(path) counts (the property's first sentence: opening either yields a "
            "document or fails with a documented error type); before the extension phase exceptions raised after "
            "ObjectStore.__init__ had returned were only counted (`late_failures`) - that was the check demanding less than "
            "the statement. str.lower() is modelled for ASCII; in-memory ZipFile lookups (namelist/getinfo) are data.",
    "technique": "Lean 4 proof (case analysis on the translation boundary) + fault-injection correspondence with recorded externals",
}
ASSUMPTIONS = [
    "namelist()/filelist/getinfo() of an already opened ZipFile are in-memory lookups that do not raise",
    "handler callbacks store_object/store_file (dict assignments) and allowed_format/allowed_version on a str do not raise",
    "BaseException subclasses that are not Exception (KeyboardInterrupt, SystemExit) are out of scope",
    "file names are compared with ASCII lower-casing in the model",
    "translated definitions: the semantics py2lean / Py/Trans.lean give to the Python subset (try/except as a match on the PyM "
    "outcome, handlers tried in order, bare raise re-raises, the handler state threaded through method calls, self._zipf / "
    "self._is_package as Optionals that raise AttributeError while unset, recursion on fuel) and the extern laws of "
    "Model/LoaderSrc.lean (the flattened package walk, an opened ZipFile as its id, a decoded segment as (identifier, "
    "len(objects))), each named at its TARGETS entry",
]

ALLOWED_NAMES = ("FileError", "FileFormatError", "UnsupportedError")


# ---------------------------------------------------------------------------------------------------
# exception vocabulary for scripted faults
# ---------------------------------------------------------------------------------------------------

def exc_classes():
    from xml.parsers.expat import ExpatError

    from google.protobuf.message import DecodeError

    from numbers_parser import exceptions as E
    return {
        "BadZipFile": zipfile.BadZipFile, "zlib.error": zlib.error, "struct.error": struct.error, "EOFError": EOFError,
        "KeyError": KeyError, "ValueError": ValueError, "IndexError": IndexError, "TypeError": TypeError,
        "RuntimeError": RuntimeError, "NotImplementedError": NotImplementedError, "OSError": OSError,
        "PermissionError": PermissionError, "UnicodeDecodeError": UnicodeDecodeError, "DecodeError": DecodeError,
        "ExpatError": ExpatError, "InvalidFileException": plistlib.InvalidFileException, "RuntimeWarning": RuntimeWarning,
        "RecursionError": RecursionError, "AttributeError": AttributeError, "MemoryError": MemoryError,
        "FileError": E.FileError, "FileFormatError": E.FileFormatError, "UnsupportedError": E.UnsupportedError,
        "LibNotImplementedError": E.NotImplementedError,
    }


def make_exc(key: str) -> BaseException:
    cls = exc_classes()[key]
    if cls is UnicodeDecodeError:
        return UnicodeDecodeError("utf-8", b"\xff", 0, 1, "injected")
    return cls("injected " + key)


def exc_token(key: str) -> str:
    c = exc_classes().get(key)
    return "!" + (c.__name__ if c is not None else key)


def res_token(r) -> str:
    """scenario result -> protocol token: ('raise', key) | ('ok', value)"""
    if r is None:
        return "-"
    if r[0] == "raise":
        return exc_token(r[1])
    v = r[1]
    if isinstance(v, bool):
        return str(int(v))
    if v is None:
        return "ok"
    return str(v)


def decode_token(r) -> str:
    if r is None:
        return "-"
    if r[0] == "raise":
        return exc_token(r[1])
    chunks = r[1]
    w = ["c" + str(len(chunks))]
    for segs in chunks:
        w.append(str(len(segs)))
        for ident, nobj in segs:
            w += [str(ident), str(nobj)]
    return " ".join(w)


def plist_token(r) -> str:
    if r is None:
        return "-"
    if r[0] == "raise":
        return exc_token(r[1])
    return "n" if r[1] is None else "s" + enc_text(r[1])


def encode(scn: dict, variant=None) -> str:
    """the protocol line for a scenario (variant f = patched code, the model of record; p = pinned code, only used
    to validate the counter-example witnesses: C17_MODEL_VARIANT=p on an unpatched tree)"""
    variant = variant or os.environ.get("C17_MODEL_VARIANT", "f")
    from numbers_parser.containers import ObjectStore
    w = ["loader", "load", variant, res_token(scn["exists"]), str(int(scn["suffix_ok"])),
         res_token(scn["isdir"][0]), res_token(scn["isdir"][1]), res_token(scn["openzip"]),
         res_token(scn["warn"][0]), res_token(scn["warn"][1]),
         res_token(scn["props_exists"]), res_token(scn["build_exists"]), res_token(scn["props_read"])]
    w += ["zips", str(len(scn["zips"]))]
    for zid, members in scn["zips"].items():
        w += [str(zid), str(len(members))]
        for name, r in members:
            w += [enc_text(name), res_token(r)]
    w += ["blobs", str(len(scn["blobs"]))]
    versions = set()
    for bid, b in scn["blobs"].items():
        w += [str(bid), res_token(b.get("sniff")), res_token(b.get("nested")), plist_token(b.get("plist")),
              decode_token(b.get("decode"))]
        p = b.get("plist")
        if p and p[0] == "ok" and p[1] is not None:
            versions.add(p[1])
    versions.add("")
    w += ["vers", str(len(versions))]
    for v in sorted(versions):
        w += [enc_text(v), str(int(bool(ObjectStore.allowed_version(None, v))))]
    w += ["steps", str(len(scn["steps"]))]
    for st in scn["steps"]:
        if st[0] == "raise":
            w.append(exc_token(st[1]))
        elif st[0] == "zip":
            w += ["X", res_token(st[1])]
        else:
            w += ["F", enc_text(st[1]), res_token(st[2])]
    names = scn.get("exc_names") or sorted({c.__name__ for c in exc_classes().values()})
    by_name = {}
    for c in exc_classes().values():
        by_name.setdefault(c.__name__, c)
    for n, c in scn.get("exc_extra", {}).items():
        by_name[n] = c
    oserr = sorted({n for n in set(names) | set(by_name) if n in by_name and issubclass(by_name[n], OSError)})
    warncls = sorted({n for n in set(names) | set(by_name) if n in by_name and issubclass(by_name[n], Warning)})
    w += ["oserr", str(len(oserr)), *oserr, "warncls", str(len(warncls)), *warncls]
    return " ".join(w)


def scn_to_json(s: dict) -> dict:
    return {**{k: v for k, v in s.items() if not k.startswith("exc_")},
            "zips": {str(k): v for k, v in s["zips"].items()}, "blobs": {str(k): v for k, v in s["blobs"].items()}}


def scn_from_json(j: dict) -> dict:
    s = dict(j)
    s["zips"] = {int(k): v for k, v in j["zips"].items()}
    s["blobs"] = {int(k): v for k, v in j["blobs"].items()}
    return s


def blank_scenario() -> dict:
    return {"exists": ("ok", True), "suffix_ok": True, "isdir": [("ok", False), ("ok", False)], "openzip": None,
            "warn": [("ok", None), ("ok", None)], "props_exists": None, "build_exists": None, "props_read": None,
            "zips": {}, "blobs": {}, "steps": []}


# ---------------------------------------------------------------------------------------------------
# scripted externals: the REAL ObjectStore/IWork code runs against fakes that follow a scenario
# ---------------------------------------------------------------------------------------------------

class FakeBlob(bytes):
    bid = -1


def _give(r):
    """perform a scenario result"""
    if r is None:
        raise AssertionError("scenario does not answer this call")   # the model answers `oracle-miss`
    if r[0] == "raise":
        raise make_exc(r[1])
    return r[1]


class _FakeInfo:
    def __init__(self, n):
        self.filename = n


class FakeZip:
    def __init__(self, env, zid):
        self.env, self.zid = env, zid
        self.members = env.scn["zips"][zid]
        self.filename = f"<zip {zid}>"
        self.filelist = [_FakeInfo(n) for n, _ in self.members]

    def namelist(self):
        return [n for n, _ in self.members]

    def getinfo(self, name):
        for n, _ in self.members:
            if n == name:
                return _FakeInfo(n)
        raise KeyError(name)

    def read(self, name):
        for n, r in self.members:
            if n == name:
                bid = _give(r)
                b = FakeBlob(b"blob%d" % bid)
                b.bid = bid
                self.env.last_blob = b
                return b
        raise KeyError(name)


class FakeEntry:
    """one directory entry of a package walk"""

    def __init__(self, env, step):
        self.env, self.step = env, step
        self.name = "Index.zip" if step[0] == "zip" else step[1].split("/")[-1]

    def is_dir(self):
        return False

    def __str__(self):
        return "/fake/doc.numbers/" + (self.name if self.step[0] == "zip" else self.step[1])

    def open(self, mode="rb"):  # noqa: ARG002
        env, step = self.env, self.step

        class _Fh:
            def __enter__(self):
                return self

            def __exit__(self, *a):
                return False

            def read(self):
                bid = _give(step[2])
                b = FakeBlob(b"blob%d" % bid)
                b.bid = bid
                env.last_blob = b
                return b
        return _Fh()


class FakeSub:
    def __init__(self, env, key):
        self.env, self.key = env, key

    def exists(self):
        return _give(self.env.scn[self.key])


class FakePath:
    def __init__(self, env):
        self.env = env
        self.ndir = 0
        self.suffix = ".numbers" if env.scn["suffix_ok"] else ".numberz"

    def exists(self):
        return _give(self.env.scn["exists"])

    def is_dir(self):
        i = min(self.ndir, 1)
        self.ndir += 1
        return _give(self.env.scn["isdir"][i])

    def __truediv__(self, other):
        return FakeSub(self.env, "props_exists" if "Properties" in str(other) else "build_exists")

    def iterdir(self):
        for st in self.env.scn["steps"]:
            if st[0] == "raise":
                raise make_exc(st[1])
            yield FakeEntry(self.env, st)

    def __str__(self):
        return "/fake/doc.numbers"


class ScriptedEnv:
    def __init__(self, scn):
        self.scn = scn
        self.last_blob = None

    @contextlib.contextmanager
    def active(self):
        from numbers_parser import iwork
        env = self
        saved = {k: getattr(iwork, k) for k in ("ZipFile", "plistlib", "IWAFile", "is_iwa_file", "warn")}
        had_open = "open" in iwork.__dict__

        def fake_zipfile(src, **_kw):
            if isinstance(src, FakePath):
                return FakeZip(env, _give(env.scn["openzip"]))
            if isinstance(src, FakeEntry):
                return FakeZip(env, _give(src.step[1]))
            return FakeZip(env, _give(env.scn["blobs"][env.last_blob.bid].get("nested")))

        class FakePlist:
            InvalidFileException = plistlib.InvalidFileException

            @staticmethod
            def loads(blob):
                r = env.scn["blobs"][blob.bid].get("plist")
                v = _give(r)
                return {"fileFormatVersion": 5 if v is None else v}

        class _Hdr:
            def __init__(self, i):
                self.identifier = i

        class _Arch:
            def __init__(self, i, n):
                self.header, self.objects = _Hdr(i), [object() for _ in range(n)]

        class _Chunk:
            def __init__(self, segs):
                self.archives = [_Arch(i, n) for i, n in segs]

        class _File:
            def __init__(self, chunks):
                self.chunks = [_Chunk(c) for c in chunks]

        class FakeIWA:
            @staticmethod
            def from_buffer(blob, filename=None):  # noqa: ARG004
                return _File(_give(env.scn["blobs"][blob.bid].get("decode")))

        counter = {"n": 0}

        def fake_warn(msg, *a, **k):  # noqa: ARG001
            i = 0 if "can't read" in str(msg) else 1
            counter["n"] += 1
            _give(env.scn["warn"][i])

        def fake_open(p, mode="rb"):  # noqa: ARG001
            class _Fh:
                def __enter__(self):
                    return self

                def __exit__(self, *a):
                    return False

                def read(self):
                    bid = _give(env.scn["props_read"])
                    b = FakeBlob(b"blob%d" % bid)
                    b.bid = bid
                    return b
            return _Fh()

        iwork.ZipFile, iwork.plistlib, iwork.IWAFile = fake_zipfile, FakePlist, FakeIWA
        iwork.is_iwa_file = lambda blob: _give(env.scn["blobs"][blob.bid].get("sniff"))
        iwork.warn = fake_warn
        iwork.open = fake_open
        try:
            yield
        finally:
            for k, v in saved.items():
                setattr(iwork, k, v)
            if not had_open:
                del iwork.open


def run_scripted(scn) -> str:
    from numbers_parser.containers import ObjectStore
    env = ScriptedEnv(scn)
    with env.active():
        try:
            st = ObjectStore(FakePath(env))
            return f"ok {st._max_id} {len(st._objects)} {len(st._file_store)}"
        except AssertionError:
            return "err oracle-miss"
        except Exception as e:  # noqa: BLE001
            return "err " + exc_name(e)


# ---------------------------------------------------------------------------------------------------
# recording the externals during a real Document(path)
# ---------------------------------------------------------------------------------------------------

def _res_of_exc(e):
    return ("raise", type(e).__name__)


class RecordingEnv:
    """Runs the real loader on a real path; every external answer is recorded into a scenario."""

    def __init__(self, path: Path):
        self.path = path
        self.scn = blank_scenario()
        self.scn["exc_extra"] = {}
        self.blob_ids: dict[bytes, int] = {}
        self.nzip = 0
        self.store = None
        self.last_blob = None
        self.pkg_zip_results: list = []

    def bid(self, b: bytes) -> int:
        b = bytes(b)
        if b not in self.blob_ids:
            self.blob_ids[b] = len(self.blob_ids)
            self.scn["blobs"][self.blob_ids[b]] = {}
        return self.blob_ids[b]

    def exc(self, e):
        self.scn["exc_extra"][type(e).__name__] = type(e)
        return ("raise", type(e).__name__)

    def open_zip(self, real_zipfile, src, kw):
        env = self
        try:
            z = real_zipfile(src, **kw)
        except Exception as e:  # noqa: BLE001
            return None, self.exc(e), e
        zid = self.nzip
        self.nzip += 1
        names = z.namelist()
        table = {}
        self.scn["zips"][zid] = members = [[n, None] for n in names]

        class RecZip:
            filename = z.filename
            filelist = z.filelist

            @staticmethod
            def namelist():
                return names

            @staticmethod
            def getinfo(n):
                return z.getinfo(n)

            @staticmethod
            def read(n):
                try:
                    b = z.read(n)
                except Exception as e:  # noqa: BLE001
                    r = env.exc(e)
                    for m in members:
                        if m[0] == n and m[1] is None:
                            m[1] = r
                    raise
                r = ("ok", env.bid(b))
                table[n] = r
                for m in members:
                    if m[0] == n:
                        m[1] = r
                env.last_blob = b
                return b
        return RecZip, ("ok", zid), None

    @contextlib.contextmanager
    def active(self):
        from numbers_parser import containers, iwork
        env = self
        saved = {k: getattr(iwork, k) for k in ("ZipFile", "plistlib", "IWAFile", "is_iwa_file", "warn")}
        real_zipfile, real_iwa, real_sniff, real_warn = iwork.ZipFile, iwork.IWAFile, iwork.is_iwa_file, iwork.warn
        real_init = containers.ObjectStore.__init__
        first = {"zip": True}

        def rec_zipfile(src, **kw):
            z, r, e = env.open_zip(real_zipfile, src, kw)
            if isinstance(src, io.BytesIO):
                env.scn["blobs"][env.bid(src.getvalue())]["nested"] = r
            elif src is env.path or str(src) == str(env.path):
                env.scn["openzip"] = r
            else:
                env.pkg_zip_results.append(r)
            first["zip"] = False
            if e is not None:
                raise e
            return z

        class RecPlist:
            InvalidFileException = plistlib.InvalidFileException

            @staticmethod
            def loads(blob):
                slot = env.scn["blobs"][env.bid(blob)]
                try:
                    obj = plistlib.loads(blob)
                except Exception as e:  # noqa: BLE001
                    slot["plist"] = env.exc(e)
                    raise
                try:
                    v = obj["fileFormatVersion"]
                    slot["plist"] = ("ok", v if isinstance(v, str) else None)
                except Exception as e:  # noqa: BLE001
                    slot["plist"] = env.exc(e)
                return obj

        class RecIWA:
            @staticmethod
            def from_buffer(blob, filename=None):
                slot = env.scn["blobs"][env.bid(blob)]
                try:
                    f = real_iwa.from_buffer(blob, filename)
                except Exception as e:  # noqa: BLE001
                    slot["decode"] = env.exc(e)
                    raise
                slot["decode"] = ("ok", [[(a.header.identifier, len(a.objects)) for a in c.archives] for c in f.chunks])
                return f

        def rec_sniff(blob):
            slot = env.scn["blobs"][env.bid(blob)]
            try:
                r = real_sniff(blob)
            except Exception as e:  # noqa: BLE001
                slot["sniff"] = env.exc(e)
                raise
            slot["sniff"] = ("ok", bool(r))
            return r

        def rec_warn(msg, *a, **k):
            i = 0 if "can't read" in str(msg) else 1
            import warnings
            try:
                with warnings.catch_warnings():
                    warnings.simplefilter("ignore")
                    real_warn(msg, *a, **k)
            except Exception as e:  # noqa: BLE001
                env.scn["warn"][i] = env.exc(e)
                raise

        def rec_init(self_, filepath):
            env.store = None
            real_init(self_, filepath)
            env.store = (self_._max_id, len(self_._objects), len(self_._file_store))
        rec_init.__wrapped_real__ = getattr(real_init, "__wrapped_real__", real_init)

        iwork.ZipFile, iwork.plistlib, iwork.IWAFile = rec_zipfile, RecPlist, RecIWA
        iwork.is_iwa_file, iwork.warn = rec_sniff, rec_warn
        containers.ObjectStore.__init__ = rec_init
        try:
            yield
        finally:
            for k, v in saved.items():
                setattr(iwork, k, v)
            containers.ObjectStore.__init__ = real_init

    def probe_path(self):
        """the pathlib answers, computed by the harness (oracle values)"""
        p, scn = self.path, self.scn
        try:
            scn["exists"] = ("ok", p.exists())
        except Exception as e:  # noqa: BLE001
            scn["exists"] = self.exc(e)
            return
        scn["suffix_ok"] = p.suffix == ".numbers"
        if not scn["exists"][1]:
            return
        d = p.is_dir()
        scn["isdir"] = [("ok", d), ("ok", d)]
        if d:
            pp, bp = p / "Metadata/Properties.plist", p / "Metadata/BuildVersionHistory.plist"
            scn["props_exists"] = ("ok", pp.exists())
            scn["build_exists"] = ("ok", bp.exists())
            if pp.exists():
                try:
                    scn["props_read"] = ("ok", self.bid(pp.read_bytes()))
                except Exception as e:  # noqa: BLE001
                    scn["props_read"] = self.exc(e)

    def walk_package(self, pending_zip_results):
        """the depth-first walk of the package as the loader does it (same iterdir order)"""
        import re
        steps = []

        def walk(d):
            for sub in d.iterdir():
                if sub.is_dir():
                    walk(sub)
                elif sub.name.lower() == "index.zip":
                    steps.append(["zip", pending_zip_results.pop(0) if pending_zip_results else None])
                else:
                    name = re.sub(r".*\.numbers/*", "", str(sub))
                    try:
                        steps.append(["file", name, ("ok", self.bid(sub.read_bytes()))])
                    except Exception as e:  # noqa: BLE001
                        steps.append(["file", name, self.exc(e)])
        walk(self.path)
        self.scn["steps"] = steps


PKG = None
INIT_RANGE = None


def classify(e: BaseException):
    """(kind, innermost numbers_parser frame, raised while loading) with kind in allowed / violation / late.
    `loading` = ObjectStore.__init__ (containers.py) is on the traceback."""
    global PKG, INIT_RANGE
    if PKG is None:
        import inspect

        import numbers_parser
        from numbers_parser import containers
        PKG = os.path.dirname(numbers_parser.__file__)
        fn = containers.ObjectStore.__dict__["__init__"]
        fn = getattr(fn, "__wrapped_real__", fn)
        lines, start = inspect.getsourcelines(fn)
        INIT_RANGE = (inspect.getsourcefile(fn), start, start + len(lines))
    tb = traceback.extract_tb(e.__traceback__)
    inner, loading = None, False
    for fr in tb:
        if fr.filename.startswith(PKG):
            inner = fr
            if fr.filename == INIT_RANGE[0] and INIT_RANGE[1] <= fr.lineno < INIT_RANGE[2]:
                loading = True
    where = f"{os.path.basename(inner.filename)}:{inner.name}" if inner else "?"
    if type(e).__name__ in ALLOWED_NAMES and type(e).__module__ == "numbers_parser.exceptions":
        return "allowed", where, loading
    return ("violation" if loading else "late"), where, loading


def open_recorded(path: Path):
    """Document(path) with recording; returns (impl outcome line for the load stage, scenario, classification, exc)"""
    from numbers_parser import Document
    env = RecordingEnv(path)
    zip_results = []
    env.probe_path()
    exc = None
    with env.active():
        try:
            Document(path)
        except Exception as e:  # noqa: BLE001
            exc = e
    kind, where, loading = ("ok", None, False) if exc is None else classify(exc)
    if exc is None or not loading:
        line = "ok %d %d %d" % env.store if env.store else "err harness-no-store"
    else:
        line = "err " + exc_name(exc)
    return line, env, kind, where, exc, zip_results


# ---------------------------------------------------------------------------------------------------
# byte-level faults
# ---------------------------------------------------------------------------------------------------

def zip_layout(src: bytes):
    """offsets of the zip structure: [(local header offset, data offset, data end, name)], cd start, eocd start"""
    z = zipfile.ZipFile(io.BytesIO(src))
    members = []
    for i in z.infolist():
        o = i.header_offset
        nlen, xlen = struct.unpack("<HH", src[o + 26:o + 30])
        d = o + 30 + nlen + xlen
        members.append((o, d, d + i.compress_size, i.filename))
    eocd = src.rfind(b"PK\x05\x06")
    cd = struct.unpack("<I", src[eocd + 16:eocd + 20])[0]
    return members, cd, eocd


def rebuild_zip(src: bytes, repl: dict) -> bytes:
    zin = zipfile.ZipFile(io.BytesIO(src))
    out = io.BytesIO()
    with zipfile.ZipFile(out, "w") as zo:
        for i in zin.infolist():
            d = zin.read(i)
            if i.filename in repl:
                d = repl[i.filename]
                if d is None:
                    continue
            zo.writestr(i.filename, d)
        for k, v in repl.items():
            if k not in zin.namelist() and v is not None:
                zo.writestr(k, v)
    return out.getvalue()


def frame(p: bytes) -> bytes:
    return b"\x00" + struct.pack("<I", len(p))[:3] + p


MEMBER_FAULTS = ["empty", "1b", "2b", "3b", "4b", "hdr+1", "half", "minus1", "chunk-boundary", "marker", "len+1", "len-1",
                 "len-huge", "garbage-payload", "garbage-raw", "bad-varint", "empty-stream", "hdr-only", "zero-infos",
                 "unknown-type", "cut-stream", "dangling", "bitflip-stream", "missing", "bad-header-proto"]


def member_fault(d: bytes, kind: str, rnd) -> bytes | None:
    import snappy
    try:
        n0 = d[1] | d[2] << 8 | d[3] << 16
        st = snappy.uncompress(d[4:4 + n0])
    except Exception:  # noqa: BLE001
        n0, st = 0, b""
    if kind == "empty":
        return b""
    if kind in ("1b", "2b", "3b", "4b"):
        return d[:int(kind[0])]
    if kind == "hdr+1":
        return d[:5]
    if kind == "half":
        return d[:len(d) // 2]
    if kind == "minus1":
        return d[:-1]
    if kind == "chunk-boundary":
        return d[:4 + n0] + b"\x00\x00\x00\x00"          # cut exactly at a chunk boundary, then an empty chunk
    if kind == "marker":
        return bytes([1 + rnd.randrange(255)]) + d[1:]
    if kind == "len+1":
        return d[:1] + struct.pack("<I", n0 + 1)[:3] + d[4:]
    if kind == "len-1":
        return d[:1] + struct.pack("<I", max(n0 - 1, 0))[:3] + d[4:]
    if kind == "len-huge":
        return d[:1] + b"\xff\xff\xff" + d[4:]
    if kind == "garbage-payload":
        return frame(rnd.randbytes(40))
    if kind == "garbage-raw":
        return rnd.randbytes(40)
    if kind == "bad-varint":
        return frame(snappy.compress(b"\x80" * 12))
    if kind == "empty-stream":
        return frame(snappy.compress(b""))
    if kind == "hdr-only":
        return frame(snappy.compress(b"\x02\x08\x01"))
    if kind == "zero-infos":
        return frame(snappy.compress(b"\x02\x08\x05"))
    if kind == "unknown-type":
        return frame(snappy.compress(b"\x08\x08\x05\x12\x04\x08\x63\x18\x00"))
    if kind == "cut-stream":
        return frame(snappy.compress(st[:len(st) // 2]))
    if kind == "dangling":
        return d + b"\x00\x01"
    if kind == "bitflip-stream":
        if not st:
            return frame(snappy.compress(b"\xff"))
        b = bytearray(st)
        i = rnd.randrange(len(b))
        b[i] ^= 1 << rnd.randrange(8)
        return frame(snappy.compress(bytes(b)))
    if kind == "bad-header-proto":
        return frame(snappy.compress(b"\x03\xff\xff\xff" + st[4:40]))
    if kind == "missing":
        return None
    raise ValueError(kind)


PLIST_FAULTS = {
    "props-garbage": b"garbage", "props-empty": b"",
    "props-xml-nokey": b'<?xml version="1.0"?><plist version="1.0"><dict></dict></plist>',
    "props-xml-list": b'<?xml version="1.0"?><plist version="1.0"><array></array></plist>',
    "props-xml-intver": b'<?xml version="1.0"?><plist version="1.0"><dict><key>fileFormatVersion</key><integer>5</integer></dict></plist>',
    "props-badxml": b'<?xml version="1.0"?><plist version="1.0"><dict>',
    "props-bplist-bad": b"bplist00garbage", "props-missing": None,
    "props-oldver": b'<?xml version="1.0"?><plist version="1.0"><dict><key>fileFormatVersion</key><string>1.0</string></dict></plist>',
}


def fault_list(src: bytes, rnd, quick: bool, nmembers: int):
    """deterministic list of fault descriptions for one zip document"""
    members, cd, eocd = zip_layout(src)
    n = len(src)
    faults = []
    first, mid = members[0], members[len(members) // 2]
    cuts = {0, 1, 2, 3, 4, 10, 29, 30, 31, first[1], first[1] + 1, (first[1] + first[2]) // 2, first[2], mid[0], mid[0] + 5,
            mid[1], (mid[1] + mid[2]) // 2, mid[2], cd - 1, cd, cd + 1, (cd + eocd) // 2, eocd - 1, eocd, eocd + 1,
            eocd + 10, n - 2, n - 1}
    cuts |= {rnd.randrange(n) for _ in range(20 if quick else 40)}
    faults += [{"fault": "truncate", "length": c} for c in sorted(c for c in cuts if 0 <= c < n)]
    for _ in range(40 if quick else 80):
        region = rnd.choice(("any", "any", "cd", "eocd", "lochdr"))
        if region == "cd":
            o = rnd.randrange(cd, eocd)
        elif region == "eocd":
            o = rnd.randrange(eocd, n)
        elif region == "lochdr":
            m = rnd.choice(members)
            o = rnd.randrange(m[0], m[1])
        else:
            o = rnd.randrange(n)
        faults.append({"fault": "bitflip", "flips": [[o, rnd.randrange(8)]]})
    for _ in range(15 if quick else 25):
        k = rnd.choice((2, 3, 8, 32))
        faults.append({"fault": "bitflip", "flips": [[rnd.randrange(n), rnd.randrange(8)] for _ in range(k)]})
    iwas = [m[3] for m in members if m[3].endswith(".iwa")]
    chosen = [x for x in ("Index/Document.iwa", "Index/Metadata.iwa") if x in iwas]
    others = [x for x in iwas if x not in chosen]
    rnd.shuffle(others)
    chosen += others[:max(0, nmembers - len(chosen))]
    for name in chosen:
        for kind in MEMBER_FAULTS:
            faults.append({"fault": "member", "member": name, "kind": kind, "r": rnd.randrange(1 << 30)})
    for kind in PLIST_FAULTS:
        faults.append({"fault": "plist", "kind": kind})
    for kind in ("iwph", "only-metadata", "no-iwa", "indexzip-garbage", "indexzip-nested", "indexzip-nested-bad",
                 "build-missing", "zip-empty", "not-a-zip", "wrong-suffix", "dup-metadata", "encrypted-flag"):
        faults.append({"fault": "structure", "kind": kind})
    return faults


def apply_fault(src: bytes, f: dict):
    """-> (bytes, file name)"""
    import random
    name = "doc.numbers"
    k = f["fault"]
    if k == "truncate":
        return src[:f["length"]], name
    if k == "bitflip":
        b = bytearray(src)
        for o, bit in f["flips"]:
            b[o] ^= 1 << bit
        return bytes(b), name
    z = zipfile.ZipFile(io.BytesIO(src))
    if k == "member":
        d = z.read(f["member"])
        return rebuild_zip(src, {f["member"]: member_fault(d, f["kind"], random.Random(f["r"]))}), name
    if k == "plist":
        return rebuild_zip(src, {"Metadata/Properties.plist": PLIST_FAULTS[f["kind"]]}), name
    kind = f["kind"]
    names = z.namelist()
    if kind == "iwph":
        return rebuild_zip(src, {".iwph": b"x"}), name
    if kind == "only-metadata":
        return rebuild_zip(src, {n: None for n in names if not n.startswith("Metadata")}), name
    if kind == "no-iwa":
        return rebuild_zip(src, {n: None for n in names if n.endswith(".iwa")}), name
    if kind == "indexzip-garbage":
        return rebuild_zip(src, {"Index.zip": b"garbage"}), name
    if kind == "indexzip-nested":
        inner = rebuild_zip(src, {n: None for n in names if not n.endswith(".iwa")})
        return rebuild_zip(src, {**{n: None for n in names if n.endswith(".iwa")}, "Index.zip": inner}), name
    if kind == "indexzip-nested-bad":
        inner = rebuild_zip(src, {n: None for n in names if not n.endswith(".iwa")})
        return rebuild_zip(src, {"Index.zip": inner[: len(inner) // 2]}), name
    if kind == "build-missing":
        return rebuild_zip(src, {"Metadata/BuildVersionHistory.plist": None}), name
    if kind == "zip-empty":
        out = io.BytesIO()
        zipfile.ZipFile(out, "w").close()
        return out.getvalue(), name
    if kind == "not-a-zip":
        return b"This is not a zip file at all.\n" * 20, name
    if kind == "wrong-suffix":
        return src, "doc.numberz"
    if kind == "dup-metadata":
        return rebuild_zip(src, {"Extra/Metadata/Properties.plist": b"x"}), name
    if kind == "encrypted-flag":
        members, _cd, _eocd = zip_layout(src)
        b = bytearray(src)
        for o, *_ in members:
            b[o + 6] |= 1           # general purpose bit 0: "encrypted" in every local header
        i = 0
        while True:
            i = b.find(b"PK\x01\x02", i)
            if i < 0:
                break
            b[i + 8] |= 1
            i += 4
        return bytes(b), name
    raise ValueError(kind)


# ---------------------------------------------------------------------------------------------------
# the check
# ---------------------------------------------------------------------------------------------------

def api_document_bytes(rng) -> bytes:
    import numbers_parser
    doc = numbers_parser.Document(num_rows=6, num_cols=4)
    t = doc.sheets[0].tables[0]
    for r in range(6):
        for c in range(4):
            t.write(r, c, rng.choice((1, 2.5, "text", True, "longer " * 5)))
    doc.add_sheet("Second", "T2", num_rows=30, num_cols=5)
    tmp = Path(tempfile.mkdtemp(prefix="c17-"))
    try:
        doc.save(tmp / "api.numbers")
        return (tmp / "api.numbers").read_bytes()
    finally:
        shutil.rmtree(tmp, ignore_errors=True)


def _is_dir(p: Path) -> bool:
    try:
        return p.is_dir()
    except (OSError, ValueError):
        return False


def _exists(p: Path) -> bool:
    try:
        return p.exists()
    except (OSError, ValueError):
        return False


def observe(ctx: Ctx, path: Path, inp: dict, req: list, out: list, stats: dict, model=True):
    line, env, kind, where, exc, _ = open_recorded(path)
    stats[kind] = stats.get(kind, 0) + 1
    if kind == "violation":
        sig = f"{where}:{type(exc).__name__}"
        stats.setdefault("violations_by_signature", {})
        stats["violations_by_signature"][sig] = stats["violations_by_signature"].get(sig, 0) + 1
    if kind == "violation" and stats["violations_by_signature"][sig] <= 2:
        ctx.violation(sig,
                      f"Document({inp.get('document')} with {inp.get('fault')}:{inp.get('kind', inp.get('length', ''))}) raised "
                      f"{type(exc).__module__}.{type(exc).__name__}: {str(exc)[:80]} (innermost library frame {where})", inp)
    elif kind == "late":
        # the container decoded but Document(path) still did not return a document: "opening a path ... either yields a
        # document or fails with one of the library's documented error types" - the constructor is part of opening
        stats.setdefault("late_failures_by_frame", {})
        key = f"{where}:{type(exc).__name__}"
        stats["late_failures_by_frame"][key] = stats["late_failures_by_frame"].get(key, 0) + 1
        if stats["late_failures_by_frame"][key] <= 2:
            ctx.violation("document-constructor:" + key,
                          f"Document({inp.get('document')} with {inp.get('fault')}:{inp.get('kind', inp.get('length', ''))}) raised "
                          f"{type(exc).__module__}.{type(exc).__name__}: {str(exc)[:80]} after the container had been loaded "
                          f"(innermost library frame {where})", inp)
    if kind == "allowed":
        stats.setdefault("allowed_by_type", {})
        stats["allowed_by_type"][type(exc).__name__] = stats["allowed_by_type"].get(type(exc).__name__, 0) + 1
    if model:
        if _is_dir(path):
            env.walk_package([])
            _fill_pkg_zip(env)
        req.append(encode(env.scn))
        out.append(line)
    return kind, exc


def _fill_pkg_zip(env):
    """package form: the Index.zip steps get the open results recorded in call order"""
    results = list(env.pkg_zip_results)
    for st in env.scn["steps"]:
        if st[0] == "zip" and st[1] is None:
            st[1] = results.pop(0) if results else None


def scripted_suite(ctx: Ctx, base_zip: dict, base_pkg: dict):
    """fault injection at every external call site x every exception class"""
    import copy
    rng = ctx.rng
    keys = list(exc_classes())
    scns = []

    def variants(base, setter_list):
        for setter in setter_list:
            for k in keys:
                s = copy.deepcopy(base)
                setter(s, ("raise", k))
                scns.append(s)

    def set_path(key):
        return lambda s, r: s.__setitem__(key, r)

    zmembers = base_zip["zips"][0]
    iwa_b = [r[1] for n, r in zmembers if n.endswith(".iwa")][:3]
    props_b = next(r[1] for n, r in zmembers if n.endswith("Properties.plist"))
    setters = [set_path("exists"), set_path("openzip"),
               lambda s, r: s["isdir"].__setitem__(0, r), lambda s, r: s["isdir"].__setitem__(1, r),
               lambda s, r: s["blobs"][props_b].__setitem__("plist", r)]
    for i in (0, len(zmembers) // 2, len(zmembers) - 1):
        setters.append(lambda s, r, i=i: s["zips"][0].__setitem__(i, [s["zips"][0][i][0], r]))
    for b in iwa_b:
        setters.append(lambda s, r, b=b: s["blobs"][b].__setitem__("sniff", r))
        setters.append(lambda s, r, b=b: s["blobs"][b].__setitem__("decode", r))
    variants(base_zip, setters)
    # warnings escalated / unsupported version
    for i in (0, 1):
        for k in keys:
            s = copy.deepcopy(base_zip)
            s["blobs"][props_b]["plist"] = ("raise", "InvalidFileException") if i == 0 else ("ok", "1.0")
            s["warn"][i] = ("raise", k)
            scns.append(s)
    # shapes of decoded files
    for shape in ([], [[]], [[(5, 0)]], [[(5, 1), (6, 0)]], [[(5, 1)], [(7, 0)]], [[(2**40, 2)]], [[(1, 1), (1, 1)]]):
        s = copy.deepcopy(base_zip)
        s["blobs"][iwa_b[0]]["decode"] = ("ok", shape)
        scns.append(s)
    for ver in (None, "", "14.1", "99.0", "3.5.1", "x"):
        s = copy.deepcopy(base_zip)
        s["blobs"][props_b]["plist"] = ("ok", ver)
        scns.append(s)
    # structure: suffix, missing, metadata count, .iwph, no iwa, nested zips
    for mod in ("suffix", "missing", "one-metadata", "three-metadata", "iwph", "no-iwa", "nested-ok", "nested-bad",
                "nested-deep", "dir-then-file", "file-then-dir", "upper-index-zip"):
        s = copy.deepcopy(base_zip)
        m = s["zips"][0]
        if mod == "suffix":
            s["suffix_ok"] = False
        elif mod == "missing":
            s["exists"] = ("ok", False)
        elif mod == "one-metadata":
            s["zips"][0] = [x for x in m if not x[0].endswith("BuildVersionHistory.plist")]
        elif mod == "three-metadata":
            m.append(["Other/Metadata/Properties.plist", ("ok", props_b)])
        elif mod == "iwph":
            m.append([".iwph", ("ok", props_b)])
        elif mod == "no-iwa":
            for b in s["blobs"].values():
                if "sniff" in b:
                    b["sniff"] = ("ok", False)
        elif mod.startswith("nested") or mod == "upper-index-zip":
            nb = max(s["blobs"]) + 1
            nm = "INDEX.ZIP" if mod == "upper-index-zip" else "Index.zip"
            if mod == "nested-bad":
                s["blobs"][nb] = {"nested": ("raise", "BadZipFile")}
                m.append([nm, ("ok", nb)])
            elif mod == "nested-deep":
                s["blobs"][nb] = {"nested": ("ok", 1)}
                s["zips"][1] = [["a/index.zip", ("ok", nb)]]        # a zip that contains itself: RecursionError
                m.append([nm, ("ok", nb)])
            else:
                s["blobs"][nb] = {"nested": ("ok", 1)}
                s["zips"][1] = [["Index/Extra.iwa", ("ok", nb + 1)], [".iwph" if mod == "nested-iwph" else "x.bin", ("ok", nb)]]
                s["blobs"][nb + 1] = {"sniff": ("ok", True), "decode": ("ok", [[(4242, 1)]])}
                m.append([nm, ("ok", nb)])
        elif mod == "dir-then-file":
            s["isdir"] = [("ok", True), ("ok", False)]
            s["props_exists"], s["build_exists"], s["props_read"] = ("ok", True), ("ok", True), ("ok", props_b)
        elif mod == "file-then-dir":
            s["isdir"] = [("ok", False), ("ok", True)]
            s["steps"] = copy.deepcopy(base_pkg["steps"])
            for k2, v2 in base_pkg["blobs"].items():
                s["blobs"].setdefault(k2 + 1000, v2)
            s["steps"] = [[st[0], st[1], ("ok", st[2][1] + 1000)] if st[0] == "file" else st for st in s["steps"]]
        scns.append(s)
    # package form
    psetters = [set_path("props_exists"), set_path("build_exists"), set_path("props_read")]
    nsteps = len(base_pkg["steps"])
    for i in sorted({0, nsteps // 2, nsteps - 1}):
        psetters.append(lambda s, r, i=i: s["steps"].__setitem__(i, ["raise", r[1]]))
        if base_pkg["steps"][i][0] == "file":
            psetters.append(lambda s, r, i=i: s["steps"].__setitem__(i, ["file", s["steps"][i][1], r]))
    zi = [i for i, st in enumerate(base_pkg["steps"]) if st[0] == "zip"]
    for i in zi[:1]:
        psetters.append(lambda s, r, i=i: s["steps"].__setitem__(i, ["zip", r]))
    variants(base_pkg, psetters)
    for mod in ("props-absent", "build-absent"):
        s = copy.deepcopy(base_pkg)
        s["props_exists" if mod == "props-absent" else "build_exists"] = ("ok", False)
        scns.append(s)
    # random multi-fault scenarios
    for _ in range(150 if ctx.quick else 2000):
        s = copy.deepcopy(rng.choice((base_zip, base_zip, base_pkg)))
        for _ in range(rng.choice((1, 2, 3))):
            if s is not None and s["zips"] and rng.random() < 0.5 and 0 in s["zips"]:
                i = rng.randrange(len(s["zips"][0]))
                s["zips"][0][i] = [s["zips"][0][i][0], ("raise", rng.choice(keys))]
            else:
                b = rng.choice(list(s["blobs"]))
                field = rng.choice(("sniff", "decode", "plist"))
                if field in s["blobs"][b]:
                    s["blobs"][b][field] = ("raise", rng.choice(keys))
        scns.append(s)
    req, out = [], []
    seen_sigs: dict = {}
    for s in scns:
        s.pop("exc_extra", None)
        s.pop("exc_names", None)
        o = run_scripted(s)
        req.append(encode(s))
        out.append(o)
        if o.startswith("err") and o.split(" ")[1] not in ALLOWED_NAMES + ("oracle-miss",) and \
                not issubclass(_class_of(o.split(" ")[1]), Warning):
            sig = "scripted:" + o.split(" ")[1]
            seen_sigs[sig] = seen_sigs.get(sig, 0) + 1
            if seen_sigs[sig] == 1:
                ctx.violation(sig, f"loader let {o.split(' ')[1]} escape when an external call was made to raise it "
                                   f"(scripted fault injection on the real ObjectStore/IWork code)",
                              {"op": "scripted", "scenario": scn_to_json(s)})
        ctx.mark(("scripted", req[-1]))
    ctx.correspond("scripted fault injection: every external call site x 24 exception classes, decoded-file shapes, "
                   "structural variants, package form, random multi-faults", req, out, translated=True)
    return len(scns)


def docstage_suite(ctx: Ctx):
    """the construction stage of Document(path) (sheet_ids / Sheet / Table construction over the decoded objects) made to
    raise each exception class on an otherwise healthy document; outcome class compared with Model.Loader.openDocument"""
    from numbers_parser import Document
    from numbers_parser.model import _NumbersModel
    path = str(REPO / "tests/data/test-1.numbers")
    req, out = [], []
    real = _NumbersModel.sheet_ids
    for key in ["ok"] + sorted(exc_classes()):
        if key == "MemoryError":
            continue
        cls = exc_classes().get(key)
        is_warning = int(cls is not None and issubclass(cls, Warning))

        def fake(self, _key=key):
            if _key == "ok":
                return real(self)
            raise make_exc(_key)
        _NumbersModel.sheet_ids = fake
        try:
            try:
                Document(path)
                o = "ok doc"
            except Exception as e:  # noqa: BLE001
                o = "err " + exc_name(e)
                k, where, _ = classify(e)
                if k != "allowed" and not isinstance(e, Warning):
                    ctx.violation("document-constructor:scripted:" + type(e).__name__,
                                  f"Document(test-1.numbers) let {type(e).__name__} escape when the construction of its sheets "
                                  f"raised it", {"scripted_docstage": key})
        finally:
            _NumbersModel.sheet_ids = real
        req.append(f"loader docstage 1 {is_warning} " + ("ok" if key == "ok" else exc_token(key)))
        out.append(o)
    ctx.correspond("construction stage of Document(path) made to raise each exception class (scripted)", req, out, exhaustive=True)


def _class_of(name):
    for c in exc_classes().values():
        if c.__name__ == name:
            return c
    return Exception


def base_scenarios():
    """healthy scenarios recorded from real fixtures (zip form: test-1; package form: test-5 / test-7)"""
    line, env, kind, *_ = open_recorded(REPO / "tests" / "data" / "test-1.numbers")
    pkg_path = REPO / "tests" / "data" / "test-5.numbers"
    line2, env2, kind2, *_ = open_recorded(pkg_path)
    env2.walk_package([])
    return env.scn, env2.scn, [(encode(env.scn), line, kind), (encode(env2.scn), line2, kind2)]


def run(ctx: Ctx):
    import random
    import time
    rng = ctx.rng
    t0 = time.time()
    stats: dict = {}
    base_zip, base_pkg, healthy = base_scenarios()
    ctx.correspond("healthy fixtures (zip form test-1, package form test-5): recorded externals replayed in the model",
                   [h[0] for h in healthy], [h[1] for h in healthy], translated=True)
    if any(h[2] != "ok" for h in healthy):
        # a sound fixture no longer loads: the tie is broken; no scripted suite can be derived from it
        ctx.notes.append("healthy fixture does not load: " + "; ".join(f"{h[1]} ({h[2]})" for h in healthy))
        for h in healthy:
            if h[2] != "ok":
                ctx.disagreements.append({"subspace": "healthy fixtures", "request": h[0][:200], "impl": h[1], "model": "ok …"})
        return
    # sanity of the tie itself: the healthy recordings replay identically through the scripted fakes
    req = [encode(base_zip), encode(base_pkg)]
    out = [run_scripted({k: v for k, v in base_zip.items() if not k.startswith("exc_")}),
           run_scripted({k: v for k, v in base_pkg.items() if not k.startswith("exc_")})]
    ctx.correspond("healthy recordings (zip form, package form) replayed through scripted externals", req, out, translated=True)
    n_scripted = scripted_suite(ctx, base_zip, base_pkg)
    docstage_suite(ctx)
    ctx.extra["scripted_scenarios"] = n_scripted
    ctx.extra["seconds_scripted"] = round(time.time() - t0, 1)

    # ---- byte-level faults on real documents ---------------------------------------------------------
    data = REPO / "tests" / "data"
    if ctx.quick:
        pool = sorted(p.name for p in data.glob("*.numbers") if p.is_file() and p.stat().st_size < 400_000)
        docs = ["test-1.numbers", "issue-59.numbers", *rng.sample([d for d in pool if d not in ("test-1.numbers", "issue-59.numbers")], 3)]
        nmembers = 4
    else:
        docs = sorted(p.name for p in data.glob("*.numbers") if p.is_file())
        nmembers = 6
    sources = []
    for d in docs:
        p = data / d
        try:
            zipfile.ZipFile(p).close()
            sources.append((d, p.read_bytes()))
        except Exception:  # noqa: BLE001
            continue
    sources.append(("<api-generated>", api_document_bytes(rng)))
    tmp = Path(tempfile.mkdtemp(prefix="c17-"))
    req, out = [], []
    nfaults = 0
    try:
        for doc, src in sources:
            rnd = random.Random(f"{ctx.seed}:{doc}")
            for f in fault_list(src, rnd, ctx.quick, nmembers):
                inp = {"op": "fault", "document": doc, "seed": ctx.seed, **f}
                try:
                    b, fname = apply_fault(src, f)
                except Exception as e:  # noqa: BLE001
                    ctx.notes.append(f"fault not applicable: {doc} {f}: {exc_name(e)}")
                    continue
                p = tmp / fname
                p.write_bytes(b)
                try:
                    observe(ctx, p, inp, req, out, stats, model=True)
                finally:
                    p.unlink()
                nfaults += 1
                ctx.mark(("fault", doc, repr(sorted(f.items()))))
                if sum(len(r) for r in req) > 30_000_000:
                    ctx.correspond("byte-level faults on real documents: recorded externals replayed in the model", req, out, translated=True)
                    req, out = [], []
        # ---- path-level faults -------------------------------------------------------------------------
        for kind in ("missing", "empty-file", "empty-dir", "dir-wrong-suffix", "name-too-long", "file-in-dir-form",
                     "nul-in-name"):
            inp = {"op": "path", "kind": kind, "fault": "path", "document": "<path>"}
            if kind == "missing":
                p = tmp / "nope.numbers"
            elif kind == "empty-file":
                p = tmp / "e.numbers"
                p.write_bytes(b"")
            elif kind == "empty-dir":
                p = tmp / "d.numbers"
                p.mkdir()
            elif kind == "dir-wrong-suffix":
                p = tmp / "d.other"
                p.mkdir()
            elif kind == "name-too-long":
                p = tmp / ("a" * 300 + ".numbers")
            elif kind == "nul-in-name":
                p = tmp / "a\x00b.numbers"
            else:
                p = tmp / "f.numbers"
                p.mkdir()
                (p / "Index.zip").write_bytes(b"not a zip")
                (p / "Metadata").mkdir()
                (p / "Metadata" / "Properties.plist").write_bytes(b"x")
                (p / "Metadata" / "BuildVersionHistory.plist").write_bytes(b"x")
            observe(ctx, p, inp, req, out, stats, model=True)
            nfaults += 1
            ctx.mark(("path", kind))
            if _is_dir(p):
                shutil.rmtree(p)
            elif _exists(p):
                p.unlink()
        # ---- package folders ---------------------------------------------------------------------------
        pkgs = ["test-5.numbers", "test-7.numbers"] if ctx.quick else \
            sorted(p.name for p in data.glob("*.numbers") if p.is_dir())
        for pk in pkgs:
            rnd = random.Random(f"{ctx.seed}:{pk}")
            files = sorted(str(f.relative_to(data / pk)) for f in (data / pk).rglob("*") if f.is_file())
            if not files:
                continue
            targets = [f for f in files if f.endswith((".iwa", ".plist", ".zip"))] or files
            rnd.shuffle(targets)
            for rel in targets[: (4 if ctx.quick else 40)]:
                kinds = MEMBER_FAULTS if rel.endswith(".iwa") else ["empty", "2b", "half", "garbage-raw", "missing"]
                for kind in (rnd.sample(kinds, min(len(kinds), 6)) if ctx.quick else kinds):
                    dst = tmp / pk
                    shutil.copytree(data / pk, dst)
                    try:
                        orig = (dst / rel).read_bytes()
                        nb = member_fault(orig, kind, random.Random(rnd.randrange(1 << 30)))
                        if nb is None:
                            (dst / rel).unlink()
                        else:
                            (dst / rel).write_bytes(nb)
                        inp = {"op": "package", "document": pk, "fault": "package-member", "member": rel, "kind": kind,
                               "seed": ctx.seed}
                        observe(ctx, dst, inp, req, out, stats, model=True)
                        nfaults += 1
                        ctx.mark(("package", pk, rel, kind))
                    finally:
                        shutil.rmtree(dst, ignore_errors=True)
    finally:
        shutil.rmtree(tmp, ignore_errors=True)
    if req:
        ctx.correspond("byte-level faults on real documents: recorded externals replayed in the model", req, out, translated=True)
    # the documented outcome for the encrypted fixture
    enc = data / "test-issue-93.numbers"
    if enc.exists():
        kind, exc = observe(ctx, enc, {"op": "fixture", "document": enc.name, "fault": "encrypted-fixture"}, [], [], stats,
                            model=False)
        if kind != "allowed" or type(exc).__name__ not in ("UnsupportedError", "FileFormatError"):
            ctx.violation("encrypted-fixture", f"encrypted fixture -> {kind} {type(exc).__name__ if exc else None}",
                          {"op": "fixture", "document": enc.name})
    # every fixture as it is: loads, or fails with a library error
    nfix = 0
    for p in sorted(data.glob("*.numbers")) + sorted(data.glob("*.numberz")):
        if ctx.quick and nfix >= 25 and not p.is_dir():
            continue
        req, out = [], []
        observe(ctx, p, {"op": "fixture", "document": p.name, "fault": "none"}, req, out, stats, model=True)
        if req:
            ctx.correspond("fixtures as shipped (valid and invalid): recorded externals replayed in the model", req, out, translated=True)
        nfix += 1
    ctx.extra["faults_applied"] = nfaults
    ctx.extra["outcomes"] = {k: v for k, v in stats.items() if isinstance(v, int)}
    ctx.extra["violations_by_signature"] = stats.get("violations_by_signature", {})
    ctx.extra["late_failures"] = stats.get("late", 0)
    ctx.extra["late_failures_by_frame"] = stats.get("late_failures_by_frame", {})
    ctx.extra["allowed_by_type"] = stats.get("allowed_by_type", {})
    ctx.extra["seconds_total"] = round(time.time() - t0, 1)


def replay(data):
    """re-apply one stored fault and open the result with the real Document"""
    from numbers_parser import Document
    i = data.get("input", {})
    tmp = Path(tempfile.mkdtemp(prefix="c17-replay-"))
    try:
        if i.get("op") == "fault":
            import random
            if i["document"] == "<api-generated>":
                src = api_document_bytes(random.Random(i.get("seed", 0)))
            else:
                src = (REPO / "tests" / "data" / i["document"]).read_bytes()
            b, fname = apply_fault(src, i)
            p = tmp / fname
            p.write_bytes(b)
        elif i.get("op") == "scripted":
            scn = scn_from_json(i["scenario"])
            return {"outcome_of_real_loader_with_scripted_externals": run_scripted(scn), "model_request": encode(scn)[:300] + " ..."}
        elif i.get("op") == "package":
            import random
            p = tmp / i["document"]
            shutil.copytree(REPO / "tests" / "data" / i["document"], p)
            return {"note": "package fault: re-run the check with the same VERIF_SEED", "input": i}
        else:
            return {"note": "re-run the check", "input": i}
        try:
            Document(p)
            return {"outcome": "loaded"}
        except Exception as e:  # noqa: BLE001
            kind, where, loading = classify(e)
            return {"outcome": kind, "exception": f"{type(e).__module__}.{type(e).__name__}", "message": str(e)[:200],
                    "innermost_library_frame": where, "raised_while_loading": loading}
    finally:
        shutil.rmtree(tmp, ignore_errors=True)
