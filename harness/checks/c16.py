"""C16 — Table geometry and labels survive save and reopen unchanged."""
from __future__ import annotations

import math
import os
import struct
import tempfile
import warnings
from fractions import Fraction

import common
from common import REPO, Ctx, enc_text, exc_name

PID = "C16"
PROPS_MODULE = "NumbersModel.Props.C16"
THEOREMS = [f"NumbersModel.Props.C16.{t}" for t in (
    "sizes_fixed_point", "no_drift", "set_then_reload", "set_then_reload_api", "labels_preserved", "label_setters",
    # labels as _NumbersModel computes them from the stored objects (Model/DocTree.lean), after a reload from any file order
    "labels_after_reload", "labels_after_reload_history")] + ["NumbersModel.DocTree.labels_perm", "NumbersModel.DocTree.allLabels_perm"]
PARTIAL = {
    "labels_protobuf_glue": "labels_after_reload is about the object store: table model, the table info pointing at it, its caption object and "
                        "that one's text storage, looked up as the code does, reloaded from any arrangement of the saved archives. What stays "
                        "assumed is only that protobuf / snappy / zipfile write and read the individual fields faithfully (compared on every "
                        "saved package by an independent reader in the document-tree stream, not proved)",
}
RULE = ("API-built documents (3..9 rows x 2..6 columns, optional second table at given coordinates) and fixture documents x a "
        "script over {row_height, col_width, header counts, table/sheet name, caption text, caption / name visibility} x 0..6 "
        "border strokes of dyadic widths 0.25..8 pt on the affected rows/columns (before and after the sizes are set) x "
        "sizes queried or not before saving x 1..3 save/reopen cycles; 30 % of the API-built histories end in a structural tail "
        "(table added below, add_row(1..6) / add_column(1..2) / resize; delete_row at the end only in histories without strokes - "
        "recorded finding stale-size-memo-after-delete-row) with 0..3 further strokes on the last row / column or running past "
        "them (oracle only); every observable of every table compared with a twin "
        "document that was built the same way and only read. One protocol line per axis (rows, columns) and one for the labels "
        "of the scripted table. Non-trivial = a history with at least one explicit size, border or label change, or a fixture "
        "table with a non-default stored size; distinct by protocol line")
ASSUMPTIONS = [
    "sizes and allowances cross the boundary as exact rationals of the floats the code computes with (stored sizes are binary32; "
    "the allowance max/2 + max/2 is taken from the same float expression); float addition of an integer size and an allowance is "
    "assumed exact (border widths in the generated histories are multiples of 0.25 pt)",
    "border widths survive save/reopen (property C15), so the allowance function is the same before and after a cycle; since "
    "fixes/C15-borders-refreshed-after-cell-recreation.patch this includes the cells of appended rows / columns (they report the "
    "strokes along their edges in the open document too - Props.C15.open_eq_saved_edits)",
    "an integer size below 2^24 is exactly representable in the binary32 field it is written to",
    "a row's own height (reported minus whole points of allowance) is not 0: 0 is how the file says 'default' (hypothesis "
    "Storable; generated sizes are >= 10 pt)",
]
MANIFEST = {
    "text": "Core proved, glue assumed. Lean theorems over a model of row_height/col_width (user-set sizes, memo, bucket lookup, "
            "default, border allowance +max/2, round-half-even and floor as coded), the repaired write-back of "
            "recalculate_row_headers/recalculate_column_headers and the memo invalidation of set_cell_border: "
            "sizes_fixed_point (what is read after save+reopen equals what was read before, for every row/column, set, "
            "queried or neither, any borders), no_drift (any number of cycles; stored headers stable from the first save; table "
            "height/width), set_then_reload (stored h - floor(a) reports h for all integers h, allowances a, denominators) and "
            "set_then_reload_api (a size set through the API survives reload and later borders). Labels: labels_preserved / label_setters "
            "over plain archive fields, and labels_after_reload / labels_after_reload_history over Model/DocTree.lean (the object store as "
            "the code keeps it: table_name, table_name_enabled, caption_enabled, caption_text incl. create_caption_archive, header counts, "
            "table_coordinates read through table_info_id and the caption references): after any history, from the saved package or any "
            "rearrangement of its members and archives, every table shows the same labels; tied by the document-tree stream of "
            "checks/c19.py (live store vs model, saved package read independently, reopened rewritten layouts).",
    "note": "the pinned commit violated the property (unqueried row heights reset to default, +floor(allowance) per cycle, set "
            "sizes lost when a border is drawn); repaired by fixes/C16-*.patch; model mirrors the repaired code, pinned variants "
            "kept as counter-examples.",
    "technique": "Lean 4 proof (integer arithmetic of round/floor, invariance of reads under memoisation, induction over cycles) "
                 "+ differential correspondence on scripted documents and fixtures + API-level twin oracle",
}

SIDES = ["top", "right", "bottom", "left"]
WIDTHS = [0.25, 0.5, 1.0, 2.0, 3.0, 3.5, 4.0, 5.75, 8.0]
NAMES = ["Table 1", "T x", "Données", "表", "a b c", "X"]
CAPTIONS = ["hello", "", "Caption", "two\nlines", "ünï"]
FIXTURES_QUICK = ["issue-69b.numbers", "test-1.numbers", "test-extra-borders.numbers", "issue-43.numbers", "test-10.numbers",
                  "issue-51.numbers", "test-titles.numbers", "issue-69.numbers", "issue-10.numbers",
                  "custom-format-stress-template.numbers", "test-pivot.numbers", "issue-17.numbers",
                  # tables whose own default row height / column width differs from the library's 20 / 98
                  "test-styles.numbers", "issue-77.numbers", "issue-7.numbers"]


def cycle(doc):
    from numbers_parser import Document
    fd, path = tempfile.mkstemp(suffix=".numbers")
    os.close(fd)
    try:
        doc.save(path)
        return Document(path)
    finally:
        os.unlink(path)


def f32bits(x: float) -> int:
    return struct.unpack("<i", struct.pack("<f", x))[0]


class Err(str):
    """an observable that could not be read (compared like any other value, printed as text)."""


def _try(f):
    try:
        return f()
    except Exception as e:  # noqa: BLE001
        return Err("raises " + exc_name(e))


def observe_table(sheet, tb):
    return {
        "rows": _try(lambda: [tb.row_height(r) for r in range(tb.num_rows)]),
        "cols": _try(lambda: [tb.col_width(c) for c in range(tb.num_cols)]),
        "height": _try(lambda: tb.height), "width": _try(lambda: tb.width),
        "coordinates": _try(lambda: [float(v) for v in tb.coordinates]),
        "num_header_rows": tb.num_header_rows, "num_header_cols": tb.num_header_cols,
        "name": tb.name, "sheet": sheet.name, "caption": _try(lambda: tb.caption),
        "caption_enabled": _try(lambda: bool(tb.caption_enabled)), "table_name_enabled": bool(tb.table_name_enabled),
    }


def observe_labels_only(sheet, tb):
    return {k: v for k, v in {
        "coordinates": [float(v) for v in tb.coordinates],
        "num_header_rows": tb.num_header_rows, "num_header_cols": tb.num_header_cols,
        "name": tb.name, "sheet": sheet.name, "caption": tb.caption,
        "caption_enabled": bool(tb.caption_enabled), "table_name_enabled": bool(tb.table_name_enabled)}.items()}


def observe_all(doc):
    return [[observe_table(sh, tb) for tb in sh.tables] for sh in doc.sheets]


def allowances(tb):
    """border allowance per row and per column, from what the API reports, with the float expression of the code."""
    nr, nc = tb.num_rows, tb.num_cols
    bd = [[tb.cell(r, c).border for c in range(nc)] for r in range(nr)]

    def mx(vals):
        return max([0.0] + [v.width for v in vals if v is not None])
    rows = [Fraction(mx(bd[r][c].top for c in range(nc)) / 2 + mx(bd[r][c].bottom for c in range(nc)) / 2) for r in range(nr)]
    cols = [Fraction(mx(bd[r][c].left for r in range(nr)) / 2 + mx(bd[r][c].right for r in range(nr)) / 2) for c in range(nc)]
    return rows, cols


def stored_axis(doc, tb, rows: bool):
    """(n, default, [(index, size)]) from the archives, as exact rationals."""
    m = doc._model
    tm = m.objects[tb._table_id]
    bds = tm.base_data_store
    if rows:
        buckets = m.objects[bds.rowHeaders.buckets[0].identifier].headers
        return tb.num_rows, Fraction(tm.default_row_height), [(h.index, Fraction(h.size)) for h in buckets]
    buckets = m.objects[bds.columnHeaders.identifier].headers
    return tb.num_cols, Fraction(tm.default_column_width), [(h.index, Fraction(h.size)) for h in buckets]


def label_state(doc, sheet, tb):
    m = doc._model
    tm = m.objects[tb._table_id]
    info = m.objects[m.table_info_id(tb._table_id)]
    cap = m.objects[info.super.caption.identifier]
    standin = cap.DESCRIPTOR.name == "StandinCaptionArchive"
    texts = [] if standin else list(m.objects[cap.super.owned_storage.identifier].text)
    return [enc_text(tm.table_name), enc_text(m.objects[sheet._sheet_id].name), "1" if tm.table_name_enabled else "0",
            "1" if info.super.caption_hidden else "0", "1" if standin else "0", str(len(texts))] + [enc_text(t) for t in texts] + [
            str(tm.number_of_header_rows), str(tm.number_of_header_columns),
            str(f32bits(info.super.geometry.position.x)), str(f32bits(info.super.geometry.position.y))]


def show_obs(o):
    return " ".join([enc_text(o["name"]), enc_text(o["sheet"]), "1" if o["table_name_enabled"] else "0",
                     "1" if o["caption_enabled"] else "0", enc_text(o["caption"]), str(o["num_header_rows"]),
                     str(o["num_header_cols"]), str(f32bits(o["coordinates"][0])), str(f32bits(o["coordinates"][1]))])


class AxisLine:
    """collects one `sizes run` protocol line; rational tokens are scaled to a common denominator at the end."""

    def __init__(self, n, dflt, headers, allow):
        self.n = n
        self.head = [dflt, len(headers)] + [x for i, s in headers for x in (i, s)]
        self.allow0 = list(allow)
        self.ops: list = []
        self.outs: list[str] = []

    def op(self, *toks):
        self.ops += list(toks)

    def out(self, v):
        self.outs.append(str(int(v)))

    def line(self):
        fr = [t for t in [self.head[0]] + self.head[2:] + self.allow0 + self.ops if isinstance(t, Fraction)]
        d = 1
        for f in fr:
            d = d * f.denominator // math.gcd(d, f.denominator)

        def tok(t):
            return str(int(t * d)) if isinstance(t, Fraction) else str(t)
        words = ["sizes", "run", str(d), str(self.n), tok(self.head[0]), str(self.head[1])]
        hs = self.head[2:]
        for k in range(0, len(hs), 2):
            words += [str(hs[k]), tok(hs[k + 1])]
        words += [tok(a) for a in self.allow0] + [tok(t) for t in self.ops]
        return " ".join(words), "ok " + " ".join(self.outs)


def gen_script(rng, nr, nc, heavy=True):
    ops = []
    n = rng.randint(0, 9) if heavy else rng.randint(0, 3)
    for _ in range(n):
        k = rng.random()
        if k < 0.22:
            # the library's own default sizes (20 / 98) and typical fixture defaults are special values for the write-back
            ops.append(["rowh", rng.randrange(nr), rng.choice([20, 20, 98, 14, 16, 22]) if rng.random() < 0.25 else rng.randint(10, 120)])
        elif k < 0.44:
            ops.append(["colw", rng.randrange(nc), rng.choice([98, 98, 20, 50, 65]) if rng.random() < 0.25 else rng.randint(30, 300)])
        elif k < 0.50:
            ops.append(["readrow", rng.randrange(nr)])
        elif k < 0.56:
            ops.append(["readcol", rng.randrange(nc)])
        elif k < 0.74:
            side = rng.choice(SIDES)
            r, c = rng.randrange(nr), rng.randrange(nc)
            ops.append(["stroke", side, r, c, rng.randint(1, 3), rng.choice(WIDTHS)])
        elif k < 0.79:
            ops.append(["hdr_rows", rng.randint(0, min(5, nr))])
        elif k < 0.84:
            ops.append(["hdr_cols", rng.randint(0, min(5, nc))])
        elif k < 0.88:
            ops.append(["tname", rng.choice(NAMES) + str(rng.randrange(100))])
        elif k < 0.91:
            ops.append(["sname", rng.choice(NAMES)])
        elif k < 0.95:
            ops.append(["caption", rng.choice(CAPTIONS)])
        elif k < 0.98:
            ops.append(["cap_en", rng.random() < 0.6])
        else:
            ops.append(["name_en", rng.random() < 0.5])
    return ops


def apply_op(doc, sheet, tb, op):
    from numbers_parser import RGB, Border
    k = op[0]
    if k in ("readrow", "readcol"):
        return  # reads are done on the document under test only, by the caller
    if k == "rowh":
        tb.row_height(op[1], op[2])
    elif k == "colw":
        tb.col_width(op[1], op[2])
    elif k == "stroke":
        tb.set_cell_border(op[2], op[3], op[1], Border(float(op[5]), RGB(0, 0, 0), "solid"), op[4])
    elif k == "hdr_rows":
        tb.num_header_rows = op[1]
    elif k == "hdr_cols":
        tb.num_header_cols = op[1]
    elif k == "tname":
        tb.name = op[1]
    elif k == "sname":
        sheet.name = op[1]
    elif k == "caption":
        tb.caption = op[1]
    elif k == "cap_en":
        tb.caption_enabled = op[1]
    elif k == "name_en":
        tb.table_name_enabled = op[1]
    elif k == "addtable":   # a further table on the scripted table's sheet, placed by the library (no coordinates) or at x, y
        kw = {} if op[1] is None else {"x": op[1][0], "y": op[1][1]}
        sheet.add_table(num_rows=op[2], num_cols=op[3], **kw)
    elif k == "addrow":
        tb.add_row(op[1])
    elif k == "delrow":
        tb.delete_row(op[1])
    elif k == "addcol":
        tb.add_column(op[1])


def build(spec):
    from numbers_parser import Document
    if spec["fixture"]:
        return Document(str(REPO / "tests/data" / spec["fixture"]))
    doc = Document(num_rows=spec["rows"], num_cols=spec["cols"], num_header_rows=spec["hr"], num_header_cols=spec["hc"])
    if spec["second"]:
        x, y, r2, c2 = spec["second"]
        doc.sheets[0].add_table("Second", x=x, y=y, num_rows=r2, num_cols=c2)
    return doc


def compare(sub: Ctx, want, got, inp, when, set_rows, set_cols, tpos):
    """the property: every observable of every table equal to the twin's."""
    for si, (ws, gs) in enumerate(zip(want, got)):
        for ti, (w, g) in enumerate(zip(ws, gs)):
            where = f"sheet {si} table {ti} ({w['name']!r}), {when}"
            for key, sig in (("rows", "row-height-changes-on-reopen"), ("cols", "col-width-changes-on-reopen")):
                if w[key] != g[key]:
                    if isinstance(w[key], Err) or isinstance(g[key], Err):
                        sub.violation(sig, f"{where}: {key} {w[key]!r} -> {g[key]!r}", inp)
                        continue
                    d = [(i, a, b) for i, (a, b) in enumerate(zip(w[key], g[key])) if a != b][:4]
                    sub.violation(sig, f"{where}: {key} [index, before, after] {d}" +
                                  ("" if len(w[key]) == len(g[key]) else f"; count {len(w[key])} -> {len(g[key])}"), inp)
            if (w["height"], w["width"]) != (g["height"], g["width"]):
                sub.violation("table-size-changes-on-reopen", f"{where}: (height, width) {(w['height'], w['width'])} -> "
                              f"{(g['height'], g['width'])}", inp)
            lab = [k for k in ("coordinates", "num_header_rows", "num_header_cols", "name", "sheet", "caption", "caption_enabled",
                               "table_name_enabled") if w[k] != g[k]]
            if lab:
                sub.violation("label-changes-on-reopen", f"{where}: " + "; ".join(f"{k} {w[k]!r} -> {g[k]!r}" for k in lab), inp)
    if tpos is not None:
        g = got[tpos[0]][tpos[1]]
        bad = [] if isinstance(g["rows"], Err) else [(i, h, g["rows"][i]) for i, h in set_rows.items() if g["rows"][i] != h]
        bad2 = [] if isinstance(g["cols"], Err) else [(i, h, g["cols"][i]) for i, h in set_cols.items() if g["cols"][i] != h]
        if bad or bad2:
            sub.violation("set-size-not-reported-after-reopen", f"{when}: sizes set through the API [index, set, reported] rows {bad} "
                          f"columns {bad2}", inp)


def history(sub: Ctx, seed: int, h: int, fixture):
    rng = sub.rng
    if fixture:
        spec = {"fixture": fixture}
    else:
        nr, nc = rng.randint(3, 9), rng.randint(2, 6)
        spec = {"fixture": None, "rows": nr, "cols": nc, "hr": rng.randint(0, min(2, nr)), "hc": rng.randint(0, min(2, nc)),
                "second": (float(rng.choice([0, 50, 337])), float(rng.choice([0, 25.5, 400])), rng.randint(2, 4), rng.randint(2, 4))
                if rng.random() < 0.3 else None}
    try:
        test, twin = build(spec), build(spec)
    except Exception:  # noqa: BLE001  (unreadable fixtures are another property)
        return []
    # the scripted table
    cands = [(si, ti) for si, sh in enumerate(test.sheets) for ti, tb in enumerate(sh.tables)]
    tpos = cands[0] if not fixture else rng.choice(cands[:4])
    sh_t, tb_t = test.sheets[tpos[0]], test.sheets[tpos[0]].tables[tpos[1]]
    sh_w, tb_w = twin.sheets[tpos[0]], twin.sheets[tpos[0]].tables[tpos[1]]
    nr, nc = tb_t.num_rows, tb_t.num_cols
    if nr == 0 or nc == 0 or nr * nc > 1500:
        return []
    script = gen_script(rng, nr, nc, heavy=not fixture)
    structural = False
    if test._model.is_a_pivot_table(tb_t._table_id):
        script = []  # Document.save leaves pivot tables as they are and says so (UnsupportedWarning)
    elif not fixture and rng.random() < 0.3:
        # tail: a table is added below (placed by the library, or at coordinates) and THEN the table above changes its
        # height (rows added / removed / resized), or the other way round; positions are read before the save (twin) and
        # after the reopen.  The size / label model lines are not emitted for these histories (oracle only).
        structural = True
        # strokes stay in these histories, and some are put on the edges the tail appends rows / columns to (or run past them):
        # the appended cells share those edges (repaired defect `size-changes-on-reopen-after-add-next-to-stroke`,
        # fixes/C15-borders-refreshed-after-cell-recreation.patch; fixed scenario `stroke-then-add-row`)
        for _ in range(rng.choice([0, 1, 2, 3])):
            k = rng.random()
            if k < 0.35:
                script.append(["stroke", "bottom", nr - 1, rng.randrange(nc), rng.randint(1, 3), rng.choice(WIDTHS)])
            elif k < 0.7:
                script.append(["stroke", "right", rng.randrange(nr), nc - 1, rng.randint(1, 3), rng.choice(WIDTHS)])
            elif k < 0.85:
                script.append(["stroke", rng.choice(["left", "right"]), nr - 1, rng.randrange(nc), rng.randint(2, 4), rng.choice(WIDTHS)])
            else:
                script.append(["stroke", rng.choice(["top", "bottom"]), rng.randrange(nr), nc - 1, rng.randint(2, 4), rng.choice(WIDTHS)])
        hdr = max([op[1] for op in script if op[0] == "hdr_rows"] + [tb_t.num_header_rows])
        grow = [["addrow", rng.randint(1, 6)], ["rowh", rng.randrange(min(nr, hdr + 1)), rng.randint(40, 150)],
                ["addcol", rng.randint(1, 2)]]   # (a row that no `delrow` of the tail removes)
        # rows are deleted only in histories without strokes: a size that was read while a stroke of the deleted rows counted
        # towards it stays memoised (recorded finding `stale-size-memo-after-delete-row`, scenario `read-stroke-then-delete-row`)
        if nr - hdr >= 3 and not any(op[0] == "stroke" for op in script):
            grow.append(["delrow", rng.randint(1, nr - hdr - 1)])
        t1 = ["addtable", None if rng.random() < 0.7 else [float(rng.choice([0, 40])), float(rng.choice([300, 512.5]))],
              rng.randint(2, 5), rng.randint(2, 4)]
        tail = [t1, rng.choice(grow)] if rng.random() < 0.7 else [rng.choice(grow), t1]
        if rng.random() < 0.4:
            tail += [["addtable", None, 2, 2], rng.choice(grow[:2])]
        script = script + tail
    queried = rng.random() < 0.5
    if fixture and script and not structural and rng.random() < 0.35:
        # aimed at the write-back of sizes next to borders that came with the file: only sizes of the FIRST rows / columns are
        # set through the API, nothing is read and no border is touched before the save
        script = [["rowh", r, rng.randint(30, 90)] for r in range(min(nr, rng.choice([1, 1, 2])))]
        if rng.random() < 0.4:
            script += [["colw", 0, rng.randint(60, 200)]]
        queried = False
    ncycles = rng.choice([1, 1, 2, 3]) if not fixture else rng.choice([1, 2])
    inp = {"seed": seed, "history": h, **spec, "table": list(tpos), "script": script, "queried_before_save": queried,
           "cycles": ncycles}
    try:
        arow, acol = allowances(tb_w)
    except Exception:  # noqa: BLE001  (a table without stroke archive: borders, hence sizes, cannot be read at all)
        sub.count("fixture tables whose borders cannot be read (sizes raise before and after alike)", 1)
        want = observe_all(twin)
        try:
            got = observe_all(cycle(test))
        except Exception:  # noqa: BLE001
            return []
        compare(sub, want, got, inp, "after 1 save/reopen cycle, unreadable borders", {}, {}, None)
        return []
    rows = AxisLine(*stored_axis(test, tb_t, True), arow)
    cols = AxisLine(*stored_axis(test, tb_t, False), acol)
    lab_words = label_state(test, sh_t, tb_t)
    lab_ops, lab_outs = [], []
    set_rows, set_cols = {}, {}
    for op in script:
        try:
            with warnings.catch_warnings(record=True) as caught:
                warnings.simplefilter("always")
                apply_op(twin, sh_w, tb_w, op)
                apply_op(test, sh_t, tb_t, op)
            refused = any(issubclass(x.category, RuntimeWarning) for x in caught)
        except Exception as e:  # noqa: BLE001
            sub.violation(("caption" if op[0] == "caption" else "geometry") + "-setter-raises", f"{op}: {exc_name(e)}: {e}", inp)
            return []
        k = op[0]
        if k == "rowh":
            rows.op("S", op[1], op[2])
            set_rows[op[1]] = op[2]
        elif k == "colw":
            cols.op("S", op[1], op[2])
            set_cols[op[1]] = op[2]
        elif k == "stroke":
            side, r, c, n = op[1], op[2], op[3], op[4]
            arow, acol = allowances(tb_w)
            # memo invalidation as set_cell_border does it (the other axis is neither invalidated nor changed)
            if refused:
                pass
            elif side in ("top", "bottom"):
                j = r - 1 if side == "top" else r + 1
                rows.op("B", r, j if j >= 0 else r, *arow)
            else:
                j = c + 1 if side == "right" else c - 1
                cols.op("B", c, j if j >= 0 else c, *acol)
        elif k == "readrow":
            rows.op("R", op[1])
            rows.out(tb_t.row_height(op[1]))
        elif k == "readcol":
            cols.op("R", op[1])
            cols.out(tb_t.col_width(op[1]))
        elif k in ("addtable", "addrow", "addcol"):
            pass
        elif k == "delrow":
            for i in [i for i in set_rows if i >= tb_t.num_rows]:
                del set_rows[i]
        elif k in ("hdr_rows", "hdr_cols", "cap_en", "name_en"):
            lab_ops += [{"hdr_rows": "hr", "hdr_cols": "hc", "cap_en": "ce", "name_en": "ne"}[k],
                        str(int(op[1])) if k.startswith("hdr") else ("1" if op[1] else "0")]
        else:
            lab_ops += [{"tname": "tn", "sname": "sn", "caption": "ct"}[k], enc_text(op[1])]
    want = observe_all(twin)

    def query(doc, sheet, tb):
        for i in range(tb.num_rows):
            rows.op("R", i)
            rows.out(tb.row_height(i))
        for i in range(tb.num_cols):
            cols.op("R", i)
            cols.out(tb.col_width(i))
        rows.op("T")
        rows.out(tb.height)
        cols.op("T")
        cols.out(tb.width)
        lab_ops.append("O")
        lab_outs.append(show_obs(observe_labels_only(sheet, tb) | {"coordinates": [float(v) for v in tb.coordinates]}))

    if queried:
        query(test, sh_t, tb_t)
    ok = True
    for k in range(ncycles):
        try:
            test = cycle(test)
        except Exception as e:  # noqa: BLE001
            if fixture:
                sub.count("fixtures that cannot be re-saved (other properties)", 1)
            else:
                sub.violation("save-raises", f"cycle {k + 1}: {exc_name(e)}: {e}", inp)
            ok = False
            break
        sh_t, tb_t = test.sheets[tpos[0]], test.sheets[tpos[0]].tables[tpos[1]]
        rows.op("C")
        cols.op("C")
        lab_ops.append("C")
        got = observe_all(test)  # reads every size of every table
        # the same reads, in the same order, for the scripted table's protocol lines
        g = got[tpos[0]][tpos[1]]
        if any(isinstance(g[k], Err) for k in ("rows", "cols", "height", "width", "caption", "caption_enabled", "coordinates")):
            ok = False
            break
        for i, v in enumerate(g["rows"]):
            rows.op("R", i)
            rows.out(v)
        for i, v in enumerate(g["cols"]):
            cols.op("R", i)
            cols.out(v)
        rows.op("T")
        rows.out(g["height"])
        cols.op("T")
        cols.out(g["width"])
        lab_ops.append("O")
        lab_outs.append(show_obs(g))
        compare(sub, want, got, inp, f"after {k + 1} save/reopen cycle(s), sizes {'queried' if queried else 'not queried'} before "
                "the first save", set_rows, set_cols, tpos)
    sub.count("histories: every observable of every table vs the twin, after each save/reopen cycle", 1)
    lines = []
    if structural:
        sub.count("histories with a table added below the scripted table and the table above resized / grown / shrunk "
                  "afterwards (or before): positions and sizes of every table before the save vs after reopen", 1)
    if ok and not structural:
        lines = [rows.line(), cols.line(),
                 (" ".join(["labels", "run"] + lab_words + lab_ops), "ok " + " ; ".join(lab_outs))]
        nontrivial = bool(script) or any(s != 0 for _, s in stored_axis(twin, tb_w, True)[2])
        if nontrivial:
            for ln, _ in lines[:2]:
                sub.mark(ln)
    if h < 2:
        sub.sample({"kind": "geometry history", **{k: v for k, v in inp.items() if k != "script"}, "script": script[:6]})
    return lines


def _worker(task):
    warnings.simplefilter("ignore")
    seed, h, fixture = task
    sub = Ctx(PID, "quick", seed * 3_000_017 + h)
    try:
        lines = history(sub, seed, h, fixture)
    except Exception as e:  # noqa: BLE001
        import traceback
        sub.violation("geometry-history-raises", f"{exc_name(e)}: {e}; {traceback.format_exc(limit=4)}",
                      {"seed": seed, "history": h, "fixture": fixture})
        lines = []
    return common.sub_result(sub, lines)


def scenario(name):
    from numbers_parser import RGB, Border, Document
    if name == "issue-69b-unqueried":
        f = REPO / "tests/data/issue-69b.numbers"
        if not f.exists():
            return None
        want = [Document(str(f)).sheets[0].tables[0].row_height(r) for r in range(3)]
        got = [cycle(Document(str(f))).sheets[0].tables[0].row_height(r) for r in range(3)]
        if want != got:
            return ("row-height-changes-on-reopen", f"issue-69b.numbers opened and saved without reading any size: row heights {want} "
                    f"-> {got}")
    elif name == "border-drift":
        doc = Document()
        tb = doc.sheets[0].tables[0]
        tb.set_cell_border(1, 1, "top", Border(3.0, RGB(0, 0, 0), "solid"))
        tb.set_cell_border(1, 1, "left", Border(3.0, RGB(0, 0, 0), "solid"))
        seq = [(tb.row_height(1), tb.col_width(1), tb.height, tb.width)]
        for _ in range(3):
            doc = cycle(doc)
            tb = doc.sheets[0].tables[0]
            seq.append((tb.row_height(1), tb.col_width(1), tb.height, tb.width))
        if len(set(seq)) != 1:
            return ("row-height-changes-on-reopen", "3 pt borders on the top and left of B2, then three save/reopen cycles: "
                    f"(row_height(1), col_width(1), height, width) = {seq}")
    elif name == "stroke-then-add-row":
        doc = Document(num_rows=5, num_cols=3)
        tb = doc.sheets[0].tables[0]
        tb.set_cell_border(4, 0, "bottom", Border(4.0, RGB(0, 0, 0), "solid"), 1)
        tb.set_cell_border(0, 2, "right", Border(4.0, RGB(0, 0, 0), "solid"), 1)
        tb.add_row(2)
        tb.add_column(1)

        def sizes(t):
            return ([t.row_height(i) for i in range(t.num_rows)], [t.col_width(i) for i in range(t.num_cols)], t.height, t.width)
        before = sizes(tb)
        after = sizes(cycle(doc).sheets[0].tables[0])
        if before != after:
            return ("size-changes-on-reopen-after-add-next-to-stroke",
                    "4 pt borders on the bottom of A5 (last row) and the right of C1 (last column), then add_row(2), add_column(1): "
                    f"(row heights, column widths, height, width) before the save {before}, after reopen {after}")
    elif name == "read-stroke-then-delete-row":
        # recorded finding: delete_row does not drop the memoised column widths (nor delete_column the row heights)
        def build_doc(read_first):
            doc = Document(num_rows=5, num_cols=3)
            tb = doc.sheets[0].tables[0]
            tb.set_cell_border(4, 2, "left", Border(8.0, RGB(0, 0, 0), "solid"), 3)     # only the last row shows it
            if read_first:
                tb.col_width(1)
            tb.delete_row(1)
            return doc
        a = build_doc(True)
        b = build_doc(False)
        wa, wb = a.sheets[0].tables[0].col_width(1), b.sheets[0].tables[0].col_width(1)
        ra, rb = cycle(a).sheets[0].tables[0].col_width(1), cycle(b).sheets[0].tables[0].col_width(1)
        if (wa, ra) != (wb, rb):
            return ("stale-size-memo-after-delete-row", "8 pt stroke on the left of C5 (last row of 5), then delete_row(1): col_width(1) is "
                    f"{wb} (reopened {rb}); if col_width(1) was read before the row was deleted it stays {wa} (reopened {ra})")
    elif name == "set-then-border":
        doc = Document()
        tb = doc.sheets[0].tables[0]
        tb.row_height(2, 50)
        tb.col_width(2, 150)
        tb.set_cell_border(2, 2, "top", Border(4.0, RGB(0, 0, 0), "solid"))
        tb.set_cell_border(2, 2, "left", Border(4.0, RGB(0, 0, 0), "solid"))
        t2 = cycle(doc).sheets[0].tables[0]
        got = (t2.row_height(2), t2.col_width(2))
        if got != (50, 150):
            return ("set-size-not-reported-after-reopen", "row_height(2, 50), col_width(2, 150), then 4 pt borders on the top and left "
                    f"of C3: after save/reopen (row_height(2), col_width(2)) = {got}")
    elif name == "border-then-set":
        doc = Document()
        tb = doc.sheets[0].tables[0]
        tb.set_cell_border(2, 2, "top", Border(4.0, RGB(0, 0, 0), "solid"))
        tb.row_height(2, 50)
        got = cycle(doc).sheets[0].tables[0].row_height(2)
        if got != 50:
            return ("set-size-not-reported-after-reopen", f"4 pt border on the top of C3, then row_height(2, 50): after save/reopen {got}")
    elif name == "caption-on-old-document":
        # recorded finding: the caption setter needs objects that documents written by old Numbers versions lack
        f = REPO / "tests/data/issue-17.numbers"
        if not f.exists():
            return None
        tb = Document(str(f)).sheets[0].tables[0]
        try:
            tb.caption = "Caption set by the check"
        except Exception as e:  # noqa: BLE001
            return ("caption-setter-raises", f"issue-17.numbers: Table.caption = 'Caption set by the check' raised {exc_name(e)}: {e}")
    return None


SCENARIOS = ["issue-69b-unqueried", "border-drift", "set-then-border", "border-then-set", "caption-on-old-document",
             "stroke-then-add-row", "read-stroke-then-delete-row"]


def _scenario_worker(task):
    warnings.simplefilter("ignore")
    (name,) = task
    sub = Ctx(PID, "quick", 0)
    sub.count("fixed scenarios (defects of the pinned commit)", 1)
    try:
        r = scenario(name)
    except Exception as e:  # noqa: BLE001
        r = ("scenario-raises", f"{name}: {exc_name(e)}: {e}")
    if r:
        sub.violation(r[0], r[1], {"scenario": name})
    return common.sub_result(sub, [])


def _dispatch(task):
    return _scenario_worker(task[1:]) if task[0] == "x" else _worker(task[1:])


def run(ctx: Ctx):
    warnings.simplefilter("ignore")
    n_hist = 1500 if ctx.quick else 12000
    fixtures = sorted(p.name for p in (REPO / "tests/data").glob("*.numbers") if p.is_file())
    fx = [f for f in FIXTURES_QUICK if f in fixtures] if ctx.quick else fixtures
    reps = 3 if ctx.quick else 4
    tasks = [("h", ctx.seed, h, None) for h in range(n_hist)]
    tasks += [("h", ctx.seed, 100_000 + k * 1000 + i, f) for k in range(reps) for i, f in enumerate(fx)]
    tasks += [("x", n) for n in SCENARIOS]
    sreq, sout, lreq, lout = [], [], [], []
    for lines in common.run_parallel(ctx, _dispatch, tasks):
        for a, b in lines:
            if a.startswith("sizes"):
                sreq.append(a)
                sout.append(b)
            else:
                lreq.append(a)
                lout.append(b)
    ctx.correspond("row/column sizes over a history of sets, strokes, reads and save/reopen cycles (one line per axis)", sreq, sout,
                   keep=1, nontrivial=lambda r, o: False)
    ctx.correspond("labels over a history of setters and save/reopen cycles", lreq, lout, keep=1, nontrivial=lambda r, o: " C " in r)
    # labels as computed from the object store (Model/DocTree.lean): live store vs model, saved package read independently,
    # reopened from rewritten layouts; the stream lives in checks/c19.py
    from checks import c19
    c19.doctree_stream(ctx, n_hist=48 if ctx.quick else 600, foreign=True)


def replay(data):
    warnings.simplefilter("ignore")
    i = data["input"]
    if i.get("stream") == "doctree":
        from checks import c19
        return c19.replay_doctree(i)
    if "scenario" in i:
        r = scenario(i["scenario"])
        return {"scenario": i["scenario"], "result": "property holds" if r is None else {"signature": r[0], "what": r[1]}}
    spec = {k: i.get(k) for k in ("fixture", "rows", "cols", "hr", "hc", "second")}
    test, twin = build(spec), build(spec)
    tpos = i["table"]
    for doc in (test, twin):
        sh = doc.sheets[tpos[0]]
        for op in i["script"]:
            apply_op(doc, sh, sh.tables[tpos[1]], op)
    want = observe_all(twin)
    if i.get("queried_before_save"):
        observe_all(test)
    res = []
    for k in range(i.get("cycles", 1)):
        test = cycle(test)
        got = observe_all(test)
        res.append({"cycle": k + 1, "equal_to_twin": got == want,
                    "scripted_table_before": want[tpos[0]][tpos[1]], "scripted_table_after": got[tpos[0]][tpos[1]]})
    return res
