"""C07 — every saved package is structurally sound and referentially closed."""
from __future__ import annotations

import datetime as dt
import math
import os
import random
import shutil
import tempfile

import common
import layouts as L
import objgraph as G
import validator as V
from common import REPO, Ctx, enc_bytes, enc_text, exc_name

PID = "C07"
PROPS_MODULE = "NumbersModel.Props.C07"
THEOREMS = [f"NumbersModel.Props.C07.{t}" for t in (
    "open_store_bounds", "ids_unique_and_below_hwm", "new_file_listed", "new_files_listed_history", "references_closed",
    "references_closed_except", "targetsExist_prefix", "header_refs_exact", "created_header_exact",
    "create_total", "created_object_filed", "created_goes_to_first_iwa_member", "iwaPaths_mem",
    "stored_objects_stay_filed_create", "stored_objects_stay_filed", "header_refs_exact_history", "tiles_partition_rows",
    "tiles_wellformed", "records_in_bounds_aligned_disjoint", "record_positions", "row_info_offsets_roundtrip")]
PARTIAL = {
    "saved_file_opens_again": "validated, not proved (zipfile, snappy, protobuf and the whole reader are outside the model)",
    "targets_exist_at_each_site": "references_closed is proved for every history that satisfies TargetsExist; that the histories the library performs satisfy it "
                                  "is checked on every recorded real session (oracle signature reference-to-missing-object), not derived from model.py: the "
                                  "creator sites are not modelled one by one. It fails exactly for identifier 0 (known finding null-reference-identifier-zero; "
                                  "references_closed_except with the exemption of 0 covers those histories)",
    "new_member_names_free": "header_refs_exact assumes wellFiled (every stored object's archive is in the file its file-name map names). Now proved kept: "
                             "stored_objects_stay_filed (every history of creations, component entries, reference writes, updates and blob additions keeps FiledInv = wellFiled + "
                             "distinct member names + identifiers below the mark), stored_objects_stay_filed_create, created_object_filed (since "
                             "fixes/C19-new-objects-go-to-iwa-members.patch a new object never goes to a blob; create_total: no AttributeError whatever the file store holds) - "
                             "under the side condition namesFree: a creation that makes a NEW member does not take an existing member's name (create_object_from_dict stores "
                             "under pattern.format(id)+'.iwa' without looking; counter-example in Props/C07.lean, where namesFree is false). That the histories the library "
                             "performs satisfy namesFree is observed, not derived: oracle signature created-file-replaces-existing-member on every recorded real session, and the "
                             "driver evaluates wellFiled before and after every recorded history",
    "header_exact_without_proviso": "header_refs_exact has the proviso the code has (`if len(references) > 0`): an object whose message lost all references keeps the header "
                                    "list of an earlier moment (seen on real sessions: HeaderStorageBucket of issue-66-collab / issue-77, counted in the evidence); the "
                                    "entries still resolve, so closure is not affected",
}
RULE = ("correspondence: _max_id of freshly opened fixtures and math.ceil(m/1e6)*1e6 on boundary values; seeded sequences of "
        "create_object_from_dict / add_component_metadata on a real ObjectStore + _NumbersModel stub (file choice by substring among the IWA members only - "
        "the file stores carry blobs named Data/..., preview.jpg, Metadata/Properties.plist, Metadata/DocumentIdentifier in every position and the patterns "
        "include 'Data', 'preview', 'Document', '' -, append, new files, failures after the identifier is consumed); tiles of saved tables with 0..1100 rows; recalculate_row_info on seeded "
        "rows (incl. a row too long for 16-bit offsets); object graph: every edit+save session below is recorded in-process (harness/objgraph.py wraps "
        "create_object_from_dict, add_component_metadata, add_component_reference, update_object_file_store, set_reference and the reference-writing methods of "
        "model.py; reference writes are observed as differences of each object's reference list between observation points) and the recorded history is replayed "
        "through the model (`ostore ghist`): results of every creation / metadata call, wellFiled, TargetsExist and the final state (identifiers, archive inventory, "
        "components with external references, per archive the references of the written message and the header's object_references) must equal the decoded saved package. "
        "Oracle on the real session (independent of the model): TargetsExist at every recorded write, every new archive file listed, no member replaced, every stored object filed, "
        "header object_references = references of the message for every archive created or changed. Validator (exploration): every package produced by plain re-save of fixtures and by "
        "seeded edit histories (new sheets/tables incl. 255/256/257/512 rows and 256/257/1000 columns, writes of every cell kind, styles, "
        "custom formats, borders, captions, merges, row/column insertion and deletion, repeated saves, package-folder form). Non-trivial = a "
        "distinct protocol line, a saved package validated or a recorded session replayed")
ASSUMPTIONS = ["math.ceil(m / 1000000) is exact float arithmetic for identifiers below 2^53 (modelled as integer ceiling)",
               "cell records have lengths that are multiples of 4 (C04) — hypothesis of records_in_bounds_aligned_disjoint",
               "the validator and the recorder decode messages with the library's own IWA/protobuf classes (used as a decoder only); references are found by "
               "validator.all_references (own walk over ListFields, map fields skipped as iwafile.find_references skips them)",
               "a protobuf message is abstracted to the list of identifiers of the TSP.Reference values inside it; an archive to (message references, "
               "message_infos[0].object_references); objects read from the source share their message with the archive, created ones do not (containers.py / iwork.py)",
               "component identifiers of PackageMetadata are pairwise distinct (then the identifier-keyed dict and the @cache of metadata_component are unobservable)"]
MANIFEST = {
    "text": "Identifier allocation, creation bookkeeping and the object graph are modelled as a state machine (new_message_id, create_object_from_dict, "
            "add_component_metadata, add_component_reference, reference writes / removals, update_object_file_store with copy_object_to_iwa_file's header rule, "
            "store_image): ids_unique_and_below_hwm (any sequence of creations, including ones that raise half-way: new identifiers pairwise distinct, distinct "
            "from loaded ones, <= last_object_identifier), open_store_bounds; references_closed (closure is an invariant: for every opened document and every "
            "history whose reference writes target an object existing at that moment - TargetsExist, decidable - every reference of every live message, written "
            "message and archive header in every reachable state resolves, except those already unresolved at load in the same object; "
            "references_closed_except: the same with an exempted identifier set - the recorded add_table history violates TargetsExist exactly at the write of "
            "identifier 0, known finding null-reference-identifier-zero, shown by an example); header_refs_exact (after update_object_file_store every stored "
            "object's written message holds the live references and its header lists exactly them, with the code's proviso for a message without references) + "
            "created_header_exact; create_total (create_object_from_dict without append returns the next identifier for EVERY file store - blobs of any name in any "
            "position; with append the only failure is KeyError when no IWA member matches: the AttributeError of the pinned code on a non-IWA member is gone, "
            "fixes/C19-new-objects-go-to-iwa-members.patch, pinned candidates kept as pathsPinned with a counter-example), created_goes_to_first_iwa_member + "
            "iwaPaths_mem (the new archive is appended to the first IWA member, in file-store order, whose name contains the pattern), created_object_filed (the "
            "object returned is filed in an IWA member that lists it), stored_objects_stay_filed (+ _create, header_refs_exact_history: wellFiled - the hypothesis of "
            "header_refs_exact - is an invariant of every history in which no new member takes an existing member's name, so every save of such a history writes exact "
            "headers); new_file_listed + new_files_listed_history (a new archive file is listed with the locator that names it and the entry survives "
            "every later operation); tile geometry: tiles_partition_rows + tiles_wellformed; row-infos: records_in_bounds_aligned_disjoint + record_positions + "
            "row_info_offsets_roundtrip. Tie to the code: the operation history of every real edit+save session (seeded histories, add_table / add_sheet across tile "
            "boundaries, styles, custom formats, captions, merges, borders, plain re-saves, second saves, reopened files) is recorded in-process and replayed through "
            "the model; the model's final state equals the decoded saved package, and TargetsExist / listing / filing / header exactness are checked on the real session. "
            "'Opens again' and the table-level conjuncts of real packages are reached by harness/validator.py - implementation-level exploration, labelled as such.",
    "note": "protobuf contents other than references are not modelled; that each creator site of model.py satisfies TargetsExist is observed on recorded sessions, not derived; "
            "validator and recorder decode with the library's own classes; Apple Numbers' acceptance of the files is out of reach.",
    "technique": "Lean 4 proof (state-machine invariants over operation histories, arithmetic of tiles and offsets) + differential correspondence on recorded real sessions + structural validator",
}

SLOW_QUICK = {"duration_112", "custom-format-stress", "issue-67", "date_formats", "test-6"}
BOUNDARY_SHAPES = [(255, 2), (256, 2), (257, 2), (512, 2), (2, 256), (2, 257), (2, 1000), (1, 1), (768, 1)]


# ---------------------------------------------------------------------------------------------
# correspondence
# ---------------------------------------------------------------------------------------------
def check_rounding(ctx: Ctx):
    req, out = [], []
    vals = sorted({0, 1, 2, 999999, 1000000, 1000001, 1999999, 2000000, 6350524, 10**9, 10**12 + 1, 2**31, 2**32 + 5, 2**40 + 1} |
                  {ctx.rng.randrange(1, 10**8) for _ in range(200)} | {k * 10**6 + d for k in (1, 7, 4000) for d in (-1, 0, 1)})
    for m in vals:
        req.append(f"ostore round {m}")
        out.append(f"ok {math.ceil(m / 1000000) * 1000000}")  # the expression of ObjectStore.__init__
    ctx.correspond("math.ceil(m / 1000000) * 1000000 (expression of ObjectStore.__init__)", req, out, keep=1)
    from numbers_parser import Document
    req, out = [], []
    data = REPO / "tests/data"
    for name in ("test-1", "issue-66-collab", "test-7", "issue-32", "test-formats", "issue-35"):
        p = data / (name + ".numbers")
        if not p.exists():
            continue
        ids = V.Facts(p).ids
        doc = Document(str(p))
        req.append(f"ostore round {max(ids)}")
        out.append(f"ok {doc._model.objects._max_id}")
        if any(i > doc._model.objects._max_id for i in ids):
            ctx.violation("high-water-mark-below-loaded-id", f"{name}: _max_id {doc._model.objects._max_id} < max loaded id {max(ids)}", {"fixture": name})
    ctx.correspond("_max_id of freshly opened fixtures", req, out, keep=1)


NAMES = ["Index/Document.iwa", "Index/DocumentStylesheet.iwa", "Index/CalculationEngine.iwa", "Index/Metadata.iwa",
         "Index/Tables/DataList.iwa", "Index/Tables/DataList-874423.iwa", "Index/Tables/Tile.iwa", "Data/image-12.jpg", "preview.jpg",
         "Metadata/Properties.plist", "Metadata/DocumentIdentifier", "Index/Tables/HeaderStorageBucket.iwa", "Index/CalculationEngine-77.iwa"]
PATTERNS = ["CalculationEngine", "Document", "DocumentStylesheet", "Index/Tables/Tile-{}", "Index/Tables/DataList-{}",
            "Index/Tables/HeaderStorageBucket-{}", "Index/Tables/DataList-874423", "Index/Tables/DataList-5", "preview", "Tables/DataList",
            "Nope", "Index/Tables/TableDataList-{}", "Data", ""]
LOCATORS = ["Tables/Tile-{}", "Tables/DataList-{}", "Tables/HeaderStorageBucket-{}", "Tables/TableDataList-{}", "X-{}-{}y", "Plain", "a-b-{}", "T-"]
PARENTS = ["CalculationEngine", "Document", "Tables/Tile", "Nope", "Tables/DataList", "DocumentStylesheet"]


def check_creation(ctx: Ctx):
    from numbers_parser.containers import ObjectStore
    from numbers_parser.generated import TSPArchiveMessages_pb2 as TSPA
    from numbers_parser.generated import TSTArchives_pb2 as TST
    from numbers_parser.iwafile import IWACompressedChunk, IWAFile, create_iwa_segment
    from numbers_parser.model import _NumbersModel
    rng = ctx.rng
    req, out = [], []
    for case in range(400 if ctx.quick else 6000):
        nfiles = rng.randrange(1, 7)
        names = ["Index/Metadata.iwa"] + rng.sample([n for n in NAMES if n != "Index/Metadata.iwa"], nfiles)
        rng.shuffle(names)
        st = ObjectStore.__new__(ObjectStore)
        st._objects, st._file_store, st._object_to_filename_map, st._dirty = {}, {}, {}, {}
        meta = TSPA.PackageMetadata(last_object_identifier=rng.randrange(1, 10**7))
        next_id = rng.choice([3, 50, 999990, 1000000, 2345678])
        files_desc = []
        for n in names:
            if not n.endswith(".iwa"):
                st._file_store[n] = b"blob"
                files_desc.append(f"{enc_text(n)} 0 0")
                continue
            ids = [2] if n == "Index/Metadata.iwa" else []
            for _ in range(rng.randrange(1, 3)):
                ids.append(next_id)
                next_id += rng.randrange(1, 9)
            segs = []
            for i in ids:
                seg = create_iwa_segment(i, TST.HeaderStorageBucket, {"bucketHashFunction": 1})
                segs.append(seg)
                st._objects[i] = meta if i == 2 else seg.objects[0]
                st._object_to_filename_map[i] = n
            st._file_store[n] = IWAFile([IWACompressedChunk(segs)])
            files_desc.append(f"{enc_text(n)} 1 {len(ids)} " + " ".join(map(str, ids)))
        comps_desc = []
        for n in names:
            if n.endswith(".iwa") and n != "Index/Metadata.iwa" and rng.random() < 0.8:
                loc = n[6:-4]
                import re
                pref = re.sub(r"\-\d+.*", "", loc)
                cid = st._file_store[n].chunks[0].archives[0].header.identifier
                meta.components.append(TSPA.ComponentInfo(identifier=cid, locator=loc, preferred_locator=pref))
                comps_desc.append(f"{cid} {enc_text(loc)} {enc_text(pref)} 0")
        last0 = meta.last_object_identifier
        ids0 = list(st._objects.keys())
        st._max_id = max(st._objects.keys())
        st._max_id = math.ceil(st._max_id / 1000000) * 1000000
        m = _NumbersModel.__new__(_NumbersModel)
        m.objects = st
        ops, outs = [], []
        created = []
        for _ in range(rng.randrange(1, 9)):
            r = rng.random()
            if r < 0.45:
                pat, app = rng.choice(PATTERNS), rng.random() < 0.2
                ops.append(f"C {enc_text(pat)} {int(app)}")
                # the property on the real store, independent of the model: the new archive goes to the first member (file-store order)
                # that is an IWA archive and whose name contains the pattern, else to a new member; the only failure is KeyError
                # (append, no such member) - never because of what a member that is not an IWA archive is called
                cands = [k for k, v in st._file_store.items() if isinstance(v, IWAFile) and pat in k]
                members0 = list(st._file_store)
                here = {"kind": "creation", "members": [[k, isinstance(v, IWAFile)] for k, v in st._file_store.items()],
                        "pattern": pat, "append": app}
                try:
                    nid, _ = st.create_object_from_dict(pat, {"bucketHashFunction": 1}, TST.HeaderStorageBucket, app)
                    outs.append(f"ok {nid}")
                    created.append(nid)
                    want = cands[0] if cands else pat.format(nid) + ".iwa"
                    holder = [k for k, v in st._file_store.items()
                              if isinstance(v, IWAFile) and any(a.header.identifier == nid for a in v.chunks[0].archives)]
                    if holder != [want] or st._object_to_filename_map.get(nid) != want or \
                            (cands and st._file_store[want].chunks[0].archives[-1].header.identifier != nid):
                        ctx.violation("created-object-not-in-first-iwa-member", f"create_object_from_dict({pat!r}) on members {members0}: object {nid} filed in "
                                      f"{holder} (map says {st._object_to_filename_map.get(nid)!r}), expected {want!r}", here)
                except Exception as e:  # noqa: BLE001
                    outs.append("err " + exc_name(e))
                    if not (isinstance(e, KeyError) and app and not cands):
                        ctx.violation("creation-raises-on-non-iwa-member" if isinstance(e, AttributeError) else "creation-raises",
                                      f"create_object_from_dict({pat!r}, append={app}) on members {members0} raised {exc_name(e)}: {e}", here)
            elif r < 0.7:
                # component identifiers stay pairwise distinct, as in every PackageMetadata (the model's stated assumption)
                used = {c.identifier for c in meta.components}
                cand = [c for c in created + [rng.randrange(100, 999)] if c not in used]
                if not cand:
                    continue
                oid = rng.choice(cand)
                par, loc = rng.choice(PARENTS), rng.choice(LOCATORS[:4] + LOCATORS[5:])
                ops.append(f"M {oid} {enc_text(par)} {enc_text(loc)}")
                try:
                    m.add_component_metadata(oid, par, loc)
                    outs.append("ok -")
                except Exception as e:  # noqa: BLE001
                    outs.append("err " + exc_name(e))
            else:
                loc, par = rng.choice(LOCATORS[:4]), rng.choice(PARENTS[:2] + PARENTS)
                ops.append(f"L {enc_text(loc)} {enc_text(par)}")
                try:
                    nid, _ = st.create_object_from_dict("Index/" + loc, {"bucketHashFunction": 1}, TST.HeaderStorageBucket)
                    created.append(nid)
                    m.add_component_metadata(nid, par, loc)
                    outs.append(f"ok {nid}")
                except Exception as e:  # noqa: BLE001
                    outs.append("err " + exc_name(e))
        files_out = []
        for n, f in st._file_store.items():
            files_out.append(enc_text(n) + "=" + ("B" if not isinstance(f, IWAFile) else "+".join(str(a.header.identifier) for a in f.chunks[0].archives) or "-"))
        comps_out = [f"{c.identifier}/{enc_text(c.locator)}/{enc_text(c.preferred_locator)}/" +
                     ("+".join(f"{e.component_identifier}:{e.object_identifier}:{int(bool(e.is_weak))}" for e in c.external_references) or "-")
                     for c in meta.components]
        keys = list(st._objects.keys())
        req.append(f"ostore hist {last0} {len(ids0)} " + " ".join(map(str, ids0)) + f" {len(files_desc)} " + " ".join(files_desc) +
                   f" {len(comps_desc)} " + " ".join(comps_desc) + " " + " ".join(ops))
        out.append(";".join(outs) + f" | max={st._max_id} last={meta.last_object_identifier} ids={'+'.join(map(str, keys))} "
                   f"files={' '.join(files_out)} comps={' '.join(comps_out)}")
        # the property on the real store: new identifiers distinct, not among the loaded ones, not above the recorded mark
        if len(set(created)) != len(created) or set(created) & set(ids0) or any(c > meta.last_object_identifier for c in created):
            ctx.violation("created-identifier-not-fresh-or-above-mark", f"loaded {ids0}, created {created}, last_object_identifier {meta.last_object_identifier}",
                          {"kind": "creation", "request": req[-1]})
    ctx.correspond("create_object_from_dict / add_component_metadata sequences on a real ObjectStore", req, out, keep=1)


class _StubCell:
    def __init__(self, b):
        self.b = b

    def _to_buffer(self):
        return self.b


def check_row_info(ctx: Ctx):
    from numbers_parser.model import _NumbersModel, get_storage_buffers_for_row
    rng = ctx.rng
    m = _NumbersModel.__new__(_NumbersModel)
    req, out = [], []
    for case in range(600 if ctx.quick else 8000):
        n = rng.randrange(1, 10)
        big = case % 150 == 149
        cells = []
        for _ in range(n if not big else 130):
            x = rng.random()
            if x < 0.3:
                cells.append(None)
            elif big:
                cells.append(bytes(1200))
            else:
                ln = 4 * rng.randrange(3, 20) if rng.random() < 0.9 else rng.randrange(1, 40)
                cells.append(bytes(rng.randrange(256) for _ in range(ln)))
        data = [[_StubCell(None)] * len(cells), [_StubCell(c) for c in cells]]
        try:
            ri = m.recalculate_row_info(1, data, 0, 1)
            o = f"ok {enc_bytes(ri.cell_storage_buffer)} {enc_bytes(ri.cell_offsets)} {ri.cell_count}"
            if all(c is None or len(c) % 4 == 0 for c in cells):
                back = get_storage_buffers_for_row(ri.cell_storage_buffer, ri.cell_offsets, len(cells), ri.has_wide_offsets)
                if [None if b is None else bytes(b) for b in back] != cells or ri.cell_count != sum(c is not None for c in cells):
                    ctx.violation("row-info-does-not-decode-to-its-records", f"cells {[None if c is None else c.hex() for c in cells][:6]}… read back differently",
                                  {"kind": "rowinfo", "cells": [None if c is None else c.hex() for c in cells]})
        except Exception as e:  # noqa: BLE001
            o = "err " + exc_name(e)
        req.append(f"ostore rowinfo {len(cells)} " + " ".join("N" if c is None else enc_bytes(c) for c in cells))
        out.append(o)
    ctx.correspond("recalculate_row_info (real method, stub cells)", req, out, keep=1)


def _tiles_worker(task):
    L._quiet()
    seed, n = task
    sub = Ctx(PID, "quick", seed)
    from numbers_parser import Document
    d = tempfile.mkdtemp(prefix="c07-")
    try:
        doc = Document(num_rows=max(n, 1), num_cols=1)
        t = doc.sheets[0].tables[0]
        if n == 0:
            return common.sub_result(sub, None)
        t.write(n - 1, 0, "z")
        p = os.path.join(d, "t.numbers")
        doc.save(p)
        pp = L.Package.load(p).parsed()
        tm = pp.objects[t._table_id]
        ts = tm.base_data_store.tiles.tile_size
        geo = []
        for tr in tm.base_data_store.tiles.tiles:
            tile = pp.objects[tr.tile.identifier]
            idx = [r.tile_row_index for r in tile.rowInfos]
            geo.append(f"{tr.tileid}:{tr.tileid * ts}:{tile.numrows}" + ("" if idx == list(range(len(idx))) and len(idx) == tile.numrows else "!"))
        return common.sub_result(sub, (f"ostore tiles 0 {n}", " ".join(geo) or "-"))
    finally:
        shutil.rmtree(d, ignore_errors=True)


def check_tiles(ctx: Ctx):
    ns = [1, 2, 12, 255, 256, 257, 300, 511, 512, 513, 768, 1024, 1025] if ctx.quick else \
        sorted(set(list(range(1, 40)) + list(range(250, 262)) + list(range(505, 520)) + [767, 768, 769, 1023, 1024, 1025, 2048, 2049, 4096, 5000]))
    res = common.run_parallel(ctx, _tiles_worker, [(ctx.seed, n) for n in ns])
    req = [r[0] for r in res if r]
    out = [r[1] for r in res if r]
    ctx.correspond("tiles written by recalculate_table_data for tables of n rows (saved and decoded)", req, out, exhaustive=False, keep=2)


# ---------------------------------------------------------------------------------------------
# validator runs
# ---------------------------------------------------------------------------------------------
WORDS = ["alpha", "beta", "", "日本語", "x" * 30, "a\nb", "beta", "gamma"]


def rand_value(r: random.Random):
    x = r.random()
    if x < 0.3:
        return r.choice(WORDS)
    if x < 0.5:
        return r.randrange(-10**6, 10**6)
    if x < 0.6:
        return r.random() * 1000
    if x < 0.7:
        return r.random() < 0.5
    if x < 0.8:
        return dt.datetime(2000 + r.randrange(30), 1 + r.randrange(12), 1 + r.randrange(28))
    if x < 0.9:
        return dt.timedelta(seconds=r.randrange(10**6))
    return "z"


def run_history(src: str | None, seed: int, nops: int, shape=None):
    """Returns (doc, log, fresh) after applying a seeded edit history; `fresh` = tables created here and never resized."""
    from numbers_parser import RGB, Border, Document
    r = random.Random(seed)
    log = []
    fresh = {}
    if src:
        doc = Document(src)
    elif shape and shape[2] == "new":
        doc = Document(num_rows=shape[0], num_cols=shape[1])
        log.append(["new", shape[0], shape[1]])
    else:
        doc = Document()
    if shape and not src:
        if shape[2] == "add_table":
            t0 = doc.sheets[0].add_table("Added", num_rows=shape[0], num_cols=shape[1])
            fresh[t0._table_id] = (shape[0], shape[1])
        elif shape[2] == "add_sheet":
            doc.add_sheet("Added", "T", num_rows=shape[0], num_cols=shape[1])
            t0 = doc.sheets[-1].tables[0]
            fresh[t0._table_id] = (shape[0], shape[1])
        else:
            t0 = doc.sheets[0].tables[0]
        log.append([shape[2], shape[0], shape[1]])
        t0.write(shape[0] - 1, shape[1] - 1, "corner")
        t0.write(0, 0, 1)

    def tables():
        return [t for s in doc.sheets for t in s.tables]

    def attempt(name, f, *a):
        try:
            f()
            log.append([name, *a, "ok"])
            return True
        except Exception as e:  # noqa: BLE001  invalid arguments etc.: the API said no, nothing to validate
            log.append([name, *a, exc_name(e)])
            return False
    styles, formats = [], []
    for k in range(nops):
        usable = [t for t in tables() if t.num_rows > 0 and t.num_cols > 0]
        if not usable:
            break
        t = r.choice(usable)
        x = r.random()
        rr, cc = r.randrange(t.num_rows), r.randrange(t.num_cols)
        if x < 0.30:
            v = rand_value(r)
            attempt("write", lambda: t.write(rr, cc, v), rr, cc, repr(v))
        elif x < 0.36 and len(doc.sheets) < 4:
            nr, nc = r.choice(BOUNDARY_SHAPES + [(3, 3), (5, 2), (12, 8)])
            if attempt("add_sheet", lambda: doc.add_sheet(None, "T", num_rows=nr, num_cols=nc), nr, nc):
                nt = doc.sheets[-1].tables[0]
                fresh[nt._table_id] = (nr, nc)
        elif x < 0.46 and len(tables()) < 6:
            nr, nc = r.choice(BOUNDARY_SHAPES + [(3, 3), (4, 7), (20, 2)])
            s = r.choice([s for s in doc.sheets])
            if attempt("add_table", lambda: s.add_table(None, num_rows=nr, num_cols=nc), nr, nc):
                nt = s.tables[len(s.tables) - 1]
                fresh[nt._table_id] = (nr, nc)
        elif x < 0.52:
            n_ = r.choice([1, 1, 2, 256])
            if attempt("add_row", lambda: t.add_row(n_, r.choice([None, rr])), n_):
                fresh.pop(t._table_id, None)
        elif x < 0.56:
            if attempt("add_column", lambda: t.add_column(r.choice([1, 2]), r.choice([None, cc]))):
                fresh.pop(t._table_id, None)
        elif x < 0.61:
            nd = r.choice([1, 1, 3])
            if t.num_rows - nd < 1:
                continue
            if attempt("delete_row", lambda: t.delete_row(nd, r.choice([None, rr]))):
                fresh.pop(t._table_id, None)
        elif x < 0.64:
            if t.num_cols < 2:
                continue
            if attempt("delete_column", lambda: t.delete_column(1, r.choice([None, cc]))):
                fresh.pop(t._table_id, None)
        elif x < 0.70:
            r2, c2 = min(t.num_rows - 1, rr + r.randrange(0, 3)), min(t.num_cols - 1, cc + r.randrange(0, 3))
            from numbers_parser import xl_range
            attempt("merge", lambda: t.merge_cells(xl_range(rr, cc, r2, c2)), rr, cc, r2, c2)
        elif x < 0.77:
            def mk():
                st = doc.add_style(name=f"S{seed % 1000}-{k}", bold=r.random() < 0.5, font_size=float(r.randrange(8, 30)),
                                   bg_color=RGB(r.randrange(256), r.randrange(256), r.randrange(256)))
                styles.append(st)
                t.write(rr, cc, "styled", style=st)
            attempt("style", mk)
        elif x < 0.82 and styles:
            attempt("set_style", lambda: t.set_cell_style(rr, cc, r.choice(styles)))
        elif x < 0.88:
            def mkf():
                cf = doc.add_custom_format(name=f"F{seed % 1000}-{k}", type="number", integer_format=0, num_integers=r.randrange(1, 5))
                formats.append(cf)
                t.write(rr, cc, 12.5)
                t.set_cell_formatting(rr, cc, "custom", format=cf)
            attempt("custom_format", mkf)
        elif x < 0.92:
            def fm():
                t.write(rr, cc, 3.25)
                t.set_cell_formatting(rr, cc, "number", decimal_places=r.randrange(0, 4))
            attempt("number_format", fm)
        elif x < 0.96:
            attempt("border", lambda: t.set_cell_border(rr, cc, r.choice(["top", "left", "right", "bottom"]),
                                                      Border(float(r.randrange(1, 4)), RGB(0, 0, 0), r.choice(["solid", "dashes", "dots"]))))
        else:
            def cap():
                t.caption = "caption " + str(k)
                t.caption_enabled = True
                t.name = f"Renamed {k}"
            attempt("caption", cap)
    return doc, log, fresh


# ---------------------------------------------------------------------------------------------
# object graph: the recorded history of a real session through the model, and the closure oracle
# ---------------------------------------------------------------------------------------------
_MODEL_OK = [True]
_QUICK = [True]
GRAPH_SUBSPACE = "object-graph history of a real edit+save session: model's final state vs decoded saved package"


def _only(a: list, b: list) -> list:
    from collections import Counter
    return sorted((Counter(a) - Counter(b)).elements())


def graph_check(sub: Ctx, rec, facts, where: dict, label: str) -> dict:
    """`rec`: the recorder attached to the document's store; `facts`: the decoded saved package.
    Returns the compact correspondence result (the model is run here, in the worker)."""
    rec.flush()
    tag = f" [{label}]"
    hist = {"history_tail": rec.history_json(30), "recorded_ops": len(rec.ops)}
    # -- the property on the real session (independent of the Lean model) -----------------------
    for b in rec.bad_targets:   # TargetsExist on the real history
        if b["target"] == 0:
            sub.violation("null-reference-identifier-zero", f"object {b['object']} ({b['object_type']}) is given a TSP.Reference with identifier 0 "
                          f"at {b['site']}: no such object exists (TargetsExist fails at op {b['op_index']})" + tag, {**where, **hist, "bad_target": b})
        else:
            sub.violation("reference-to-missing-object", f"object {b['object']} ({b['object_type']}) is given a reference to {b['target']} at {b['site']}, "
                          f"but no object {b['target']} exists at that moment (TargetsExist fails at op {b['op_index']} of the recorded history)" + tag,
                          {**where, **hist, "bad_target": b})
    for i, name in rec.unlisted_new_files():
        sub.violation("created-file-without-component-entry", f"object {i} was created in the new archive file {name} and no add_component_metadata "
                      f"call for it followed" + tag, {**where, **hist, "object": i, "file": name})
    for i, name, taken in rec.new_files:
        if taken:
            sub.violation("created-file-replaces-existing-member", f"create_object_from_dict stored object {i} as new file {name}, replacing the member of that name" + tag,
                          {**where, **hist, "object": i, "file": name})
    if not rec.filed():
        sub.violation("stored-object-not-filed", "an object of the store has no archive in the file its file-name map names (update_object_file_store cannot reach it)" + tag,
                      {**where, **hist})
    # header object_references of every archive the session created or changed = the references of its message
    load_refs, load_ids = rec.load["refs"], set(rec.load["ids"])
    kept = []
    for n, f in facts.pp.files.items():
        for a in f.chunks[0].archives:
            i = a.header.identifier
            if not a.header.message_infos:
                continue
            m = sorted(V.all_references(a.objects[0]))
            h = sorted(a.header.message_infos[0].object_references)
            if i in load_ids and m == sorted(load_refs.get(i, [])):
                continue   # not rewritten with different references
            if not m and h and set(h) <= rec.ever.get(i, set()):
                # the proviso of header_refs_exact, as the code computes it (`if len(references) > 0`): the message lost its last
                # reference and the header keeps the list of an earlier moment; every entry once was a reference of this object
                kept.append({"object": i, "type": type(a.objects[0]).__name__, "header_keeps": sorted(set(h))[:6]})
                continue
            if h != m:
                sub.violation("header-object-references-differ-from-message", f"archive {i} ({type(a.objects[0]).__name__}, {'from source' if i in load_ids else 'new'}) in {n}: "
                              f"{len(m)} references in the message, {len(h)} in the header; only in the message {_only(m, h)[:6]}, only in the header {_only(h, m)[:6]}" + tag,
                              {**where, **hist, "object": i, "message": m[:40], "header": h[:40]})
    # -- correspondence: the same history through the Lean model -------------------------------
    req = rec.request()
    t = int(not rec.bad_targets)
    t0 = int(all(b["target"] == 0 for b in rec.bad_targets))
    impl = f"{rec.results()} | filed={int(rec.filed_at_load)}/{int(rec.filed())} targets={t}/{t0} | {G.saved_state(facts)}"
    out = {"cases": 1, "ops": len(rec.ops), "objects": len(rec.load["ids"]), "unwrapped": rec.unwrapped[:5], "disagreement": None,
           "header_kept": [{**k, "source": where.get("source"), "history": where.get("history")} for k in kept[:2]]}
    if not _MODEL_OK[0]:
        return out
    try:
        model = common.run_model([req])[0]
    except Exception as e:  # noqa: BLE001
        model = f"driver failed: {e}"[:200]
    if model != impl:
        a, b = impl.split(" "), model.split(" ")
        diff = [(x[:160], y[:160]) for x, y in zip(a, b) if x != y][:6]
        if len(a) != len(b):
            diff.append((f"{len(a)} words", f"{len(b)} words"))
        short = "ostore ghist <load state: %d objects> " % len(rec.load["ids"]) + " ".join(str(x) for op in rec.ops[-40:] for x in op[:-2 if op[0] in "AX" else None])
        out["disagreement"] = {"subspace": GRAPH_SUBSPACE, "request": short[:3000], "where": where, "label": label,
                               "impl": " || ".join(d[0] for d in diff), "model": " || ".join(d[1] for d in diff)}
    return out


def _history_worker(task):
    L._quiet()
    seed, hid, src, nops, shape, package, twice = task
    sub = Ctx(PID, "quick", seed * 1_000_003 + hid)
    where = {"kind": "history", "seed": seed, "history": hid, "source": os.path.basename(src) if src else None, "ops": nops,
             "shape": shape, "package": package, "twice": twice}
    d = tempfile.mkdtemp(prefix="c07-")
    stats = {"saved": 0, "save_raises": None}
    try:
        if src:
            try:
                from numbers_parser import Document
                Document(src)
            except Exception:  # noqa: BLE001  unreadable fixture: outside the quantifier
                return common.sub_result(sub, stats)
        source = V.Facts(src if src else _template())
        with G.recording():
            doc, log, fresh = run_history(src, seed * 7919 + hid, nops, shape)
        rec = G.rec_of(doc._model.objects)
        if _QUICK[0] and src and nops == 0 and hid % 2:   # quick tier: the object graph of every second plain re-save
            rec = None
            doc._model.objects._verif_rec = None
        stats["graph"] = []
        p1 = os.path.join(d, "one.numbers")
        try:
            doc.save(p1, package=package)
        except Exception as e:  # noqa: BLE001  no package was produced: not a C07 matter, recorded
            stats["save_raises"] = f"{os.path.basename(src) if src else 'new'}: {exc_name(e)}: {e}"[:160]
            return common.sub_result(sub, stats)
        issues, f1 = V.validate(p1, source, fresh_tables=fresh)
        stats["saved"] += 1
        if f1 is not None and rec is not None:
            stats["graph"].append(graph_check(sub, rec, f1, where, "first save"))
        sub.count("validator: saved packages", 1)
        sub.mark(("pkg", hid, seed, src))
        for sig, what, det in issues:
            sub.violation(sig, what + f" [{'re-save of ' + os.path.basename(src) if src else 'new document'}, {len(log)} edits]",
                          {**where, "log": log[-12:], "detail": det})
        if twice and f1 is not None:
            # the same Document object saved again (tile objects accumulate), and the saved file reopened, edited, saved
            p2 = os.path.join(d, "two.numbers")
            doc.save(p2)
            issues, f2 = V.validate(p2, source, fresh_tables=fresh)
            sub.count("validator: saved packages", 1)
            for sig, what, det in issues:
                sub.violation(sig, what + " [second save of the same Document]", {**where, "log": log[-12:], "detail": det, "second_save": True})
            if f2 is not None:
                stats["tiles_after_first_and_second_save"] = (len(f1.pp.of_type("Tile")), len(f2.pp.of_type("Tile")))
                if rec is not None:
                    stats["graph"].append(graph_check(sub, rec, f2, {**where, "second_save": True}, "second save of the same Document"))
            with G.recording():
                doc3, log3, fresh3 = run_history(p1, seed * 104729 + hid, 4)
            rec3 = G.rec_of(doc3._model.objects)
            p3 = os.path.join(d, "three.numbers")
            try:
                doc3.save(p3)
                issues, f3 = V.validate(p3, f1, fresh_tables=fresh3)
                if f3 is not None and rec3 is not None:
                    stats["graph"].append(graph_check(sub, rec3, f3, {**where, "reopened": True}, "saved file reopened, edited, saved"))
                sub.count("validator: saved packages", 1)
                for sig, what, det in issues:
                    sub.violation(sig, what + " [saved file reopened, edited, saved]", {**where, "log": log[-12:] + log3, "detail": det, "reopened": True})
            except Exception as e:  # noqa: BLE001
                failed = [l for l in log + log3 if l[-1] != "ok"]
                stats["save_raises"] = (f"history {hid} (seed {seed}) reopened+edited: {exc_name(e)}: {e}"[:160] + f" | refused edits: {failed[-3:]}")
        return common.sub_result(sub, stats)
    finally:
        shutil.rmtree(d, ignore_errors=True)


def _template():
    from numbers_parser.constants import DEFAULT_DOCUMENT
    return str(DEFAULT_DOCUMENT)


def check_packages(ctx: Ctx):
    data = REPO / "tests/data"
    fixtures = [str(p) for p in sorted(data.glob("*.numbers")) if not (ctx.quick and p.stem in SLOW_QUICK)]
    tasks = []
    hid = 0
    for p in fixtures:  # plain re-save
        tasks.append((ctx.seed, hid, p, 0, None, hid % 5 == 0, hid % 3 == 0))
        hid += 1
    for k, shape in enumerate(BOUNDARY_SHAPES):  # tables across tile boundaries, through each way of creating a table
        for via in (("new", "add_table", "add_sheet") if not ctx.quick or k < 4 else (("new", "add_table", "add_sheet")[k % 3],)):
            tasks.append((ctx.seed, hid, None, 0 if via != "new" else 3, (*shape, via), False, k % 2 == 0))
            hid += 1
    nhist = 60 if ctx.quick else 900
    edit_srcs = [None, None, None] + [str(data / n) for n in ("test-1.numbers", "test-formats.numbers", "issue-66-collab.numbers",
                                                                "test-styles.numbers", "test-7.numbers") if (data / n).exists()]
    for k in range(nhist):
        tasks.append((ctx.seed, hid, edit_srcs[k % len(edit_srcs)], ctx.rng.randrange(3, 25), None, k % 7 == 0, k % 4 == 0))
        hid += 1
    random.Random(ctx.seed).shuffle(tasks)
    _MODEL_OK[0] = ctx.model_available
    _QUICK[0] = ctx.quick
    res = common.run_parallel(ctx, _history_worker, tasks)
    graphs = [g for r in res if r for g in r.get("graph", [])]
    subsp = ctx.subspaces.setdefault(GRAPH_SUBSPACE, {"cases": 0, "exhaustive": False, "disagreements": 0})
    subsp["cases"] += len(graphs)
    subsp["recorded_operations"] = sum(g["ops"] for g in graphs)
    ctx.evaluations += len(graphs)
    for g in graphs:
        if g["disagreement"]:
            subsp["disagreements"] += 1
            if len(ctx.disagreements) < 50:
                ctx.disagreements.append(g["disagreement"])
        for u in g["unwrapped"]:
            ctx.notes.append("object-graph recorder: " + u)
    if not ctx.model_available:
        subsp["skipped_model"] = True
    kept = [k for g in graphs for k in g["header_kept"]]
    ctx.extra["object_graph"] = {
        "sessions": len(graphs), "recorded_operations": subsp["recorded_operations"],
        "header_list_kept_after_last_reference_removed": {"count": len(kept), "examples": kept[:4],
            "note": "copy_object_to_iwa_file rewrites a header's object_references only `if len(references) > 0`: an object whose message lost "
                    "all references keeps the list of an earlier moment (the entries still resolve; closure is not affected) - the proviso "
                    "of header_refs_exact, seen on real sessions"}}
    raises = sorted({r["save_raises"] for r in res if r and r.get("save_raises")})
    acc = [r["tiles_after_first_and_second_save"] for r in res if r and r.get("tiles_after_first_and_second_save")]
    ctx.extra["validator"] = {"label": "implementation-level exploration (structural validator), not a proof",
                              "histories": len(tasks), "save_raised_no_package": raises[:8],
                              "tile_objects_first_vs_second_save": acc[:6],
                              "note": "tile objects of earlier saves stay in the package as unreferenced, listed components (growth, not a dangling structure)"}
    for r in raises[:4]:
        ctx.notes.append("save raised (no package produced, outside C07): " + r)


def run(ctx: Ctx):
    L._quiet()
    check_rounding(ctx)
    check_creation(ctx)
    check_row_info(ctx)
    check_tiles(ctx)
    check_packages(ctx)


def replay(data):
    L._quiet()
    i = data["input"]
    if i.get("kind") == "history":
        src = str(REPO / "tests/data" / i["source"]) if i.get("source") else None
        d = tempfile.mkdtemp(prefix="c07-")
        try:
            source = V.Facts(src if src else _template())
            with G.recording():
                doc, log, fresh = run_history(src, i["seed"] * 7919 + i["history"], i["ops"], tuple(i["shape"]) if i.get("shape") else None)
            rec = G.rec_of(doc._model.objects)
            p1 = os.path.join(d, "one.numbers")
            doc.save(p1, package=i.get("package", False))
            issues, f1 = V.validate(p1, source, fresh_tables=fresh)
            out = {"first_save": [(s, w) for s, w, _ in issues]}
            if rec is not None and f1 is not None:
                sub = Ctx(PID, "quick", 0)
                g = graph_check(sub, rec, f1, {"kind": "history"}, "first save")
                out["object_graph"] = {"recorded_ops": len(rec.ops), "TargetsExist_failures": rec.bad_targets[:5],
                                       "oracle": [(v["signature"], v["what"]) for v in sub.violations], "model_disagreement": g["disagreement"],
                                       "history_tail": rec.history_json(40)}
            if i.get("second_save"):
                p2 = os.path.join(d, "two.numbers")
                doc.save(p2)
                issues, _ = V.validate(p2, source, fresh_tables=fresh)
                out["second_save"] = [(s, w) for s, w, _ in issues]
            return {"log": log, **out}
        finally:
            shutil.rmtree(d, ignore_errors=True)
    if i.get("kind") == "creation" and "members" in i:
        # a file store with these members (name, is-IWA) in this order; one create_object_from_dict call
        from numbers_parser.containers import ObjectStore
        from numbers_parser.generated import TSPArchiveMessages_pb2 as TSPA
        from numbers_parser.generated import TSTArchives_pb2 as TST
        from numbers_parser.iwafile import IWACompressedChunk, IWAFile, create_iwa_segment
        st = ObjectStore.__new__(ObjectStore)
        st._objects, st._file_store, st._object_to_filename_map, st._dirty = {2: TSPA.PackageMetadata(last_object_identifier=1)}, {}, {}, {}
        for k, (name, is_iwa) in enumerate(i["members"]):
            if is_iwa:
                seg = create_iwa_segment(10 + k, TST.HeaderStorageBucket, {"bucketHashFunction": 1})
                st._objects[10 + k] = seg.objects[0]
                st._object_to_filename_map[10 + k] = name
                st._file_store[name] = IWAFile([IWACompressedChunk([seg])])
            else:
                st._file_store[name] = b"blob"
        st._max_id = 1000000
        try:
            nid, _ = st.create_object_from_dict(i["pattern"], {"bucketHashFunction": 1}, TST.HeaderStorageBucket, i.get("append", False))
            return {"result": f"ok {nid}", "filed_in": st._object_to_filename_map.get(nid),
                    "members": {k: ([a.header.identifier for a in v.chunks[0].archives] if isinstance(v, IWAFile) else "blob")
                                for k, v in st._file_store.items()}}
        except Exception as e:  # noqa: BLE001
            return {"result": "err " + exc_name(e), "message": str(e)}
    return {"input": i, "note": "replay by re-running the protocol line through the implementation adapter"}
