"""C06 — what is read does not depend on meaning-preserving choices of file layout."""
from __future__ import annotations

import os
import random
import shutil
import struct
import tempfile
import types

import common
import layouts as L
from common import REPO, Ctx, enc_bytes, enc_text, exc_name

PID = "C06"
PROPS_MODULE = "NumbersModel.Props.C06"
THEOREMS = [f"NumbersModel.Props.C06.{t}" for t in (
    "lookup_finds_key", "lookup_absent_key", "lookup_perm_invariant", "table_string_never_degrades",
    "table_string_perm_invariant", "key_index_points_to_entry", "next_key_fresh", "next_key_perm_invariant",
    "row_at_declared_index", "row_without_record_is_empty", "header_records_irrelevant",
    "narrow_wide_agree", "unpack_pack", "store_order_irrelevant",
    # Model/DocTree.lean: table order inside a sheet / names of the whole document do not follow the store's iteration order
    "table_order_within_a_sheet", "names_independent_of_store_order")]
PARTIAL = {
    "whole_document_layout_independence": "that a whole Document reads the same from two layouts is not a theorem: zipfile, the file "
        "system, snappy and protobuf sit between the file and the modelled mechanisms; it is checked by the metamorphic runs "
        "(implementation level, exploration). Chunk boundaries are C05's chunking_independent.",
}
RULE = ("correspondence: seeded lookup lists (1..12 entries, keys distinct or repeated, any order) through the real DataLists.add_table / "
        "lookup_value / lookup_key / table_string; every offsets list of length <= 3 over 6 values x 0..4 columns x both encodings "
        "(exhaustive) and seeded rows through get_storage_buffers_for_row; seeded tile/row-info/header layouts through the real "
        "row_storage_map + storage_buffers + storage_buffer; seeded member/segment orders through IWork._store_blob into a real "
        "ObjectStore. Metamorphic: documents (fixtures + API-generated) x catalogue of layout transformations (layouts.py), full dump "
        "compared. Non-trivial = a distinct protocol line, or a (document, transformation) pair that actually changed the file")
ASSUMPTIONS = ["zipfile / os traversal, snappy and protobuf parse∘serialise = id are exercised, not proved",
               "array('h') is little-endian on this host (as on every platform the library supports for Numbers files)",
               "value_key (repr of a protobuf message, or the value) is injective on the values used"]
MANIFEST = {
    "text": "Core proved, glue assumed: lookup_finds_key / lookup_absent_key / lookup_perm_invariant / table_string_never_degrades "
            "(a lookup finds the entry carrying the key wherever it sits; '' only for an absent key), key_index_points_to_entry, "
            "next_key_fresh/_perm_invariant, row_at_declared_index + row_without_record_is_empty + header_records_irrelevant (every "
            "stored row record is read at tileid*tile_size+tile_row_index, header records play no role), narrow_wide_agree + "
            "unpack_pack, store_order_irrelevant (any member order gives the same object map, owning files, id set and _max_id) are "
            "Lean theorems over unbounded lists about a model of DataLists, row_storage_map/storage_buffers/storage_buffer, "
            "get_storage_buffers_for_row and ObjectStore.store_object, tied to the code by differential correspondence. That whole "
            "documents read identically from rewritten files is checked metamorphically on the implementation (exploration).",
    "note": "zipfile, file system, snappy, protobuf are outside the model. Table order inside a sheet used to derive from the store's "
            "iteration order (= order of the archives inside Index/CalculationEngine.iwa): found by rewriting a saved document with the "
            "archives of every member reversed (3 tables read back in reverse order), repaired by fixes/C06-table-order-from-drawable-list.patch; "
            "table_order_within_a_sheet / names_independent_of_store_order are the theorems about the repaired table_ids (Model/DocTree.lean), "
            "tied by the document-tree stream of checks/c19.py (archive / member reorderings of saved documents).",
    "technique": "Lean 4 proof (fold/permutation lemmas over association lists) + differential correspondence + metamorphic file rewriting",
}

# fixtures whose dump alone takes > 0.7 s are left to the thorough tier
EXPECT_UNREADABLE = {"badindexzip", "badindexzip2", "badzipfile", "corrupted-zip", "corrupted", "invalid-index-zip", "invalid-missing",
                     "invalid-props", "invalid", "issue-50", "pre-bnc", "test-issue-93"}
SLOW_QUICK = {"duration_112", "custom-format-stress", "issue-67", "date_formats", "test-6"}


# ---------------------------------------------------------------------------------------------
# stubs around the real classes
# ---------------------------------------------------------------------------------------------
def _pb():
    from numbers_parser.generated import TSPMessages_pb2 as TSP
    from numbers_parser.generated import TSTArchives_pb2 as TST
    return TST, TSP


def make_datalists(entries, kind="string", nlid=1):
    """A real DataLists over a real TST.TableDataList; entries = [(key, refcount, value id)]."""
    from numbers_parser.model import DataLists
    TST, TSP = _pb()
    dl = TST.TableDataList(listType=1, nextListID=nlid)
    for k, rc, v in entries:
        if kind == "string":
            dl.entries.append(TST.TableDataList.ListEntry(key=k, refcount=rc, string=f"v{v}"))
        else:
            dl.entries.append(TST.TableDataList.ListEntry(key=k, refcount=rc, reference=TSP.Reference(identifier=v)))
    tm = TST.TableModelArchive()
    if kind == "string":
        tm.base_data_store.stringTable.identifier = 2
        d = DataLists(types.SimpleNamespace(objects={1: tm, 2: dl}), "stringTable", "string")
    else:
        tm.base_data_store.styleTable.identifier = 2
        d = DataLists(types.SimpleNamespace(objects={1: tm, 2: dl}), "styleTable", "reference")
    return d, dl


def _val_id(kind, x):
    if kind == "string":
        s = x.string if hasattr(x, "string") else x
        return int(s[1:])
    if hasattr(x, "reference"):
        return x.reference.identifier
    return int(str(x).split(":")[1].strip())  # repr(Reference) == 'identifier: N\n'


def show_pairs(items):
    items = list(items)
    return "-" if not items else ",".join(f"{a}:{b}" for a, b in items)


NO_INDEX = [0]   # cases whose internal index could not be looked at (a refactoring replaced it): oracle only


def index_line(d, kind):
    try:
        st = d._datalists[1]
    except Exception:  # noqa: BLE001
        st = None
    if not isinstance(st, dict) or not all(k in st for k in ("next_key", "by_key", "key_index", "by_value")):
        # the index is an internal structure: if a refactor replaced it, only the observable look-ups are compared
        return "internal-index-not-available"
    return (f"next={st['next_key']} bk={show_pairs((k, _val_id(kind, e)) for k, e in st['by_key'].items())} "
            f"ki={show_pairs(st['key_index'].items())} bv={show_pairs((_val_id(kind, v), k) for v, k in st['by_value'].items())}")


def gen_entries(rng: random.Random, allow_dups: bool):
    n = rng.randrange(0, 13)
    if allow_dups and rng.random() < 0.3:
        keys = [rng.randrange(1, 6) for _ in range(n)]
    else:
        keys = rng.sample(range(1, 40), n)
        m = rng.random()
        if m < 0.3:
            keys.sort()
        elif m < 0.4:
            keys.sort(reverse=True)
    vals = [rng.randrange(1, 50) for _ in range(n)] if rng.random() < 0.5 else rng.sample(range(1, 60), n)
    return [(k, rng.randrange(1, 4), v) for k, v in zip(keys, vals)]


def check_lookup_lists(ctx: Ctx):
    rng = ctx.rng
    n = 1500 if ctx.quick else 20000
    req, out = [], []
    for case in range(n):
        kind = "string" if case % 3 else "reference"
        entries = gen_entries(rng, allow_dups=True)
        keys = [k for k, _, _ in entries]
        qs = sorted(set(keys) | {rng.randrange(0, 45) for _ in range(3)} | {0})
        d, _ = make_datalists(entries, kind)
        res = []
        for q in qs:
            try:
                res.append(f"ok {_val_id(kind, d.lookup_value(1, q))}")
            except KeyError:
                res.append("err KeyError")
            except Exception as e:  # noqa: BLE001
                res.append("err " + exc_name(e))
        d.add_table(1)
        il = index_line(d, kind)
        if il != "internal-index-not-available":   # otherwise only the property oracle below looks at this case
            req.append(f"layout index 0 {len(entries)} " + " ".join(f"{k} {rc} {v}" for k, rc, v in entries) + " " + " ".join(map(str, qs)))
            out.append(il + " q=" + ";".join(res))
        else:
            NO_INDEX[0] += 1
        # ---- the property itself, on the real class: distinct keys => every entry is found under its key, in any order
        if len(set(keys)) == len(keys):
            want = {k: v for k, _, v in entries}
            for variant, perm in (("as stored", entries), ("reversed", entries[::-1]), ("shuffled", rng.sample(entries, len(entries)))):
                dd, _ = make_datalists(perm, kind)
                dd.add_table(1)
                for k, v in want.items():
                    try:
                        got = _val_id(kind, dd.lookup_value(1, k))
                    except KeyError:
                        got = None
                    if got != v:
                        ctx.violation("lookup-misses-entry-by-position",
                                      f"DataLists.lookup_value(key {k}) over entries {[(a, c) for a, _, c in perm]} ({variant}) gave "
                                      f"{'KeyError' if got is None else got}, the entry with that key carries value {v}",
                                      {"kind": "datalist", "entries": perm, "value_kind": kind, "key": k})
                        break
                try:   # (the key counter is internal state: looked at only while it has this shape)
                    nk = dd._datalists[1]["next_key"]
                except Exception:  # noqa: BLE001
                    nk = None
                if nk is not None and nk != (max(keys) + 1 if keys else 1):
                    ctx.violation("next-key-not-above-every-key", f"next_key {nk} for keys {keys}",
                                  {"kind": "datalist", "entries": perm, "value_kind": kind})
    ctx.correspond("DataLists.add_table + lookup_value (real class, stub model)", req, out, keep=2)

    # table_string with its KeyError -> '' fallback
    from numbers_parser.model import DataLists, _NumbersModel
    TST, _ = _pb()
    req, out = [], []
    for case in range(n // 3):
        entries = gen_entries(rng, allow_dups=False)
        texts = ["", "a", "é", "x y", "日本", "''", "v"]
        ent = [(k, rng.choice(texts) + str(v % 7)) if rng.random() < 0.9 else (k, "") for k, _, v in entries]
        m = _NumbersModel.__new__(_NumbersModel)
        dl = TST.TableDataList(listType=1, nextListID=1)
        for k, s in ent:
            dl.entries.append(TST.TableDataList.ListEntry(key=k, refcount=1, string=s))
        tm = TST.TableModelArchive()
        tm.base_data_store.stringTable.identifier = 2
        m.objects = {1: tm, 2: dl}
        m._table_strings = DataLists(m, "stringTable", "string")
        qs = sorted({k for k, _ in ent} | {0, rng.randrange(0, 45)})
        res = []
        for q in qs:
            try:
                s = m.table_string(1, q)
                res.append("ok " + enc_text(s))
                want = dict(ent).get(q)
                if want is not None and s != want:
                    ctx.violation("text-degrades-to-empty" if s == "" else "lookup-wrong-text",
                                  f"table_string(key {q}) over entries {ent} returned {s!r}; the entry with that key stores {want!r}",
                                  {"kind": "table_string", "entries": ent, "key": q})
            except Exception as e:  # noqa: BLE001
                res.append("err " + exc_name(e))
        req.append(f"layout tstr {len(ent)} " + " ".join(f"{k} {enc_text(s)}" for k, s in ent) + " " + " ".join(map(str, qs)))
        out.append(";".join(res))
    ctx.correspond("_NumbersModel.table_string (KeyError -> '' fallback)", req, out, keep=1)

    # lookup_key on loaded lists
    req, out = [], []
    for case in range(n // 3):
        kind = "string" if case % 2 else "reference"
        entries = gen_entries(rng, allow_dups=False)
        nlid = rng.randrange(1, 50)
        d, dl = make_datalists(entries, kind, nlid)
        vals = [rng.choice([v for _, _, v in entries] + [rng.randrange(1, 70)]) for _ in range(rng.randrange(1, 8))]
        res = []
        TST, TSP = _pb()
        for v in vals:
            try:
                k = d.lookup_key(1, f"v{v}" if kind == "string" else TSP.Reference(identifier=v))
                res.append(f"ok {k}")
                # property: the key handed out reads back the value
                back = _val_id(kind, d.lookup_value(1, k))
                if back != v:
                    ctx.violation("lookup-key-does-not-read-back", f"lookup_key({v}) = {k} but lookup_value({k}) = {back}; entries {entries}",
                                  {"kind": "lookup_key", "entries": entries, "value_kind": kind, "values": vals})
            except Exception as e:  # noqa: BLE001
                res.append("err " + exc_name(e))
        ents = ",".join(f"{e.key}:{e.refcount}:{_val_id(kind, e)}" for e in dl.entries) or "-"
        il = index_line(d, kind)
        if il != "internal-index-not-available":
            req.append(f"layout lkey {nlid} {len(entries)} " + " ".join(f"{k} {rc} {v}" for k, rc, v in entries) + " " + " ".join(map(str, vals)))
            out.append(";".join(res) + f" | {ents} nlid={dl.nextListID} " + il)
        else:
            NO_INDEX[0] += 1
    ctx.correspond("DataLists.lookup_key on loaded lists (refcounts, new keys)", req, out, keep=1)
    if NO_INDEX[0]:
        ctx.notes.append(f"{NO_INDEX[0]} DataLists cases without the model line: the internal index (next_key / by_key / key_index / "
                         "by_value) is not available in this tree; the look-ups were judged by the property oracle only")


# ---------------------------------------------------------------------------------------------
# rows
# ---------------------------------------------------------------------------------------------
def show_cells(cells):
    return "." if not cells else "|".join("N" if c is None else enc_bytes(bytes(c)) for c in cells)


def call_row(buf, offs, ncols, wide):
    from numbers_parser.model import get_storage_buffers_for_row
    try:
        return "ok " + show_cells(get_storage_buffers_for_row(buf, offs, ncols, wide))
    except Exception as e:  # noqa: BLE001
        return "err " + exc_name(e)


def encode_row(cells, wide: bool, rng: random.Random | None = None):
    """(buffer, offsets bytes) describing `cells` (None = absent); cells must be 4-byte multiples for wide."""
    buf, offs = b"", []
    for c in cells:
        if c is None:
            offs.append(-1 if rng is None or rng.random() < 0.8 else rng.choice([-2, -7, -32768]))
        else:
            offs.append(len(buf) // 4 if wide else len(buf))
            buf += c
    return buf, struct.pack(f"<{len(offs)}h", *offs)


def check_row_offsets(ctx: Ctx):
    import itertools
    rng = ctx.rng
    buf = bytes(range(1, 9))
    req, out = [], []
    for wide, alphabet in ((1, (-1, -3, 0, 1, 2, 3)), (0, (-1, -5, 0, 3, 4, 9))):
        for ln in range(4):
            for offs in itertools.product(alphabet, repeat=ln):
                ob = struct.pack(f"<{ln}h", *offs)
                for ncols in range(5):
                    req.append(f"layout row {enc_bytes(buf)} {enc_bytes(ob)} {ncols} {wide}")
                    out.append(call_row(buf, ob, ncols, bool(wide)))
    for ob in (b"\x00", b"\x00\x00\x01", b"\xff\xff\x00\x00\x04"):
        for wide in (0, 1):
            req.append(f"layout row {enc_bytes(buf)} {enc_bytes(ob)} 2 {wide}")
            out.append(call_row(buf, ob, 2, bool(wide)))
    ctx.correspond("get_storage_buffers_for_row: all offset lists of length <= 3 over 6 values x 0..4 columns x narrow/wide",
                   req, out, exhaustive=True, keep=2)
    req, out = [], []
    for case in range(1500 if ctx.quick else 30000):
        ncells = rng.randrange(0, 9)
        cells = [None if rng.random() < 0.35 else bytes(rng.randrange(256) for _ in range(4 * rng.randrange(0, 5))) for _ in range(ncells)]
        ncols = max(0, ncells + rng.choice([0, 0, 0, -1, 1, 3]))
        wbuf, woffs = encode_row(cells, True, rng)
        nbuf, noffs = encode_row(cells, False, rng)
        rw, rn = call_row(wbuf, woffs, ncols, True), call_row(nbuf, noffs, ncols, False)
        req += [f"layout row {enc_bytes(wbuf)} {enc_bytes(woffs)} {ncols} 1", f"layout row {enc_bytes(nbuf)} {enc_bytes(noffs)} {ncols} 0"]
        out += [rw, rn]
        want = "ok " + show_cells(cells[:ncols])
        for enc, got in (("wide", rw), ("narrow", rn)):
            if got != want:
                ctx.violation(f"row-decoding-{enc}-offsets", f"cells {show_cells(cells)} stored with {enc} offsets read as {got[3:]} ({ncols} columns)",
                              {"kind": "row", "cells": [None if c is None else c.hex() for c in cells], "ncols": ncols, "wide": enc == "wide"})
    ctx.correspond("get_storage_buffers_for_row: seeded rows, both encodings of the same cells", req, out, keep=1)


def build_table_stub(num_rows, num_cols, tile_size, tiles, headers):
    """tiles = [(tileid, [(tile_row_index, buf, offs, wide)])] -> a _NumbersModel whose objects are real protobuf messages."""
    from numbers_parser.model import _NumbersModel
    TST, TSP = _pb()
    m = _NumbersModel.__new__(_NumbersModel)
    tm = TST.TableModelArchive(number_of_rows=num_rows, number_of_columns=num_cols)
    tm.base_data_store.tiles.tile_size = tile_size
    objs = {1: tm}
    nid = 100
    for tileid, ris in tiles:
        t = TST.Tile(last_saved_in_BNC=True, numrows=len(ris))
        for tri, buf, offs, wide in ris:
            t.rowInfos.append(TST.TileRowInfo(tile_row_index=tri, cell_count=0, cell_storage_buffer=buf, cell_offsets=offs,
                                              has_wide_offsets=bool(wide)))
        objs[nid] = t
        ref = tm.base_data_store.tiles.tiles.add()
        ref.tileid = tileid
        ref.tile.identifier = nid
        nid += 1
    bucket = TST.HeaderStorageBucket(bucketHashFunction=1)
    for h in headers:
        bucket.headers.append(TST.HeaderStorageBucket.Header(index=h, numberOfCells=0, size=0.0, hidingState=0))
    objs[99] = bucket
    tm.base_data_store.rowHeaders.buckets.append(TSP.Reference(identifier=99))
    m.objects = objs
    return m


def check_row_mapping(ctx: Ctx):
    rng = ctx.rng
    req, out = [], []
    for case in range(800 if ctx.quick else 12000):
        tile_size = rng.choice([256, 256, 256, 0, 4, 7])
        ts = tile_size or 256
        ntiles = rng.randrange(1, 4)
        tileids = rng.sample(range(0, 4), ntiles)
        if rng.random() < 0.7:
            tileids.sort()
        num_cols = rng.randrange(1, 4)
        tiles, declared, payload = [], [], {}
        dup = rng.random() < 0.1
        for tid in tileids:
            k = rng.randrange(0, 5)
            idxs = rng.sample(range(0, min(ts, 9)), min(k, min(ts, 9)))
            if rng.random() < 0.8:
                idxs.sort()
            if dup and idxs:
                idxs.append(idxs[0])
            ris = []
            for tri in idxs:
                cells = [None if rng.random() < 0.3 else struct.pack("<I", rng.randrange(1 << 32)) for _ in range(num_cols)]
                wide = rng.random() < 0.6
                buf, offs = encode_row(cells, wide)
                if rng.random() < 0.03:
                    offs = offs + b"\x00"  # malformed offsets: ValueError from array('h')
                ris.append((tri, buf, offs, int(wide)))
                declared.append(tid * ts + tri)
                payload[tid * ts + tri] = cells
            tiles.append((tid, ris))
        num_rows = rng.choice([max(declared, default=0) + 1 + rng.randrange(0, 3), rng.randrange(1, 12)])
        # header records: every declared row, plus any subset of the other rows (the layout freedom of the property)
        others = [r for r in range(num_rows) if r not in set(declared)]
        headers = sorted(set(declared) | {r for r in others if rng.random() < 0.4})
        m = build_table_stub(num_rows, num_cols, tile_size, tiles, headers)
        qs = [(r, c) for r in sorted(set(list(range(min(num_rows, 14))) + declared + [num_rows, num_rows + 3])) for c in range(num_cols + 1)]
        res = []
        malformed = any(len(o) % 2 for _, ris in tiles for _, _, o, _ in ris)
        for r, c in qs:
            try:
                b = m.storage_buffer(1, r, c)
                res.append("ok " + ("N" if b is None else enc_bytes(bytes(b))))
                if not malformed and len(set(declared)) == len(declared) and c < num_cols:
                    want = payload[r][c] if r in payload else None
                    if (b if b is None else bytes(b)) != want:
                        first = "row-record-read-at-wrong-index"
                        ctx.violation(first, f"row {r} col {c}: read {'None' if b is None else bytes(b).hex()}, the record declaring row {r} "
                                      f"stores {'nothing' if want is None else want.hex()} (declared rows {declared}, header records {headers}, tile_size {tile_size})",
                                      {"kind": "rowmap", "num_rows": num_rows, "num_cols": num_cols, "tile_size": tile_size, "headers": headers,
                                       "tiles": [[t, [[a, b_.hex(), o.hex(), w] for a, b_, o, w in ris]] for t, ris in tiles], "row": r, "col": c})
            except Exception as e:  # noqa: BLE001
                res.append("err " + exc_name(e))
        line = f"layout rowmap {num_rows} {num_cols} {tile_size} {len(tiles)} "
        for tid, ris in tiles:
            line += f"{tid} {len(ris)} " + "".join(f"{a} {enc_bytes(b)} {enc_bytes(o)} {w} " for a, b, o, w in ris)
        req.append(line + "Q " + " ".join(f"{r} {c}" for r, c in qs))
        out.append(";".join(res))
    ctx.correspond("row_storage_map + storage_buffers + storage_buffer (real methods on protobuf stubs; any header subset)", req, out, keep=1)


# ---------------------------------------------------------------------------------------------
# object store
# ---------------------------------------------------------------------------------------------
def check_store(ctx: Ctx):
    from numbers_parser.containers import ObjectStore
    from numbers_parser.iwafile import IWACompressedChunk, IWAFile, create_iwa_segment
    from numbers_parser.iwork import IWork
    TST, _ = _pb()
    rng = ctx.rng
    req, out = [], []

    def fill(members):
        st = ObjectStore.__new__(ObjectStore)
        st._objects, st._object_to_filename_map, st._file_store = {}, {}, {}
        iw = IWork(handler=st)
        for name, segs in members:
            segments = [create_iwa_segment(i, TST.HeaderStorageBucket, {"bucketHashFunction": o}) for i, o in segs]
            iw._store_blob(name, IWAFile([IWACompressedChunk(segments)]).to_buffer())
        return st

    for case in range(300 if ctx.quick else 4000):
        nm = rng.randrange(0, 5)
        dup = rng.random() < 0.2
        pool = rng.sample(range(1, 60), 20)
        members, used = [], 0
        for k in range(nm):
            ns = rng.randrange(1, 4)
            segs = []
            for _ in range(ns):
                i = rng.choice(pool[:max(1, used)]) if dup and used and rng.random() < 0.4 else pool[used]
                used += 1
                segs.append((i, rng.randrange(1, 1000)))
            members.append((f"Index/M{k}.iwa", segs))
        if nm == 0:
            continue
        st = fill(members)
        mx = f"ok {max(st._objects.keys())}"
        req.append(f"layout store {len(members)} " + " ".join(f"{n} {len(s)} " + " ".join(f"{i} {o}" for i, o in s) for n, s in members))
        out.append(f"objects={show_pairs((i, o.bucketHashFunction) for i, o in st._objects.items())} files={show_pairs(st._object_to_filename_map.items())} max={mx}")
        ids = [i for _, s in members for i, _ in s]
        if len(set(ids)) == len(ids):
            sh = rng.sample(members, len(members))
            st2 = fill(sh)
            a = ({i: o.bucketHashFunction for i, o in st._objects.items()}, dict(st._object_to_filename_map))
            b = ({i: o.bucketHashFunction for i, o in st2._objects.items()}, dict(st2._object_to_filename_map))
            if a != b:
                ctx.violation("object-map-depends-on-member-order", f"members {members} vs {sh}: {a} != {b}", {"kind": "store", "members": members, "order": sh})
    ctx.correspond("IWork._store_blob -> ObjectStore.store_object over seeded member/segment orders", req, out, keep=1)


# ---------------------------------------------------------------------------------------------
# metamorphic runs on whole documents
# ---------------------------------------------------------------------------------------------
def generate_documents(directory: str, seed: int) -> list[str]:
    """API-generated documents saved by the library itself."""
    import datetime as dt
    import warnings
    warnings.simplefilter("ignore")
    from numbers_parser import Document
    rng = random.Random(seed * 7919 + 13)
    words = ["alpha", "beta", "gamma", "", "delta", "日本語", "é", "x" * 40, "a,b", "line\nbreak", "beta", "alpha"]
    paths = []

    def value(r):
        x = r.random()
        if x < 0.3:
            return r.choice(words)
        if x < 0.5:
            return r.randrange(-1000, 1000)
        if x < 0.6:
            return r.random() * 1e6
        if x < 0.7:
            return r.random() < 0.5
        if x < 0.8:
            return dt.datetime(2000 + r.randrange(30), 1 + r.randrange(12), 1 + r.randrange(28), r.randrange(24), r.randrange(60))
        if x < 0.88:
            return dt.timedelta(seconds=r.randrange(10**6))
        return None

    def fill(table, nr, nc, density=0.8, skip_rows=()):
        for r_ in range(nr):
            if r_ in skip_rows:
                continue
            for c in range(nc):
                if rng.random() < density:
                    v = value(rng)
                    if v is not None:
                        table.write(r_, c, v)

    # G1: mixed types, empty rows in the middle, second table and second sheet
    doc = Document(num_rows=14, num_cols=6)
    t = doc.sheets[0].tables[0]
    fill(t, 14, 6, skip_rows=(3, 4, 9))
    t2 = doc.sheets[0].add_table("Second", num_rows=5, num_cols=3)
    fill(t2, 5, 3)
    doc.add_sheet("Other", "T", num_rows=4, num_cols=4)
    fill(doc.sheets[1].tables[0], 4, 4)
    try:
        t.set_cell_formatting(1, 1, "number", decimal_places=2)
        t.write(1, 1, 1234.5678)
        t.set_cell_formatting(2, 2, "datetime", date_time_format="yyyy-MM-dd")
        t.write(2, 2, dt.datetime(2021, 3, 4))
        t.merge_cells("A6:B7")
    except Exception:  # noqa: BLE001
        pass
    p = os.path.join(directory, "gen-mixed.numbers")
    doc.save(p)
    paths.append(p)
    # G2: two tiles and a bit (600 rows), strings repeating
    doc = Document(num_rows=600, num_cols=3)
    t = doc.sheets[0].tables[0]
    for r_ in range(600):
        if r_ % 97 == 5:
            continue
        t.write(r_, 0, f"s{r_ % 50}")
        t.write(r_, 1, r_)
        if r_ % 3 == 0:
            t.write(r_, 2, rng.choice(words))
    p = os.path.join(directory, "gen-600rows.numbers")
    doc.save(p)
    paths.append(p)
    # G3: 300 columns
    doc = Document(num_rows=4, num_cols=300)
    t = doc.sheets[0].tables[0]
    for c in range(300):
        t.write(1, c, c)
        if c % 2:
            t.write(2, c, f"c{c % 9}")
    p = os.path.join(directory, "gen-300cols.numbers")
    doc.save(p)
    paths.append(p)
    # G5: ~100 KB of incompressible strings: one archive whose single-block snappy frame exceeds 64 KiB
    doc = Document(num_rows=300, num_cols=8)
    t = doc.sheets[0].tables[0]
    for r_ in range(300):
        for c in range(8):
            t.write(r_, c, "%040x" % rng.getrandbits(160))
    p = os.path.join(directory, "gen-bigstrings.numbers")
    doc.save(p)
    paths.append(p)
    # G4: package-folder form, re-saved fixture with edits
    src = REPO / "tests/data/test-1.numbers"
    if src.exists():
        doc = Document(str(src))
        t = doc.sheets[0].tables[0]
        t.write(0, 0, "edited")
        t.write(t.num_rows - 1, t.num_cols - 1, "last")
        p = os.path.join(directory, "gen-resaved-pkg.numbers")
        doc.save(p, package=True)
        paths.append(p)
    return paths


_BASE: dict = {}


def base_dump(path: str):
    if path not in _BASE:
        _BASE[path] = L.dump_document(path)
    return _BASE[path]


def run_variant(path: str, steps: list, seed: int):
    """Apply the transformations in `steps` [(name, params)] to `path`; returns ('skip',) | ('same', changed) | ('diff', info)."""
    pkg = L.Package.load(path)
    folder, deflate, applicable = pkg.was_folder, False, False
    for k, (name, params) in enumerate(steps):
        pkg, _, ok = L.apply(pkg, name, params, seed + 31 * k)
        if name == "container":
            folder = not folder
        if name == "deflate":
            deflate = True
        applicable = applicable or ok
    opts = {"folder": folder, "deflate": deflate}
    if not applicable:
        return ("skip",)
    d = tempfile.mkdtemp(prefix="c06-")
    try:
        out = L.write(pkg, opts, d)
        try:
            got = L.dump_document(out)
        except Exception as e:  # noqa: BLE001
            return ("diff", {"error": f"{exc_name(e)}: {e}"[:300]})
        base = base_dump(path)
        diff = L.first_difference(base, got)
        if diff is None:
            return ("same",)
        return ("diff", {"first_difference": {"index": diff[0], "original": diff[1], "rewritten": diff[2]},
                         "entries_differing": L.count_differences(base, got), "entries": len(base)})
    finally:
        shutil.rmtree(d, ignore_errors=True)


def _doc_name(path):
    return os.path.basename(path.rstrip("/"))


def _worker(task):
    L._quiet()
    seed, path, steps, vseed, generated = task
    sub = Ctx(PID, "quick", vseed)
    try:
        res = run_variant(path, steps, vseed)
    except Exception as e:  # noqa: BLE001  the rewriter itself failed: not a verdict
        sub.notes.append(f"rewriter failed on {_doc_name(path)} {steps}: {exc_name(e)}: {e}"[:300])
        return common.sub_result(sub, ("error", _doc_name(path), steps))
    label = "+".join(n for n, _ in steps)
    if res[0] == "skip":
        return common.sub_result(sub, ("skip", _doc_name(path), label))
    sub.count("metamorphic: " + steps[0][0] if len(steps) == 1 else "metamorphic: compositions", 1)
    sub.mark((_doc_name(path), steps, vseed))
    if res[0] == "diff":
        info = res[1]
        what = (f"{_doc_name(path)} rewritten with {steps}: " +
                (f"opening failed with {info['error']}" if "error" in info else
                 f"{info['entries_differing']} of {info['entries']} dump entries differ; first: {info['first_difference']['original']} "
                 f"-> {info['first_difference']['rewritten']}"))
        sub.violation("layout-" + (label if len(steps) == 1 else "composition") + "-changes-reading", what,
                      {"kind": "document", "document": _doc_name(path) if not generated else None, "generated": _doc_name(path) if generated else None,
                       "gen_seed": seed, "steps": steps, "seed": vseed, **info})
    return common.sub_result(sub, (res[0], _doc_name(path), label))


def _declared_worker(task):
    """The second sentence of the property, directly on a fixture: every stored row is reported at the row index its own
    storage record declares — so a row the library reports cells in must be a row some row-info declares, and it cannot
    report more cells there than that record stores."""
    L._quiet()
    seed, path = task
    sub = Ctx(PID, "quick", seed)
    from numbers_parser import Document
    try:
        doc = Document(path)
        pp = L.Package.load(path).parsed()
    except Exception:  # noqa: BLE001
        return common.sub_result(sub, None)
    for s_ in doc.sheets:
        for t in s_.tables:
            tm = pp.objects.get(t._table_id)
            if tm is None:
                continue
            bds = tm.base_data_store
            ts = bds.tiles.tile_size or L.MAX_TILE
            stored = {}
            for tr in bds.tiles.tiles:
                tile = pp.objects.get(tr.tile.identifier)
                for ri in (tile.rowInfos if tile is not None else []):
                    stored[tr.tileid * ts + ri.tile_row_index] = ri.cell_count
            if len(stored) != sum(len(pp.objects[tr.tile.identifier].rowInfos) for tr in bds.tiles.tiles if tr.tile.identifier in pp.objects):
                continue  # two records declare the same row: outside the property's premise
            try:
                rows = t.rows()
            except Exception:  # noqa: BLE001
                continue
            sub.count("fixture tables: reported rows vs declared row indices", 1)
            for r_, row in enumerate(rows):
                n = sum(1 for c in row if type(c).__name__ not in ("EmptyCell", "MergedCell"))
                if n > stored.get(r_, 0):
                    sub.violation("row-reported-at-undeclared-index",
                                  f"{_doc_name(path)} sheet {s_.name!r} table {t.name!r}: row {r_} is reported with {n} non-empty cells, but "
                                  + (f"the row-info declaring row {r_} stores {stored[r_]}" if r_ in stored else
                                     f"no stored row record declares row {r_} (declared rows {sorted(stored)[:20]})"),
                                  {"kind": "declared-rows", "document": _doc_name(path), "sheet": s_.name, "table": t.name, "row": r_})
                    break
    return common.sub_result(sub, None)


def check_documents(ctx: Ctx):
    data = REPO / "tests/data"
    fixtures = [str(p) for p in sorted(data.glob("*.numbers")) if not (ctx.quick and p.stem in SLOW_QUICK)]
    readable, unreadable = [], []
    for p in fixtures:
        try:
            L.Package.load(p)
            base_dump(p)
            readable.append(p)
        except Exception as e:  # noqa: BLE001  unreadable fixtures (encrypted, damaged, pre-BNC) are outside the quantifier
            unreadable.append(f"{_doc_name(p)}: {exc_name(e)}")
    unexpected = [u for u in unreadable if u.split(":")[0][:-8] not in EXPECT_UNREADABLE]
    if unexpected:
        ctx.notes.append("fixtures that no longer open and therefore left the quantifier (C17/C05 territory): " + "; ".join(unexpected[:6]))
    common.run_parallel(ctx, _declared_worker, [(ctx.seed, p) for p in readable])
    gdir = tempfile.mkdtemp(prefix="c06-gen-")
    try:
        gen = generate_documents(gdir, ctx.seed)
        for p in gen:
            base_dump(p)
        cat = L.catalogue()
        tasks = []
        for di, p in enumerate(readable + gen):
            g = p in gen
            for k, (name, params) in enumerate(cat):
                tasks.append((ctx.seed, p, [(name, params)], ctx.seed * 1009 + di * 101 + k, g))
            # compositions of 2-4 transformations
            for j in range(3 if ctx.quick else 12):
                r = random.Random(ctx.seed * 7 + di * 1000 + j)
                steps = [cat[r.randrange(1, len(cat))] for _ in range(r.randrange(2, 5))]
                tasks.append((ctx.seed, p, steps, r.randrange(10**6), g))
        random.Random(ctx.seed).shuffle(tasks)  # spread the heavy documents over the pool
        results = common.run_parallel(ctx, _worker, tasks)
        applied = sum(1 for r in results if r[0] in ("same", "diff"))
        ctx.extra["metamorphic"] = {"documents": len(readable) + len(gen), "fixtures": len(readable), "fixtures_not_opening": unreadable, "generated": [_doc_name(p) for p in gen],
                                    "variants_applied": applied, "variants_not_applicable": sum(1 for r in results if r[0] == "skip"),
                                    "rewriter_errors": sum(1 for r in results if r[0] == "error"),
                                    "label": "implementation-level exploration (metamorphic), not a proof"}
        per = {}
        for r in results:
            if r[0] in ("same", "diff"):
                per[r[2].split("+")[0] if "+" not in r[2] else "compositions"] = per.get(r[2].split("+")[0] if "+" not in r[2] else "compositions", 0) + 1
        ctx.extra["metamorphic"]["per_transformation"] = per
        # facts about the corpus that the quantifier talks about
        stats = {"lists": 0, "multi": 0, "ascending": 0, "dup_keys": 0}
        for p in readable[:8]:
            s = L.datalist_stats(L.Package.load(p).parsed())
            for k in stats:
                stats[k] += s[k]
        ctx.extra["metamorphic"]["lookup_lists_in_first_8_fixtures"] = stats
    finally:
        shutil.rmtree(gdir, ignore_errors=True)


def run(ctx: Ctx):
    L._quiet()
    check_lookup_lists(ctx)
    check_row_offsets(ctx)
    check_row_mapping(ctx)
    check_store(ctx)
    check_documents(ctx)
    # table order inside a sheet / names: live store vs Model/DocTree.lean, saved documents reopened with the archives of every
    # member (and the members) reordered; the stream lives in checks/c19.py
    from checks import c19
    c19.doctree_stream(ctx, n_hist=48 if ctx.quick else 600, foreign=True)


def replay(data):
    L._quiet()
    i = data["input"]
    if i.get("stream") == "doctree":
        from checks import c19
        return c19.replay_doctree(i)
    kind = i.get("kind")
    if kind == "document":
        if i.get("document"):
            path = str(REPO / "tests/data" / i["document"])
            steps = [(n, p) for n, p in i["steps"]]
            return {"document": i["document"], "steps": steps, "result": run_variant(path, steps, i["seed"])}
        gdir = tempfile.mkdtemp(prefix="c06-gen-")
        try:
            paths = {os.path.basename(p): p for p in generate_documents(gdir, i["gen_seed"])}
            steps = [(n, p) for n, p in i["steps"]]
            return {"generated": i["generated"], "steps": steps, "result": run_variant(paths[i["generated"]], steps, i["seed"])}
        finally:
            shutil.rmtree(gdir, ignore_errors=True)
    if kind == "datalist":
        d, _ = make_datalists([tuple(e) for e in i["entries"]], i["value_kind"])
        out = {}
        for k in sorted({e[0] for e in i["entries"]}):
            try:
                out[k] = _val_id(i["value_kind"], d.lookup_value(1, k))
            except KeyError:
                out[k] = "KeyError"
        return {"entries": i["entries"], "lookup_value": out, "next_key": d._datalists[1]["next_key"]}
    if kind == "table_string":
        from numbers_parser.model import DataLists, _NumbersModel
        TST, _ = _pb()
        m = _NumbersModel.__new__(_NumbersModel)
        dl = TST.TableDataList(listType=1, nextListID=1)
        for k, s in i["entries"]:
            dl.entries.append(TST.TableDataList.ListEntry(key=k, refcount=1, string=s))
        tm = TST.TableModelArchive()
        tm.base_data_store.stringTable.identifier = 2
        m.objects = {1: tm, 2: dl}
        m._table_strings = DataLists(m, "stringTable", "string")
        return {"entries": i["entries"], "table_string": {k: m.table_string(1, k) for k, _ in i["entries"]}}
    if kind == "rowmap":
        tiles = [(t, [(a, bytes.fromhex(b), bytes.fromhex(o), w) for a, b, o, w in ris]) for t, ris in i["tiles"]]
        m = build_table_stub(i["num_rows"], i["num_cols"], i["tile_size"], tiles, i["headers"])
        out = {}
        for r in range(i["num_rows"]):
            try:
                out[r] = [None if (b := m.storage_buffer(1, r, c)) is None else bytes(b).hex() for c in range(i["num_cols"])]
            except Exception as e:  # noqa: BLE001
                out[r] = exc_name(e)
        return {"declared": [[t, [a for a, _, _, _ in ris]] for t, ris in i["tiles"]], "headers": i["headers"], "rows_read": out}
    if kind == "row":
        cells = [None if c is None else bytes.fromhex(c) for c in i["cells"]]
        buf, offs = encode_row(cells, i["wide"])
        return {"cells": i["cells"], "read": call_row(buf, offs, i["ncols"], i["wide"])}
    if kind == "declared-rows":
        sub = Ctx(PID, "quick", 0)
        r = _declared_worker((0, str(REPO / "tests/data" / i["document"])))
        return {"document": i["document"], "violations": [v["what"] for v in r["violations"]]}
    return {"input": i, "note": "no replay for this kind"}
