"""C01 — values written to cells are read back exactly after save and reopen."""
from __future__ import annotations

import os
import shutil
import struct
import tempfile
import warnings
from datetime import datetime, timedelta
from decimal import Context

import common
from common import Ctx, enc_bytes, exc_name

PID = "C01"
PROPS_MODULE = "NumbersModel.Props.C01"
THEOREMS = [f"NumbersModel.Props.C01.{t}" for t in (
    "d128_roundtrip", "d128_pack_total", "d128_pack_injective", "cell_roundtrip", "number_cell_roundtrip",
    "row_offsets_fit_int16", "row_roundtrip", "tiles_cover", "tiles_bounded", "tiles_count",
    "table_roundtrip", "table_saved_shape", "seconds_payload_roundtrip_partial")] + [
    # the decimal128 clause over _unpack_decimal128 as py2lean regenerates its integer part from cell.py on every run
    "NumbersModel.Props.C01.Src.src_d128_roundtrip", "NumbersModel.Props.C01.Src.src_d128_roundtrip_both",
    "NumbersModel.Props.C01.Src.src_d128_pack_total", "NumbersModel.Props.C01.Src.src_d128_unpack_errors",
    "NumbersModel.Translated.unpack_decimal128_eq_model", "NumbersModel.Translated.pack_decimal128_eq_model"]
TRANSLATED_GROUPS = ("Dec128",)
PARTIAL = {
    "NumbersModel.Props.C01.seconds_payload_roundtrip_partial":
        "date / duration / bool payloads are 8 opaque bytes in the model: the theorem only states that the bytes written "
        "are the bytes read (via C04 decode_encode); that struct('<d') and timedelta/datetime arithmetic invert each other "
        "on the property's domain is an assumption exercised by the end-to-end oracle, not a theorem",
}
RULE = ("component level: every value of the exhaustive sub-ranges (ints 0..N, 2-decimal prices, k*10^e grid) and seeded "
        "<=15-digit decimals through the real _pack_decimal128/_unpack_decimal128 vs the Lean pack/unpack; generated rows "
        "through the real recalculate_row_info / get_storage_buffers_for_row vs rowInfo/rowBuffers; tile split of real saved "
        "documents vs tiles; whole table: the TST.Tile / TileRowInfo / string TableDataList objects read back from files "
        "written by Document.save vs saveTable on the in-memory grid (every field, every byte), and Table.__init__ on those "
        "files (and on the same objects after edits in the object store: dropped row-infos / records / strings, larger "
        "declared size, tile_size 0, pre-BNC tile) vs loadTable; end to end: ~2000 cells per document of every supported type at generated positions (incl. "
        "beyond the initial bounds, >256 rows, >256 columns), saved, reopened, compared exactly; a case is non-trivial if "
        "it is a distinct value / row / (document, cell)")
MANIFEST = {
    "text": "Core proved, glue assumed: table_roundtrip - ONE theorem for the whole table write path and read path: for every "
            "grid with >= 1 row, all rows of one width <= MAX_COL_COUNT, <= MAX_ROW_COUNT rows (any number of 256-row tiles), "
            "any mix of number / currency / text / date / bool / duration / rich / empty cells with well-sized payloads and "
            "int32 ids, merged placeholders as holes: loadTable (saveTable grid) returns the grid, cell by cell (class, payload "
            "bytes, twelve ids, flag words, and for text cells the same string although every string key is re-assigned). "
            "saveTable mirrors _NumbersModel.recalculate_table_data (string list reset, table_string_key/lookup_key per text "
            "cell in row-major order, Cell._to_buffer, recalculate_row_info, 256-row tiles with tileid / tile_row_index, "
            "number_of_rows / number_of_columns / tile_size), loadTable mirrors Table.__init__ (row_storage_map, storage_buffers "
            "incl. the last_saved_in_BNC test, storage_buffer, get_storage_buffers_for_row, Cell._from_storage, table_string "
            "through DataLists.add_table, Cell._empty_cell on EMPTY_STORAGE_BUFFER, merged placeholders). The row limit is what "
            "makes every string key fit the int32 field (MAX_ROW_COUNT * MAX_COL_COUNT <= 2^31 - 1, re-decided against the "
            "generated constants). Layer theorems it composes: d128_roundtrip (unpack(pack(sign, coeff, exp)) = (sign, coeff, "
            "exp) for EVERY sign, every coefficient < 2^113 and every exponent with 0 <= exp + 6176 < 2^14 - the whole decimal128 "
            "small-coefficient format), d128_pack_injective, number_cell_roundtrip (triple -> payload -> cell record -> payload -> "
            "triple with all ids carried, composing C04), row_roundtrip, row_offsets_fit_int16 (<= MAX_COL_COUNT columns of "
            "C04-sized records never overflow the int16 offset table), tiles_cover / tiles_bounded / tiles_count, "
            "table_saved_shape (dimensions and ceil(rows/256) tiles). The models are tied to _pack_decimal128 / "
            "_unpack_decimal128 / recalculate_row_info / get_storage_buffers_for_row / recalculate_table_data / Table.__init__ "
            "by differential correspondence: the TST objects read back from files written by Document.save are compared field by "
            "field and byte by byte with saveTable's output, the grids Document(path) reads with loadTable on those objects. The "
            "path Table.write -> ... -> Cell.value (value <-> payload through decimal / struct / datetime, grid growth) is "
            "exercised by an exact-equality oracle on generated documents, which is exploration, not proof. The integer part of "
            "_unpack_decimal128 (byte reads, & << >> |, the 14-byte loop, the sign test - everything before the final "
            "float(...)) and _pack_decimal128 from the decimal triple on (bytearray item updates, the while loop over the "
            "mantissa) are additionally TRANSLATED from cell.py on every run (harness/py2lean.py -> Gen/TrDec128.lean), proved "
            "equal to Decimal128.unpack for every buffer resp. Decimal128.pack for every triple (Lemmas/TrDec128.lean), the "
            "round-trip clause is restated over them (Props.C01.Src.src_d128_roundtrip_both) and the translated definitions are "
            "run against the real functions (trdriver).",
    "note": "assumed (exercised, not proved): float(repr-decimal) is the correctly rounded inverse of str(float) for <= 15 (in fact "
            "<= 17) significant digits; decimal.Context(prec=34).create_decimal(str(x)) is exact for such x; struct '<d' is "
            "bijective; timedelta(seconds=float) / total_seconds() invert each other at microsecond resolution within +-100 years "
            "(and EPOCH + timedelta for the date domain); protobuf / snappy / zip round-trip (C05). In table_roundtrip the "
            "payload of a number / date / bool / duration cell is the bytes the packers produce (value <-> bytes is "
            "d128_roundtrip resp. assumed), the reader's is_merge_reference is a parameter required to name exactly the merged "
            "placeholders (the merge map's own round trip is C12), the two style look-ups at the top of _to_buffer, row / column "
            "headers and update_cell_styles are outside (C15/C16), rich-text payload look-up (table_rich_text) is outside; "
            "saveRow encodes a row's cells before laying them out, so for a non-rectangular grid that also holds an unpackable "
            "id the exception class may differ from Python's (IndexError vs struct.error) - no exception at all under the "
            "theorem's hypotheses. Not modelled: _validate_cell_coords growth / Cell._from_value dispatch (C03 grid model and the "
            "end-to-end oracle).",
    "technique": "Lean 4 proof (bit-level arithmetic, list induction, state invariant of the string list, refinement of the "
                 "dict-based row map; the decimal128 reader proved equal to its translation from the Python source) + differential correspondence on real saved objects + end-to-end oracle",
}
ASSUMPTIONS = [
    "float(str) / repr(float) are correctly rounded inverses on <=15-significant-digit decimals (CPython)",
    "decimal.Context(prec=34).create_decimal(str(x)).as_tuple() is the exact decimal expansion of str(x)",
    "struct.pack('<d')/unpack are inverse; timedelta(seconds=td.total_seconds()) == td and EPOCH + timedelta(seconds=(dt-EPOCH).total_seconds()) == dt on the stated domains",
    "protobuf/snappy/zip layers round-trip (property C05)",
]

D128 = Context(prec=34)


# ----------------------------------------------------------------------------------------------
# helpers
# ----------------------------------------------------------------------------------------------
def limited_violations(ctx: Ctx, per_sig: int = 3):
    seen: dict = {}
    orig = ctx.violation

    def limited(sig, what, inp):
        seen[sig] = seen.get(sig, 0) + 1
        if seen[sig] <= per_sig:
            orig(sig, what, inp)

    ctx.violation = limited
    return seen, orig


def correspond_map(ctx: Ctx, name: str, requests, impl_out, fmap, exhaustive=False, tr_fmap=None):
    """like ctx.correspond, but the model's reply is passed through `fmap` (an explicitly assumed third-party
    step, e.g. decimal triple -> float) before it is compared with the implementation's output.
    tr_fmap: the same requests are also run through the definitions py2lean translated from the source (trdriver) and
    their reply is passed through `tr_fmap`."""
    sub = ctx.subspaces.setdefault(name, {"cases": 0, "exhaustive": exhaustive, "disagreements": 0})
    sub["cases"] += len(requests)
    ctx.evaluations += len(requests)
    for r, o in list(zip(requests, impl_out))[:3]:
        ctx.samples.append({"subspace": name, "request": r, "impl": o})
    for o in impl_out:
        ctx.histogram[name + ":" + o.split(" ", 1)[0] + ("" if o.startswith("ok") else ":" + o.split(" ")[-1])] += 1
    if not ctx.model_available:
        sub["skipped_model"] = True
        return
    model_out = common.run_model(requests)
    for r, a, b in zip(requests, impl_out, model_out):
        b2 = fmap(b)
        if a != b2:
            sub["disagreements"] += 1
            if len(ctx.disagreements) < 50:
                ctx.disagreements.append({"subspace": name, "request": r, "impl": a, "model": b, "model_mapped": b2})
    if tr_fmap is not None and ctx.translated_available:
        tr_out = common.run_model(requests, driver=common.TRDRIVER)
        sub["translated_source_cases"] = sub.get("translated_source_cases", 0) + len(requests)
        for r, a, b in zip(requests, impl_out, tr_out):
            b2 = tr_fmap(b)
            if a != b2:
                sub["disagreements"] += 1
                if len(ctx.disagreements) < 50:
                    ctx.disagreements.append({"subspace": name + " [definitions translated from the source]", "request": r,
                                              "impl": a, "model": b, "model_mapped": b2})


def dec_triple(v):
    """the decimal triple the (fixed) packer starts from — third-party `decimal`, computed independently here."""
    t = D128.create_decimal(str(v)).as_tuple()
    return t.sign, int("".join(map(str, t.digits))), t.exponent


def dec_to_float_repr(reply: str) -> str:
    """`float(f"{mantissa}E{exp}")` applied to the model's (sign, coeff, exp)."""
    if not reply.startswith("ok "):
        return reply
    s, c, e = reply[3:].split()
    m = -int(c) if s == "1" else int(c)
    try:
        return "ok " + repr(float(f"{m}E{e}"))
    except Exception as ex:  # noqa: BLE001
        return "err " + exc_name(ex)


def tr_to_float_repr(reply: str) -> str:
    """the final `float(f"{mantissa}E{exp}")` of _unpack_decimal128 applied to what the translated integer part returns
    (`ok <sign> <signed mantissa> <exp>`)."""
    if not reply.startswith("ok "):
        return reply
    s, m, e = reply[3:].split()
    if (s == "1") != (int(m) < 0) and int(m) != 0:
        return "bad-sign " + reply
    try:
        return "ok " + repr(float(f"{int(m)}E{int(e)}"))
    except Exception as ex:  # noqa: BLE001
        return "err " + exc_name(ex)


def in_domain(v) -> bool:
    """the property's number domain: ints |n| < 10^15; finite floats of <= 15 significant digits, 0 or 1e-290 <= |x| <= 1e290."""
    if isinstance(v, bool):
        return False
    if isinstance(v, int):
        return abs(v) < 10**15
    if v == 0.0:
        return True
    if v != v or not (1e-290 <= abs(v) <= 1e290):
        return False
    return len(D128.create_decimal(repr(v)).as_tuple().digits) <= 15


def d128_reference(sign: int, coeff: int, exp: int) -> bytes:
    """decimal128 BID small-coefficient layout, written from the format description."""
    b = bytearray((coeff & ((1 << 112) - 1)).to_bytes(14, "little") + b"\0\0")
    e = exp + 0x1820
    b[14] = ((e & 0x7F) << 1) | (coeff >> 112)
    b[15] = (e >> 7) | (0x80 if sign else 0)
    return bytes(b)


# ----------------------------------------------------------------------------------------------
# (i) decimal128 component
# ----------------------------------------------------------------------------------------------
def number_pool(ctx: Ctx):
    rng = ctx.rng
    q = ctx.quick
    vals: list = []
    vals += list(range(0, 100_001 if q else 1_000_001))
    vals += [-n for n in range(1, 2001)]
    # all 2-decimal prices 0.00 .. 99.99 (quick) / 9999.99
    top = 100_000 if q else 1_000_000
    vals += [k / 100 for k in range(top)]
    if q:
        vals += [rng.randrange(100_000, 1_000_000) / 100 for _ in range(20_000)]
    # k * 10^e
    for e in range(-290, 291, 7):
        for k in (list(range(1, 1000, 37)) if q else range(1, 1000)):
            vals.append(float(f"{k}e{e}"))
    # all-nines and 10…01 mantissas of every length at every seventh magnitude
    for e in range(-290, 276, 7):
        for nd in range(1, 16):
            vals += [float(f"{'9' * nd}e{e}"), float(f"1{'0' * (nd - 1)}1e{e}") if nd < 15 else float(f"1{'0' * 13}1e{e}")]
    # named witnesses from the property text
    vals += [12, 50, 52, 0.12, 846400000000.0, 12.5, 1.5e290, 1e-290, 1e290, -1e290, 999999999999999, -999999999999999,
             10**15 - 1, 0.1, 0.2, 0.3, 1 / 3, 123456789012345.0, 0.000123456789012345, 5e-324, 1.7976931348623157e308]
    # seeded <= 15-digit decimals
    for _ in range(200_000 if q else 2_000_000):
        nd = rng.randint(1, 15)
        digits = rng.randrange(10 ** (nd - 1), 10 ** nd)
        e = rng.randint(-290 - nd + 1, 290 - nd + 1) if rng.random() < 0.3 else rng.randint(-nd - 3, 3)
        x = float(f"{digits}e{e}")
        vals.append(-x if rng.random() < 0.3 else x)
    for _ in range(20_000 if q else 200_000):
        vals.append(rng.randrange(-10 ** 15 + 1, 10 ** 15))
    return vals


def check_decimal128(ctx: Ctx):
    from numbers_parser import cell as C
    vals = number_pool(ctx)
    req_p, out_p, req_u, out_u = [], [], [], []
    for v in vals:
        inp = {"value": repr(v), "type": type(v).__name__}
        try:
            b = bytes(C._pack_decimal128(v))
            o = "ok " + enc_bytes(b)
        except Exception as e:  # noqa: BLE001
            b, o = None, "err " + exc_name(e)
        s, c, e = dec_triple(v)
        req_p.append(f"d128 pack {s} {c} {e}")
        out_p.append(o)
        ctx.mark(("num", repr(v)))
        dom = in_domain(v)
        if b is None:
            if dom:
                ctx.violation("pack-decimal128-raises", f"_pack_decimal128({v!r}) raised {o}", inp)
            continue
        try:
            back = C._unpack_decimal128(bytearray(b))
            ob = "ok " + repr(back)
        except Exception as e2:  # noqa: BLE001
            back, ob = None, "err " + exc_name(e2)
        req_u.append("d128 unpack " + enc_bytes(b))
        out_u.append(ob)
        # the property on the implementation: equal, not merely close
        if dom and (back is None or back != v or repr(float(back)) != repr(float(v))):
            ctx.violation("decimal128-pack-unpack-not-exact",
                          f"_unpack_decimal128(_pack_decimal128({v!r})) = {ob[3:] if back is not None else ob}", inp)
        if len(b) != 16:
            ctx.violation("decimal128-payload-length", f"_pack_decimal128({v!r}) has {len(b)} bytes", inp)
    ctx.correspond("_pack_decimal128 vs pack(decimal triple of str(value))", req_p, out_p, translated=True)
    correspond_map(ctx, "_unpack_decimal128(_pack_decimal128(v)) vs float(unpack(...))", req_u, out_u, dec_to_float_repr,
                   tr_fmap=tr_to_float_repr)

    # payloads from the format description (reference encoder): boundaries of the whole format + seeded
    rng = ctx.rng
    triples = []
    for c in (0, 1, 255, 256, 2**53, 10**15 - 1, 10**17 - 1, 2**112 - 1, 2**112, 2**112 + 1, 10**34 - 1, 2**113 - 1):
        for e in (-6176, -400, -17, -1, 0, 1, 22, 290, 308):
            for s in (0, 1):
                triples.append((s, c, e))
    for _ in range(5_000 if ctx.quick else 200_000):
        bits = rng.choice((8, 16, 53, 64, 100, 112, 113))
        triples.append((rng.getrandbits(1), rng.getrandbits(bits), rng.randint(-340, 300)))
    req_u, out_u, req_p, out_p = [], [], [], []
    for s, c, e in triples:
        b = d128_reference(s, c, e)
        req_u.append("d128 unpack " + enc_bytes(b))
        try:
            out_u.append("ok " + repr(C._unpack_decimal128(bytearray(b))))
        except Exception as ex:  # noqa: BLE001
            out_u.append("err " + exc_name(ex))
        req_p.append(f"d128 pack {s} {c} {e}")
        out_p.append("ok " + enc_bytes(b))        # the Lean packer against the independent reference encoder
    correspond_map(ctx, "_unpack_decimal128 on reference-encoded payloads (113-bit coefficients, format boundaries)",
                   req_u, out_u, dec_to_float_repr, tr_fmap=tr_to_float_repr)
    ctx.correspond("Lean pack vs reference decimal128 encoder (model sanity, no repo code)", req_p, out_p)
    # short buffers
    req, out = [], []
    b = d128_reference(1, 12345, -2)
    for k in range(0, 17):
        req.append("d128 unpack " + enc_bytes(b[:k]))
        try:
            out.append("ok " + repr(C._unpack_decimal128(bytearray(b[:k]))))
        except Exception as ex:  # noqa: BLE001
            out.append("err " + exc_name(ex))
    correspond_map(ctx, "_unpack_decimal128 on every prefix of a payload", req, out, dec_to_float_repr, exhaustive=True,
                   tr_fmap=tr_to_float_repr)


# ----------------------------------------------------------------------------------------------
# (ii) rows
# ----------------------------------------------------------------------------------------------
class _FakeCell:
    def __init__(self, buf):
        self.buf = buf

    def _to_buffer(self):
        return None if self.buf is None else bytearray(self.buf)


def optb(b):
    return "n" if b is None else enc_bytes(b)


def check_rows(ctx: Ctx):
    from numbers_parser import model as M
    rng = ctx.rng
    rows = []
    widths = [1, 2, 3, 8, 255, 256, 257, 1000] + [rng.randint(1, 60) for _ in range(300 if ctx.quick else 3000)]
    for w in widths:
        dens = rng.choice((0.0, 0.1, 0.5, 0.9, 1.0))
        row = []
        for _ in range(w):
            if rng.random() < dens:
                n = rng.choice((12, 16, 20, 28, 32, 76)) if rng.random() < 0.9 else 4 * rng.randint(0, 19)
                row.append(bytes(rng.getrandbits(8) for _ in range(n)))
            else:
                row.append(None)
        rows.append((w, row))
    # all rows of width <= 4 over {None, 12-byte, 16-byte} and the worst case: 1000 x 76 bytes
    import itertools
    a, b = bytes(range(12)), bytes(range(100, 116))
    for w in range(1, 5):
        for combo in itertools.product((None, a, b), repeat=w):
            rows.append((w, list(combo)))
    rows.append((1000, [bytes([i & 255]) * 76 for i in range(1000)]))
    # misuse: records whose length is not a multiple of 4, row longer than data[0], offsets overflowing int16
    rows.append((3, [b"\1\2", None, b"\3\4\5"]))
    rows.append((2, [a, None, b]))
    rows.append((1800, [bytes(76)] * 1800))
    req_i, out_i, req_b, out_b = [], [], [], []
    for w, row in rows:
        data = [[_FakeCell(None)] * w, [_FakeCell(x) for x in row]]
        req_i.append(" ".join(["row", "info", str(w)] + [optb(x) for x in row]))
        try:
            ri = M._NumbersModel.recalculate_row_info(None, 1, data, 0, 1)
            out_i.append(f"ok {enc_bytes(ri.cell_offsets)} {enc_bytes(ri.cell_storage_buffer)} {ri.cell_count}")
        except Exception as e:  # noqa: BLE001
            out_i.append("err " + exc_name(e))
            continue
        ctx.mark(("row", w, tuple(None if x is None else len(x) for x in row[:50])))
        for ncols in {w, len(row)} | ({w - 1, w + 3} if w < 10 else set()):
            req_b.append(f"row bufs {enc_bytes(ri.cell_storage_buffer)} {enc_bytes(ri.cell_offsets)} {ncols} 1")
            try:
                got = M.get_storage_buffers_for_row(ri.cell_storage_buffer, ri.cell_offsets, ncols, True)
                out_b.append("ok " + (" ".join(optb(x) for x in got) if got else "-"))
            except Exception as e:  # noqa: BLE001
                got = None
                out_b.append("err " + exc_name(e))
            # property on the implementation: what was written is what is read (records with len % 4 == 0)
            if ncols == w == len(row) and all(x is None or len(x) % 4 == 0 and len(x) > 0 for x in row):
                want = [None if x is None else bytes(x) for x in row]
                if got is None or [None if x is None else bytes(x) for x in got] != want:
                    ctx.violation("row-storage-not-read-back", f"row of {w} columns does not read back",
                                  {"width": w, "row": [None if x is None else x.hex() for x in row]})
    ctx.correspond("recalculate_row_info on generated rows (holes, 1..1000 columns, misuse cases)", req_i, out_i)
    ctx.correspond("get_storage_buffers_for_row on the written rows", req_b, out_b)
    # reader on hand-made offset tables (narrow offsets, odd length, negative / unordered offsets)
    req, out = [], []
    st = bytes(range(40))
    cases = [(struct.pack("<4h", 0, -1, 3, 5), 4, True), (struct.pack("<4h", 0, -1, 12, 20), 4, False),
             (struct.pack("<3h", 5, 2, -1), 3, True), (b"\0\0\1", 2, True), (b"", 3, True),
             (struct.pack("<2h", 100, 0), 2, True), (struct.pack("<3h", -1, -1, -1), 5, True),
             (struct.pack("<3h", 0, 4, 8), 2, True), (struct.pack("<2h", -2, 3), 2, True)]
    for off, n, wide in cases:
        req.append(f"row bufs {enc_bytes(st)} {enc_bytes(off)} {n} {int(wide)}")
        try:
            got = M.get_storage_buffers_for_row(st, off, n, wide)
            out.append("ok " + (" ".join(optb(x) for x in got) if got else "-"))
        except Exception as e:  # noqa: BLE001
            out.append("err " + exc_name(e))
    ctx.correspond("get_storage_buffers_for_row on hand-made offset tables", req, out, exhaustive=True)


# ----------------------------------------------------------------------------------------------
# (iii)+(iv) documents: tile split and end-to-end round trip
# ----------------------------------------------------------------------------------------------
def gen_value(rng, kind):
    if kind == "str":
        r = rng.random()
        if r < 0.05:
            return ""
        if r < 0.15:
            return "line1\nline2\r\n\tTabbed " + str(rng.randrange(10**6))
        if r < 0.25:
            return "".join(chr(rng.choice((0x1F600, 0x1D11E, 0x10FFFF, 0x4E2D, 0xE9, 0x20AC, 0x5D0))) for _ in range(rng.randint(1, 6)))
        if r < 0.28:
            return "x" * rng.randint(1000, 20000)
        if r < 0.34:
            # canonically equivalent but different texts (composed / decomposed accents, Hangul syllable / jamo, OHM SIGN /
            # omega, compatibility forms): both spellings of a pair occur in one table and must each read back as written
            return rng.choice(("caf\u00e9", "cafe\u0301", "\uac00", "\u1100\u1161", "\u2126", "\u03a9", "\u00c5", "A\u030a", "\u212b",
                               "\ufb01", "fi", "\u1e9b\u0323", "\u1e9b\u0323".encode().decode(), "n\u0303o", "\u00f1o"))
        if r < 0.4:
            return rng.choice(("same", "Same", "same ", "TRUE", "12", "1.5", "=A1", "'q", '"', "\u0000nul", " ", "​"))
        return "".join(rng.choice("abcXYZ 0123456789_-+/\\%$é") for _ in range(rng.randint(1, 24)))
    if kind == "bool":
        return rng.random() < 0.5
    if kind == "int":
        r = rng.random()
        if r < 0.4:
            return rng.randrange(-100, 1000)
        return rng.randrange(-10**15 + 1, 10**15)
    if kind == "float":
        if rng.random() < 0.12:
            # digit patterns next to a power of ten, at every magnitude: 9…9, 9…98, 10…01
            nd = rng.randint(1, 15)
            mant = rng.choice((int("9" * nd), int("9" * nd) - 1 if nd > 1 else 8, 10 ** (nd - 1) + 1 if nd > 1 else 1, 10 ** (nd - 1)))
            e = rng.randint(-290 - nd + 1, 290 - nd + 1) if rng.random() < 0.5 else rng.randint(-nd - 2, 2)
            x = float(f"{mant}e{e}")
            return -x if rng.random() < 0.3 else x
        nd = rng.randint(1, 15)
        digits = rng.randrange(10 ** (nd - 1), 10 ** nd)
        e = rng.randint(-290 - nd + 1, 290 - nd + 1) if rng.random() < 0.2 else rng.randint(-nd - 2, 2)
        x = float(f"{digits}e{e}")
        if rng.random() < 0.02:
            return 0.0
        return -x if rng.random() < 0.3 else x
    if kind == "datetime":
        r = rng.random()
        if r < 0.5:      # whole seconds, years 1..9999
            secs = rng.randrange(0, (datetime(9999, 12, 31, 23, 59, 59) - datetime(1, 1, 1)).days * 86400 + 86399)
            return datetime(1, 1, 1) + timedelta(seconds=secs)
        secs = rng.randrange(0, (datetime(2100, 12, 31) - datetime(1900, 1, 1)).days * 86400)
        return datetime(1900, 1, 1) + timedelta(seconds=secs, microseconds=rng.randrange(10**6))
    if kind == "timedelta":
        r = rng.random()
        if r < 0.2:
            return timedelta(seconds=rng.randrange(-86400, 86400))
        return timedelta(days=rng.randrange(-36500, 36500), seconds=rng.randrange(86400), microseconds=rng.randrange(10**6))
    raise ValueError(kind)


KINDS = ("str", "bool", "int", "float", "datetime", "timedelta")
EXPECTED_CLASS = {"str": "TextCell", "bool": "BoolCell", "int": "NumberCell", "float": "NumberCell",
                  "datetime": "DateCell", "timedelta": "DurationCell"}


def jvalue(v):
    if isinstance(v, bool):
        return {"type": "bool", "value": v}
    if isinstance(v, int):
        return {"type": "int", "value": str(v)}
    if isinstance(v, float):
        return {"type": "float", "value": repr(v)}
    if isinstance(v, str):
        return {"type": "str", "value": v if len(v) < 200 else v[:50] + f"...({len(v)} chars)", "codepoints": [ord(c) for c in v[:64]], "len": len(v)}
    if isinstance(v, datetime):
        return {"type": "datetime", "value": v.isoformat()}
    if isinstance(v, timedelta):
        return {"type": "timedelta", "value": [v.days, v.seconds, v.microseconds]}
    return {"type": type(v).__name__, "value": repr(v)}


def unj(j):
    t, v = j["type"], j["value"]
    if t == "bool":
        return bool(v)
    if t == "int":
        return int(v)
    if t == "float":
        return float(v)
    if t == "str":
        return "".join(chr(c) for c in j["codepoints"]) if j.get("len", 0) <= 64 else "x" * j["len"]
    if t == "datetime":
        return datetime.fromisoformat(v)
    if t == "timedelta":
        return timedelta(days=v[0], seconds=v[1], microseconds=v[2])
    raise ValueError(t)


def same_value(written, cell) -> str | None:
    """None if the reopened cell holds exactly what was written, else a description."""
    kind = ("bool" if isinstance(written, bool) else "int" if isinstance(written, int) else "float" if isinstance(written, float)
            else "str" if isinstance(written, str) else "datetime" if isinstance(written, datetime) else "timedelta")
    cls = type(cell).__name__
    if cls != EXPECTED_CLASS[kind]:
        return f"cell class {cls}, expected {EXPECTED_CLASS[kind]}"
    got = cell.value
    if kind in ("int", "float"):
        if isinstance(got, bool) or not isinstance(got, (int, float)):
            return f"value {got!r} of type {type(got).__name__}"
        if got != written or repr(float(got)) != repr(float(written)):
            return f"read {got!r}"
        return None
    if type(got) is not type(written) and not (kind == "str" and isinstance(got, str)):
        return f"value {got!r} of type {type(got).__name__}"
    if got != written:
        return f"read {got!r}" if len(repr(got)) < 120 else f"read a different value of length {len(got)}"
    return None


def save_reopen(doc):
    import numbers_parser
    d = tempfile.mkdtemp(prefix="c01-")
    try:
        p = os.path.join(d, "t.numbers")
        doc.save(p)
        return numbers_parser.Document(p)
    finally:
        shutil.rmtree(d, ignore_errors=True)


def check_documents(ctx: Ctx):
    import numbers_parser
    rng = ctx.rng
    # (rows, cols, cells, kinds) — positions are drawn inside rows x cols; the new table is 12 x 8
    shapes = [(60, 40, 2000, KINDS), (600, 4, 2000, KINDS), (9, 300, 2000, KINDS), (12, 8, 96, KINDS),
              (257, 9, 2000, ("float", "int")), (100, 30, 2000, ("str",)), (300, 12, 2000, ("datetime", "timedelta", "bool"))]
    shapes += [(rng.randint(1, 400), rng.randint(1, 30), 2000, KINDS) for _ in range(8)]
    if not ctx.quick:
        shapes += [(rng.randint(1, 700), rng.randint(1, 40), 2000, KINDS) for _ in range(25)]
        shapes += [(1030, 3, 2500, KINDS), (5, 1000, 2500, KINDS), (513, 257, 3000, KINDS)]
    req_t, out_t = [], []
    for di, (nr, nc, ncells, kinds) in enumerate(shapes):
        with warnings.catch_warnings():
            warnings.simplefilter("ignore")
            doc = numbers_parser.Document()
            table = doc.sheets[0].tables[0]
            written: dict = {}
            order = []
            for _ in range(ncells):
                r, c = rng.randrange(nr), rng.randrange(nc)
                v = gen_value(rng, rng.choice(kinds))
                try:
                    table.write(r, c, v)
                except Exception as e:  # noqa: BLE001
                    ctx.violation("write-raises", f"Table.write({r},{c},{v!r:.80}) raised {exc_name(e)}: {e}",
                                  {"row": r, "col": c, "value": jvalue(v)})
                    continue
                written[(r, c)] = v
                order.append((r, c))
            # make sure the far corner exists so the shape is as intended
            if (nr - 1, nc - 1) not in written:
                v = gen_value(rng, rng.choice(kinds))
                table.write(nr - 1, nc - 1, v)
                written[(nr - 1, nc - 1)] = v
            exp_rows, exp_cols = max(12, nr), max(8, nc)
            try:
                doc2 = save_reopen(doc)
                t2 = doc2.sheets[0].tables[0]
            except Exception as e:  # noqa: BLE001
                ctx.violation("save-reopen-raises", f"save/reopen of a {exp_rows}x{exp_cols} table raised {exc_name(e)}: {e}",
                              {"shape": [nr, nc], "cells": [[r, c, jvalue(v)] for (r, c), v in list(written.items())[:50]]})
                continue
            if (t2.num_rows, t2.num_cols) != (exp_rows, exp_cols):
                ctx.violation("reopened-table-shape", f"wrote up to ({nr - 1},{nc - 1}); reopened table is {t2.num_rows}x{t2.num_cols}, expected {exp_rows}x{exp_cols}",
                              {"shape": [nr, nc]})
            # tile split of the saved model: real objects vs the Lean `tiles`
            m = doc._model
            tid = table._table_id
            tl = []
            for tile_ref in m.objects[tid].base_data_store.tiles.tiles:
                tile = m.objects[tile_ref.tile.identifier]
                first = "-" if not tile.rowInfos else str(tile_ref.tileid * 256 + tile.rowInfos[0].tile_row_index)
                tl.append(f"{tile_ref.tileid}:{len(tile.rowInfos)}:{first}")
            req_t.append(f"row tiles {exp_rows}")
            out_t.append("ok " + " ".join(tl))
            n_checked = 0
            for (r, c), v in written.items():
                n_checked += 1
                ctx.mark((di, r, c))
                try:
                    cell = t2.cell(r, c)
                except Exception as e:  # noqa: BLE001
                    ctx.violation("reopened-cell-missing", f"cell({r},{c}) raised {exc_name(e)}", {"row": r, "col": c, "value": jvalue(v), "shape": [nr, nc]})
                    continue
                why = same_value(v, cell)
                if why:
                    t = jvalue(v)["type"]
                    ctx.violation(f"{t}-not-read-back-exactly", f"wrote {v!r:.120} at ({r},{c}) of a {exp_rows}x{exp_cols} table; after save/reopen: {why}",
                                  {"row": r, "col": c, "value": jvalue(v), "shape": [nr, nc]})
            # the same open document, edited further and saved again, must reopen exactly as well
            if di % 2 == 0:
                for _ in range(40):
                    r, c = rng.randrange(nr), rng.randrange(nc)
                    v = gen_value(rng, rng.choice(kinds))
                    try:
                        table.write(r, c, v)
                    except Exception:  # noqa: BLE001  (reported above for first-round writes)
                        continue
                    written[(r, c)] = v
                try:
                    t3 = save_reopen(doc).sheets[0].tables[0]
                    for (r, c), v in written.items():
                        why = same_value(v, t3.cell(r, c))
                        if why:
                            t = jvalue(v)["type"]
                            ctx.violation(f"{t}-not-read-back-exactly-after-second-save",
                                          f"wrote {v!r:.120} at ({r},{c}); after a second save of the same document and reopen: {why}",
                                          {"row": r, "col": c, "value": jvalue(v), "shape": [nr, nc], "second_save": True})
                    ctx.count("end-to-end: second save of the same open document, reopened, compared exactly", len(written))
                except Exception as e:  # noqa: BLE001
                    ctx.violation("second-save-reopen-raises", f"second save/reopen raised {exc_name(e)}: {e}", {"shape": [nr, nc]})
            # cells never written stay empty
            empties = 0
            for _ in range(200):
                r, c = rng.randrange(exp_rows), rng.randrange(exp_cols)
                if (r, c) in written:
                    continue
                empties += 1
                cell = t2.cell(r, c)
                if type(cell).__name__ != "EmptyCell" or cell.value is not None:
                    ctx.violation("unwritten-cell-not-empty", f"cell({r},{c}) never written, reopened as {type(cell).__name__} {cell.value!r:.60}",
                                  {"row": r, "col": c, "shape": [nr, nc]})
            ctx.count("end-to-end: cells written, saved, reopened, compared exactly", n_checked + empties)
    ctx.correspond("tile split of saved documents vs tiles", req_t, out_t)
    # tile split for the boundary row counts (small documents, 1 column of text)
    req_t, out_t = [], []
    for nrows in (1, 2, 255, 256, 257, 511, 512, 513) + (() if ctx.quick else (767, 768, 769, 1024, 1025)):
        with warnings.catch_warnings():
            warnings.simplefilter("ignore")
            doc = numbers_parser.Document(num_rows=nrows, num_cols=2)
            table = doc.sheets[0].tables[0]
            table.write(nrows - 1, 1, nrows)
            try:
                doc2 = save_reopen(doc)
                t2 = doc2.sheets[0].tables[0]
            except Exception as e:  # noqa: BLE001
                ctx.violation("save-reopen-raises", f"save/reopen of a {nrows}x2 table raised {exc_name(e)}: {e}", {"rows": nrows})
                continue
            if t2.num_rows != nrows or t2.cell(nrows - 1, 1).value != nrows:
                ctx.violation("last-row-lost-at-tile-boundary", f"{nrows}-row table: reopened {t2.num_rows} rows, last cell {t2.cell(t2.num_rows - 1, 1).value!r}",
                              {"rows": nrows})
            m, tid = doc._model, table._table_id
            tl = []
            for tile_ref in m.objects[tid].base_data_store.tiles.tiles:
                tile = m.objects[tile_ref.tile.identifier]
                first = "-" if not tile.rowInfos else str(tile_ref.tileid * 256 + tile.rowInfos[0].tile_row_index)
                tl.append(f"{tile_ref.tileid}:{len(tile.rowInfos)}:{first}")
            req_t.append(f"row tiles {nrows}")
            out_t.append("ok " + " ".join(tl))
    ctx.correspond("tile split at the 256-row boundaries", req_t, out_t, exhaustive=True)


# ----------------------------------------------------------------------------------------------
# (v) the whole table: recalculate_table_data / Table.__init__ vs saveTable / loadTable
# ----------------------------------------------------------------------------------------------
ID_ATTRS = ("_rich_id", "_cell_style_id", "_text_style_id", "_formula_id", "_control_id", "_suggest_id",
            "_num_format_id", "_currency_format_id", "_date_format_id", "_duration_format_id", "_text_format_id",
            "_bool_format_id")


def opti(v):
    return "n" if v is None else str(int(v))


def ids_token(cell) -> str:
    return ";".join(opti(getattr(cell, a, None)) for a in ID_ATTRS)


def tcell_token(cell) -> str:
    """an in-memory cell as the model's `TCell`: class, the payload the third-party packers produce (`_pack_decimal128`
    — tied to Model/Decimal128 in (i) — and struct '<d', computed here exactly as `_to_buffer` computes them), the string
    of a text cell, `_string_id`, and the twelve ids as they are once `_to_buffer` has done its style look-ups."""
    from numbers_parser import cell as C
    from numbers_parser.constants import EPOCH
    payload, text = b"", ""
    if isinstance(cell, C.NumberCell):
        kind = "currency" if cell._type == C.CellType.CURRENCY else "number"
        payload = bytes(C._pack_decimal128(cell.value))
    elif isinstance(cell, C.TextCell):
        kind, text = "text", cell.value
    elif isinstance(cell, C.DateCell):
        kind = "date"
        delta = cell._value - (EPOCH if cell._value.tzinfo is None else EPOCH.astimezone(cell._value.tzinfo))
        payload = struct.pack("<d", float(delta.total_seconds()))
    elif isinstance(cell, C.BoolCell):
        kind, payload = "bool", struct.pack("<d", float(cell.value))
    elif isinstance(cell, C.DurationCell):
        kind, payload = "duration", struct.pack("<d", float(cell.value.total_seconds()))
    elif isinstance(cell, C.EmptyCell):
        kind = "empty"
    elif isinstance(cell, C.MergedCell):
        kind = "merged"
    elif isinstance(cell, C.RichTextCell):
        kind = "rich"
    else:
        kind = "other"
    return "/".join((kind, enc_bytes(payload), common.enc_text(text), opti(getattr(cell, "_string_id", None)), ids_token(cell)))


def saved_objects(model, table_id):
    """the TST objects of one table, read out of a model (the document reopened from the saved file)."""
    tm = model.objects[table_id]
    bds = tm.base_data_store
    dl = model.objects[bds.stringTable.identifier]
    tiles = []
    for tref in bds.tiles.tiles:
        tile = model.objects[tref.tile.identifier]
        tiles.append((tref.tileid, tile.numrows, bool(tile.last_saved_in_BNC),
                      [(r.tile_row_index, r.cell_count, bytes(r.cell_offsets), bytes(r.cell_storage_buffer), bool(r.has_wide_offsets))
                       for r in tile.rowInfos]))
    return {"rows": tm.number_of_rows, "cols": tm.number_of_columns, "tile_size": bds.tiles.tile_size,
            "wide_rows": bool(bds.tiles.should_use_wide_rows), "next_list_id": dl.nextListID,
            "strings": [(e.key, e.refcount, e.string) for e in dl.entries], "tiles": tiles}


def save_request(table, wide_before: bool) -> str:
    """`table save` for the in-memory grid of a table (taken after the save: style ids are assigned by `_to_buffer`);
    `wide_before` is `should_use_wide_rows` before the save (the save only ever sets it)."""
    req = ["table", "save", str(int(wide_before)), str(len(table._data))]
    for row in table._data:
        req.append(str(len(row)))
        req += [tcell_token(c) for c in row]
    return " ".join(req)


def wide_rows_flag(model, table_id) -> bool:
    return bool(model.objects[table_id].base_data_store.tiles.should_use_wide_rows)


def saved_line(o) -> str:
    """canonical one-line form of the saved objects = the reply format of `table save`."""
    w = [str(o["rows"]), str(o["cols"]), str(o["tile_size"]), str(int(o["wide_rows"])), str(o["next_list_id"]),
         "S", str(len(o["strings"]))]
    w += [f"{k}:{rc}:{common.enc_text(s)}" for k, rc, s in o["strings"]]
    w += ["T", str(len(o["tiles"]))]
    for tid, numrows, bnc, rows in o["tiles"]:
        w.append(f"{tid}:{numrows}:{int(bnc)}:{len(rows)}")
        w += [f"{i}:{n}:{enc_bytes(off)}:{enc_bytes(st)}" for i, n, off, st, _ in rows]
    return "ok " + " ".join(w)


def load_request(o, merge_refs) -> str:
    w = ["table", "load", str(o["rows"]), str(o["cols"]), str(o["tile_size"]), "M", str(len(merge_refs))]
    w += [f"{r}:{c}" for r, c in merge_refs]
    w += ["S", str(len(o["strings"]))] + [f"{k}:{rc}:{common.enc_text(s)}" for k, rc, s in o["strings"]]
    w += ["T", str(len(o["tiles"]))]
    for tid, _numrows, bnc, rows in o["tiles"]:
        w.append(f"{tid}:{int(bnc)}:{len(rows)}")
        w += [f"{i}:{int(wide)}:{enc_bytes(off)}:{enc_bytes(st)}" for i, _n, off, st, wide in rows]
    return " ".join(w)


def optf(x):
    return "n" if x is None else repr(float(x))


LKIND = {"EmptyCell": "empty", "TextCell": "text", "DateCell": "date", "BoolCell": "bool", "DurationCell": "duration",
         "ErrorCell": "error", "RichTextCell": "rich", "BulletedTextCell": "rich"}


def lcell_impl(cell) -> str:
    """what `Table.__init__` left in `_data[row][col]` (class, interpreted payloads, `_string_id`, ids, `_extras`, `_flags`, text)."""
    from numbers_parser import cell as C
    if isinstance(cell, C.MergedCell):
        return "M"
    if isinstance(cell, C.NumberCell):
        kind = "currency" if cell._type == C.CellType.CURRENCY else "number"
    else:
        kind = LKIND.get(type(cell).__name__, type(cell).__name__)
    text = common.enc_text(cell.value) if isinstance(cell, C.TextCell) else "n"
    return "/".join((kind, optf(cell._d128), optf(cell._double), optf(cell._seconds), opti(cell._string_id), ids_token(cell),
                     str(cell._extras), str(cell._flags), text))


def lcell_model(tok: str) -> str:
    """the model's loaded cell with its raw payload bytes passed through the third-party steps the reader applies
    (`_unpack_decimal128` — tied to Model/Decimal128 in (i) — and struct '<d')."""
    from numbers_parser import cell as C
    if tok == "M":
        return tok
    f = tok.split("/")
    if len(f) != 9:
        return tok
    if f[1] != "n":
        f[1] = repr(float(C._unpack_decimal128(bytearray(bytes.fromhex(f[1])))))
    for i in (2, 3):
        if f[i] != "n":
            f[i] = repr(struct.unpack("<d", bytes.fromhex(f[i]))[0])
    return "/".join(f)


def grid_line_impl(table) -> str:
    w = [str(len(table._data))]
    for row in table._data:
        w.append(str(len(row)))
        w += [lcell_impl(c) for c in row]
    return "ok " + " ".join(w)


def grid_line_model(reply: str) -> str:
    if not reply.startswith("ok "):
        return reply
    w = reply[3:].split(" ")
    out, i = [w[0]], 1
    try:
        for _ in range(int(w[0])):
            n = int(w[i])
            out.append(w[i])
            out += [lcell_model(t) for t in w[i + 1:i + 1 + n]]
            i += 1 + n
    except (ValueError, IndexError):
        return reply
    return "ok " + " ".join(out)


def first_diff(a: str, b: str) -> str:
    wa, wb = a.split(" "), b.split(" ")
    for i, (x, y) in enumerate(zip(wa, wb)):
        if x != y:
            return f"word {i}: impl {x[:160]!r} vs model {y[:160]!r}"
    return f"lengths {len(wa)} vs {len(wb)} words"


def correspond_long(ctx: Ctx, name: str, requests, impl_out, fmap=None, describe=None):
    """`ctx.correspond` for very long lines: evidence keeps a description and digests, a disagreement keeps the first
    differing word; the model's reply may be mapped through assumed third-party steps (`fmap`)."""
    import hashlib
    sub = ctx.subspaces.setdefault(name, {"cases": 0, "exhaustive": False, "disagreements": 0})
    sub["cases"] += len(requests)
    ctx.evaluations += len(requests)
    for k, (r, o) in enumerate(zip(requests, impl_out)):
        ctx.histogram[name + ":" + o.split(" ", 1)[0]] += 1
        if k < 2:
            ctx.samples.append({"subspace": name, "request": (describe[k] if describe else r[:160]),
                                "impl": o[:200] + (f"... ({len(o)} chars, blake2b {hashlib.blake2b(o.encode(), digest_size=8).hexdigest()})" if len(o) > 200 else "")})
    if not ctx.model_available:
        sub["skipped_model"] = True
        return
    model_out = common.run_model(requests)
    for k, (r, a, b) in enumerate(zip(requests, impl_out, model_out)):
        b2 = fmap(b) if fmap else b
        if a != b2:
            sub["disagreements"] += 1
            if len(ctx.disagreements) < 50:
                ctx.disagreements.append({"subspace": name, "request": (describe[k] if describe else "") + " " + r[:300],
                                          "impl": a[:300], "model": b[:300], "first_difference": first_diff(a, b2)})


def pipeline_docs(ctx: Ctx):
    """(description, rows, cols, header rows/cols, writes, merges, styled, formatted)"""
    rng = ctx.rng
    docs = []

    def fill(nr, nc, density, kinds, dup=0.3, empty_rows=()):
        pool = [gen_value(rng, "str") for _ in range(5)]
        out = []
        for r in range(nr):
            if r in empty_rows:
                continue
            for c in range(nc):
                if rng.random() < density:
                    k = rng.choice(kinds)
                    v = rng.choice(pool) if k == "str" and rng.random() < dup else gen_value(rng, k)
                    if isinstance(v, str) and len(v) > 300:
                        v = v[:300]
                    out.append((r, c, v))
        return out

    docs.append(("1x1 text", 1, 1, fill(1, 1, 1.0, ("str",)), [], False))
    docs.append(("1x1 number", 1, 1, [(0, 0, 12)], [], False))
    for nr, nc in ((255, 2), (256, 2), (257, 3), (513, 2)):
        docs.append((f"{nr}x{nc} mixed, text duplicates, empty rows", nr, nc,
                     fill(nr, nc, 0.8, KINDS, empty_rows={1, 2, nr // 2, nr - 2}), [], False))
    docs.append(("3x256 wide", 3, 256, fill(3, 256, 0.7, KINDS), [], False))
    docs.append(("2x257 wide (> 256 columns)", 2, 257, fill(2, 257, 0.7, KINDS), [], False))
    docs.append(("12x8 merges + styles + formats", 12, 8, fill(12, 8, 0.9, KINDS), ["B2:C3", "E1:E4", "G6:H6"], True))
    docs.append(("300x4 only the last row written", 300, 4, [(299, 3, "end"), (299, 0, "end")], [], False))
    docs.append(("20x5 all text, heavy duplication", 20, 5, fill(20, 5, 1.0, ("str",), dup=0.9), ["A2:A3"], False))
    for _ in range(3 if ctx.quick else 12):
        nr, nc = rng.randint(1, 300), rng.randint(1, 20)
        merges = []
        if nr >= 4 and nc >= 3 and rng.random() < 0.7:
            r0, c0 = rng.randrange(nr - 2), rng.randrange(nc - 1)
            merges.append(f"{chr(65 + c0)}{r0 + 1}:{chr(65 + c0 + 1)}{r0 + 2}")
        docs.append((f"{nr}x{nc} seeded", nr, nc, fill(nr, nc, rng.choice((0.2, 0.6, 1.0)), KINDS,
                                                        empty_rows={rng.randrange(nr)}), merges, rng.random() < 0.5))
    if not ctx.quick:
        docs.append(("1025x3", 1025, 3, fill(1025, 3, 0.8, KINDS), [], False))
        docs.append(("5x1000", 5, 1000, fill(5, 1000, 0.6, KINDS), [], False))
        docs.append(("513x257", 513, 257, fill(513, 257, 0.3, KINDS), ["B2:C3"], False))
    return docs


PERTURBATIONS = ("drop-row-info", "more-rows-and-columns", "fewer-columns", "blank-record", "pre-bnc-tile", "drop-string",
                 "tile-size-0", "reverse-row-infos")


def perturbed_loads(ctx: Ctx, path: str, desc: str, req, out, dsc):
    """read-path arms the API-built files never reach (rows without a row-info, positions beyond the stored columns →
    `Cell._empty_cell`; a string key without an entry → ''; `tile_size` 0; a tile not `last_saved_in_BNC`): load the saved
    file into a fresh model, edit the TST objects in the object store, run the real `Table.__init__`, and give the very
    same objects to the model's `loadTable`."""
    from array import array
    from pathlib import Path

    from numbers_parser.document import Table
    from numbers_parser.model import _NumbersModel
    rng = ctx.rng
    for kind in PERTURBATIONS:
        with warnings.catch_warnings():
            warnings.simplefilter("ignore")
            m = _NumbersModel(Path(path))
            tid = m.table_ids()[0]
            tm = m.objects[tid]
            bds = tm.base_data_store
            tiles = [m.objects[t.tile.identifier] for t in bds.tiles.tiles]
            dl = m.objects[bds.stringTable.identifier]
            if kind == "drop-row-info":
                tile = rng.choice(tiles)
                if len(tile.rowInfos) == 0:
                    continue
                del tile.rowInfos[rng.randrange(len(tile.rowInfos))]
            elif kind == "more-rows-and-columns":
                tm.number_of_rows += 2
                tm.number_of_columns += 2
            elif kind == "fewer-columns":
                if tm.number_of_columns < 2:
                    continue
                tm.number_of_columns -= 1
            elif kind == "blank-record":
                cands = [(r, i) for t in tiles for r in t.rowInfos for i, o in enumerate(array("h", r.cell_offsets)) if o >= 0]
                if not cands:
                    continue
                r, i = rng.choice(cands)
                offs = array("h", r.cell_offsets)
                offs[i] = -1
                r.cell_offsets = offs.tobytes()
            elif kind == "pre-bnc-tile":
                tiles[-1].last_saved_in_BNC = False
            elif kind == "drop-string":
                if len(dl.entries) == 0:
                    continue
                del dl.entries[rng.randrange(len(dl.entries))]
            elif kind == "tile-size-0":
                bds.tiles.tile_size = 0
            elif kind == "reverse-row-infos":
                tile = tiles[0]
                infos = [type(r).FromString(r.SerializeToString()) for r in tile.rowInfos]
                del tile.rowInfos[:]
                tile.rowInfos.extend(reversed(infos))
            objs = saved_objects(m, tid)
            mc = m.merge_cells(tid)
            refs = sorted(rc for rc in mc._references if mc.is_merge_reference(rc))
            req.append(load_request(objs, refs))
            dsc.append(f"table load <{desc}: saved TST objects after '{kind}'>")
            try:
                out.append(grid_line_impl(Table(m, tid)))
            except Exception as e:  # noqa: BLE001
                out.append("err " + exc_name(e))
            ctx.mark(("pipeline-perturbed", desc, kind))


def build_pipeline_doc(spec):
    """the document a pipeline spec describes (deterministic: used by the run and by `replay`)."""
    import numbers_parser
    nr, nc = spec["rows"], spec["cols"]
    doc = numbers_parser.Document(num_rows=nr, num_cols=nc, num_header_rows=min(1, nr - 1) if nr > 1 else 0,
                                  num_header_cols=min(1, nc - 1) if nc > 1 else 0)
    table = doc.sheets[0].tables[0]
    style = doc.add_style(name="c01 pipeline", bold=True, bg_color=numbers_parser.RGB(10, 20, 30)) if spec["styled"] else None
    for r, c, jv, styled, places in spec["writes"]:
        v = unj(jv)
        if styled:
            table.write(r, c, v, style=style)
        else:
            table.write(r, c, v)
        if places is not None:
            table.set_cell_formatting(r, c, "number", decimal_places=places)
    for m in spec["merges"]:
        table.merge_cells(m)
    return doc, table


def check_pipeline(ctx: Ctx):
    import numbers_parser
    rng = ctx.rng
    req_s, out_s, dsc_s, req_l, out_l, dsc_l, req_p, out_p, dsc_p = [], [], [], [], [], [], [], [], []
    for desc, nr, nc, writes, merges, styled in pipeline_docs(ctx):
        with warnings.catch_warnings():
            warnings.simplefilter("ignore")
            spec = {"pipeline": True, "desc": desc, "rows": nr, "cols": nc, "merges": merges, "styled": styled, "writes": []}
            written = {}
            for r, c, v in writes:
                if isinstance(v, str) and len(v) > 64:
                    v = v[:64]
                num = isinstance(v, (int, float)) and not isinstance(v, bool)
                spec["writes"].append([r, c, jvalue(v), bool(styled and rng.random() < 0.2),
                                       rng.randint(0, 4) if styled and num and rng.random() < 0.3 else None])
                written[(r, c)] = v
            inp = spec
            doc, table = build_pipeline_doc(spec)
            d = tempfile.mkdtemp(prefix="c01p-")
            wide_before = wide_rows_flag(doc._model, table._table_id)
            try:
                try:
                    path = os.path.join(d, "t.numbers")
                    doc.save(path)                      # -> recalculate_table_data for every table
                    doc2 = numbers_parser.Document(path)
                    t2 = doc2.sheets[0].tables[0]       # -> Table.__init__
                except Exception as e:  # noqa: BLE001
                    ctx.violation("save-reopen-raises", f"save/reopen of '{desc}' raised {exc_name(e)}: {e}", inp)
                    continue
                if nr * nc <= 2000:
                    perturbed_loads(ctx, path, desc, req_p, out_p, dsc_p)
            finally:
                shutil.rmtree(d, ignore_errors=True)
            # the model's input: the in-memory grid as it is after the save (style ids assigned by `_to_buffer`)
            req = save_request(table, wide_before)
            objs = saved_objects(doc2._model, t2._table_id)      # read back from the file with the library's IWA reader
            req_s.append(req)
            out_s.append(saved_line(objs))
            dsc_s.append(f"table save <{desc}: in-memory grid of {nr}x{nc} cells after Document.save>")
            mc = doc2._model.merge_cells(t2._table_id)
            refs = sorted(rc for rc in mc._references if mc.is_merge_reference(rc))
            req_l.append(load_request(objs, refs))
            out_l.append(grid_line_impl(t2))
            dsc_l.append(f"table load <{desc}: TST objects of the saved file, {len(refs)} merge references>")
            ctx.mark(("pipeline", desc, nr, nc, len(writes)))
            # the property itself on this document (independent of the model)
            if (t2.num_rows, t2.num_cols) != (nr, nc):
                ctx.violation("reopened-table-shape", f"'{desc}': reopened table is {t2.num_rows}x{t2.num_cols}, expected {nr}x{nc}", inp)
                continue
            merged_refs = set(refs)
            n = 0
            for (r, c), v in written.items():
                if (r, c) in merged_refs:
                    continue
                n += 1
                why = same_value(v, t2.cell(r, c))
                if why:
                    ctx.violation(f"{jvalue(v)['type']}-not-read-back-exactly",
                                  f"'{desc}': wrote {v!r:.120} at ({r},{c}); after save/reopen: {why}",
                                  {"row": r, "col": c, "expected": jvalue(v), "pipeline_spec": spec})
            for r in range(nr):
                for c in range(nc):
                    if (r, c) in written:
                        continue
                    cls = type(t2.cell(r, c)).__name__
                    want = "MergedCell" if (r, c) in merged_refs else "EmptyCell"
                    if cls != want:
                        ctx.violation("unwritten-cell-not-empty", f"'{desc}': cell({r},{c}) never written, reopened as {cls}, expected {want}",
                                      {"row": r, "col": c, "expected": None, "pipeline_spec": spec})
            ctx.count("whole table: cells of API-built documents saved, reopened, compared exactly", n)
    correspond_long(ctx, "recalculate_table_data (via Document.save; objects read back from the saved file) vs saveTable",
                    req_s, out_s, describe=dsc_s)
    correspond_long(ctx, "Table.__init__ on the saved file vs loadTable on the same TST objects",
                    req_l, out_l, fmap=grid_line_model, describe=dsc_l)
    correspond_long(ctx, "Table.__init__ vs loadTable on saved objects edited in the store (missing row-infos / records / "
                         "strings, larger declared size, tile_size 0, pre-BNC tile)", req_p, out_p, fmap=grid_line_model, describe=dsc_p)


def run(ctx: Ctx):
    seen, orig = limited_violations(ctx)
    try:
        check_decimal128(ctx)
        common.python_operator_stream(ctx)
        check_rows(ctx)
        check_documents(ctx)
        check_pipeline(ctx)
    finally:
        ctx.violation = orig
        ctx.extra["oracle_failures_by_signature"] = dict(seen)


def replay(data):
    import numbers_parser
    from numbers_parser import cell as C
    inp = data.get("input", {})
    res = {}
    spec = inp.get("pipeline_spec") or (inp if inp.get("pipeline") else None)
    if spec:                                                       # a whole API-built document of check_pipeline
        with warnings.catch_warnings():
            warnings.simplefilter("ignore")
            doc, _ = build_pipeline_doc(spec)
            try:
                t2 = save_reopen(doc).sheets[0].tables[0]
            except Exception as e:  # noqa: BLE001
                return {"document": spec["desc"], "save_reopen_raises": exc_name(e) + ": " + str(e)[:200]}
            res = {"document": spec["desc"], "reopened_shape": [t2.num_rows, t2.num_cols]}
            if "row" in inp:
                cell = t2.cell(inp["row"], inp["col"])
                res.update({"cell": [inp["row"], inp["col"]], "read_class": type(cell).__name__, "read_value": repr(cell.value)[:200],
                            "expected": inp.get("expected")})
                if inp.get("expected") is not None:
                    res["equal"] = same_value(unj(inp["expected"]), cell) is None
        return res
    if "value" in inp and isinstance(inp["value"], str):          # component-level number
        v = int(inp["value"]) if inp.get("type") == "int" else float(inp["value"])
        b = bytes(C._pack_decimal128(v))
        res["_pack_decimal128"] = b.hex()
        res["_unpack_decimal128"] = repr(C._unpack_decimal128(bytearray(b)))
        res["written"] = repr(v)
        return res
    if "value" in inp:
        v = unj(inp["value"])
        with warnings.catch_warnings():
            warnings.simplefilter("ignore")
            doc = numbers_parser.Document()
            doc.sheets[0].tables[0].write(inp["row"], inp["col"], v)
            cell = save_reopen(doc).sheets[0].tables[0].cell(inp["row"], inp["col"])
        res = {"written": repr(v)[:200], "read_class": type(cell).__name__, "read_value": repr(cell.value)[:200],
               "equal": same_value(v, cell) is None}
    return res
