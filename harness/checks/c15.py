"""C15 — Styles and borders applied through the API read back equal, now and after reload."""
from __future__ import annotations

import json
import os
import tempfile
import warnings
import zlib

import common
from common import REPO, Ctx, enc_text, exc_name

PID = "C15"
PROPS_MODULE = "NumbersModel.Props.C15"
THEOREMS = [f"NumbersModel.Props.C15.{t}" for t in (
    "open_view_lww", "open_view_lww_from", "saved_view_lww", "open_eq_saved", "load_establishes_inv", "shared_edge_both_sides",
    "api_total_in_range", "open_view_lww_edits", "saved_view_lww_edits", "open_view_lww_edits_from", "open_eq_saved_edits",
    "shared_edge_both_sides_edits", "edits_keep_inv", "edits_total_in_range", "fingerprint_injective", "dedup_shares_only_equal", "reading_is_pure",
    "colour_roundtrip", "colour_roundtrip_binary32", "font_name_roundtrip", "style_attributes_after_reload_quantized",
    "style_attributes_after_reload", "style_attributes_after_reload_binary32", "updated_style_reads_back",
    "shared_cell_style_reads_back", "style_archives_injective", "saved_cell_style_ids", "restyled_cell_reads_back")]
PARTIAL = {
    "border_edits_not_covered": "the *_edits theorems quantify over histories of set_cell_border, Table.write, merge_cells and add_row(n) / "
                                "add_column(n) WITHOUT a start index (appended). Not covered, no model step: rows / columns inserted before "
                                "the end and delete_row / delete_column (the stroke layers are indexed by row / column number and are not "
                                "renumbered by these edits, while the open cells move with their borders - what the saved file should say "
                                "is a design decision; not generated), write onto a placeholder of a merged rectangle (the new cell is no "
                                "MergedCell: property C12), merge_cells over an existing merged rectangle (Border.mergeKind is the merge map "
                                "only for rectangles that do not overlap earlier ones; the theorems hold for the model's layout anyway)",
    "document_level_save_loop": "style_attributes_after_reload is proved per cell from the archives the writers produce and the ids "
                                "_to_buffer assigns (restyled_cell_reads_back, shared_cell_style_reads_back, saved_cell_style_ids); "
                                "the loops around them - update_paragraph_styles over Document.styles, update_cell_styles' dict loop "
                                "allocating object ids with create_object_from_dict, Style objects shared by reference between cells - "
                                "are not composed into one theorem over a whole save (missing: store/heap invariants: fresh object ids, "
                                "objects written earlier are not overwritten, image table only grows). The existing dedup theorems "
                                "cover the grouping; the composition is exercised by the storage tie and the oracle"}
RULE = ("borders: seeded histories of 4..40 strokes (side, start cell, length 1..6, payload from a palette of widths x colours x "
        "4 patterns; biased to a few rows/columns so that strokes overlap, abut and supersede; Border objects partly re-used) on "
        "5x5..12x8 tables with 0..3 merged rectangles, cut into 1..3 segments by save/reopen; one protocol line per segment "
        "(initial layers are read from the real file). editing histories: 4x4..9x7 tables (0..3 merged rectangles, loaded or not), "
        "1..3 segments of 3..14 steps out of {stroke (as above, biased to the last row / column and running past it), write of a "
        "str/int/float/bool to a cell that is not a placeholder, merge_cells of a rectangle disjoint from the merged ones, add_row(1..2), "
        "add_column(1..2), a border read in between}, save/reopen between segments; oracle = an edge map kept by the harness over the "
        "final shape and merges; non-trivial = at least three kinds of step incl. a stroke. merge_cells inside / touching / leaving a "
        "4x4 table after two strokes (15 rectangles, IndexError). styles: N styles x M cells over fonts x sizes x RGB x 5x3 alignments x "
        "indents x inset x wrap x bg colour/image. Non-trivial = a segment with at least two strokes sharing a unit edge, or a "
        "style case with at least two distinct styles; distinct by protocol line / style set. storage tie: 1..3 styles with all 15 "
        "attributes explicit (colour components from 0/1/127/128/254/255, the 15 alignment pairs in rotation, fonts from "
        "FONT_FAMILY_TO_NAME, sizes/indents incl. values binary32 cannot hold, colour / image / no fill) applied to cells of a new "
        "document or of a fixture, saved; archives decoded from the package with protobuf; then attributes (also the name) of a saved "
        "style changed and saved again; plus every cell (capped 14x10 per table) of the fixture documents read through "
        "Style.from_storage; plus exhaustive tables (alignment names, 188 font families, channel values 0..255)")
ASSUMPTIONS = [
    "a stroke payload (width, colour, pattern) is an opaque number in the model; that the payload itself survives protobuf "
    "(float32 width read back with round(.,2), colour as round(r/255*255)) is exercised for every stroke, not proved",
    "Border objects re-used by the caller are re-stamped by add_stroke; after the repair every comparison in a CellBorder setter "
    "involves a fresh maximal stamp, so the alias is not modelled (generator re-uses objects to exercise it)",
    "Table.write / merge_cells / add_row / add_column are modelled on the borders only (Border.Step): which CellBorder objects are "
    "fresh, which are kept, when the extract_strokes cache entry is dropped and the extraction runs again; the merge map after "
    "merge_cells is Border.mergeKind (property C12 is about that map); values, styles, formats of the cells are not in this model",
    "stored layers of a loaded file satisfy: max_order >= every run order; runs of equal order that cover the same edge carry the "
    "same stroke (checked on every fixture table the run touches)",
    "style floats are drawn from binary32-representable values (file-format limit, known finding style-float-not-binary32)",
    "image file names are unique per document (Document.add_style refuses a second image of the same name)",
    "protobuf: a float field holds the binary32 nearest (ties to even) to the Python float assigned, HasField is true exactly for "
    "members that were assigned / parsed, an unset member reads as its descriptor default (regenerated constants); Python float "
    "division / product are correctly rounded binary64 and round() is half-even - modelled as Num.ieee over the rationals and tied "
    "by exact comparison of every stored float (as a fraction) with the model's; the theorems take the roundings as a parameter",
    "style storage: super.style_identifier, override_count, the constant colour members (model, a, rgbspace) and the image-fill "
    "technique are not in the model's records (never read back); the model's image table is the images interned in the session "
    "(_images) - existing `datas` entries matter only for reading",
]
MANIFEST = {
    "text": "Core proved, glue assumed. Lean theorems over a model of CellBorder setters/_order stamps, cell_for_stroke, "
            "set_cell_border, add_stroke run patching (overwrite/head/tail/middle/append/sort), extract_strokes and "
            "Table.set_cell_border: for every table shape (incl. merged cells), every starting file whose layers are well-formed "
            "and every sequence of strokes, the open document shows on each visible cell side the most recent stroke along that "
            "edge (open_view_lww), what extract_strokes reads from the stored layers is the same (saved_view_lww, open_eq_saved), "
            "both cells adjacent to an edge report the same stroke (shared_edge_both_sides). Editing histories (Border.Doc / Border.Step, "
            "repaired code): Table.write keeps the border object of the cell it replaces, merge_cells (fresh CellBorder for every cell) "
            "and add_row / add_column without start index (fresh cells) drop the extract_strokes cache entry and the extraction runs "
            "again onto the cells as they are; for every history interleaving strokes with these edits, from a new document or any "
            "well-formed file: open view = edge map of the accepted strokes on the final table shape (open_view_lww_edits[_from]), "
            "= what a reopened copy shows (saved_view_lww_edits, open_eq_saved_edits), both cells on an edge agree "
            "(shared_edge_both_sides_edits), the stroke-history invariant holds again after the edits (edits_keep_inv), in-range "
            "histories do not raise (edits_total_in_range). The style de-duplication key is "
            "injective (fingerprint_injective, dedup_shares_only_equal) and a style that was only read is not written "
            "(reading_is_pure). Style storage path (Model/StyleStore.lean): paragraph-style and cell-style archive records, "
            "add_paragraph_style / update_paragraph_style / add_cell_style, the readers with their one-level parent look-up and "
            "protobuf defaults, rgb(), Alignment name maps, create_font_name_map, Style.from_storage, the style ids of _to_buffer. "
            "For every style with colour components 0..255, enum alignments and one fill, a cell pointed at the archives written "
            "for it reads back exactly that style, attribute by attribute, floats as binary32 holds them (style_attributes_after_"
            "reload[_quantized|_binary32], updated_style_reads_back, restyled_cell_reads_back); archives of different styles differ "
            "(style_archives_injective); sharing a cell archive through the fingerprint is sound (shared_cell_style_reads_back); "
            "cells without a style object keep their ids (saved_cell_style_ids); round(f32(c/255)*255) = c for 0..255 under a "
            "2^-24 relative-error hypothesis over the rationals (colour_roundtrip) and for correctly rounded binary32/64 "
            "(colour_roundtrip_binary32); the font map is inverted by the reader (font_name_roundtrip). Partial: the composition of "
            "these per-cell facts over the whole save loop (object-id allocation, Style objects shared by reference); border "
            "histories with rows / columns inserted before the end or deleted, writes onto merged placeholders and overlapping "
            "merges are not covered.",
    "note": "stroke payloads are opaque (their protobuf glue is exercised, not proved); style archives are tied field by field to "
            "the saved package decoded with protobuf, every float compared as an exact fraction. The pinned commit violated the property "
            "(second stroke ignored in memory, fingerprint collision, style read marks dirty -> gradient save crash); repaired "
            "by fixes/C15-*.patch; the model mirrors the repaired code and keeps the pinned variants as counter-examples. Borders lost by "
            "the open document when cells are re-created (write, merge_cells, add_row / add_column next to or under a stroke) were "
            "recorded findings and are now repaired (fixes/C15-write-keeps-border.patch, fixes/C15-borders-refreshed-after-cell-"
            "recreation.patch); Doc.stepPinned keeps the pinned behaviour for the three counter-examples.",
    "technique": "Lean 4 proof (invariant over stroke histories, refinement to a last-writer-wins edge map) + differential "
                 "correspondence on seeded stroke histories and style sets + API-level oracle",
}

SIDES = ["top", "right", "bottom", "left"]
WIDTHS = [0.35, 1.0, 2.0, 3.0, 3.5, 4.0, 8.0, 0.25, 12.5]
STYLES = ["solid", "dashes", "dots", "none"]


def cycle(doc):
    from numbers_parser import Document
    fd, path = tempfile.mkstemp(suffix=".numbers")
    os.close(fd)
    try:
        doc.save(path)
        return Document(path)
    finally:
        os.unlink(path)


# ---------------------------------------------------------------------------------------------
# borders
# ---------------------------------------------------------------------------------------------

class Palette:
    """payload (width, colour, style) <-> number used on the protocol line."""

    def __init__(self):
        self.ids: dict = {}

    def of(self, width, color, style) -> int:
        key = (float(width), tuple(int(x) for x in color), int(style))
        if key not in self.ids:
            self.ids[key] = len(self.ids) + 1
        return self.ids[key]

    def of_border(self, b):
        return None if b is None else self.of(b.width, b.color, b.style)

    def describe(self, n):
        for k, v in self.ids.items():
            if v == n:
                return list(k)
        return None


def grid_view(tb, pal: Palette):
    """what the API reports: per cell (top, right, bottom, left) payload numbers or None."""
    out = []
    for r in range(tb.num_rows):
        row = []
        for c in range(tb.num_cols):
            b = tb.cell(r, c).border
            row.append(tuple(pal.of_border(x) for x in (b.top, b.right, b.bottom, b.left)))
        out.append(row)
    return out


def show_grid(g) -> str:
    return " ".join(".".join("-" if x is None else str(x) for x in cell) for row in g for cell in row)


def read_layers(doc, tb, pal: Palette):
    """the stored stroke layers of a table as protocol words + well-formedness facts."""
    m = doc._model
    sc = m.objects[m.objects[tb._table_id].stroke_sidecar.identifier]
    words, facts = [], {"max_order": sc.max_order, "max_run_order": 0, "runs": 0}
    for fam in (sc.top_row_stroke_layers, sc.left_column_stroke_layers, sc.right_column_stroke_layers,
                sc.bottom_row_stroke_layers):
        words.append(str(len(fam)))
        for ref in fam:
            layer = m.objects[ref.identifier]
            words += [str(layer.row_column_index), str(len(layer.stroke_runs))]
            for run in layer.stroke_runs:
                from numbers_parser.cell import BORDER_STYLE_MAP
                from numbers_parser.model import rgb
                p = pal.of(round(run.stroke.width, 2), rgb(run.stroke.color), BORDER_STYLE_MAP[m.stroke_type(run)])
                words += [str(run.origin), str(run.length), str(run.order), str(p)]
                facts["max_run_order"] = max(facts["max_run_order"], run.order)
                facts["runs"] += 1
    return sc.max_order, words, facts


def merge_words(merges):
    return [str(len(merges))] + [str(x) for m in merges for x in m]


def interior(merges, r, c, side):
    """is this side of cell (r, c) inside a merged rectangle (shared with a cell of the same rectangle)?"""
    dr, dc = {"top": (-1, 0), "bottom": (1, 0), "left": (0, -1), "right": (0, 1)}[side]
    for (rs, cs, re, ce) in merges:
        if rs <= r <= re and cs <= c <= ce and rs <= r + dr <= re and cs <= c + dc <= ce:
            return True
    return False


def edge_of(side, r, c):
    return {"top": ("h", r, c), "bottom": ("h", r + 1, c), "left": ("v", r, c), "right": ("v", r, c + 1)}[side]


def stroke_edges(side, r, c, n):
    if side in ("top", "bottom"):
        return [edge_of(side, r, c + i) for i in range(n)]
    return [edge_of(side, r + i, c) for i in range(n)]


def expected_grid(nr, nc, merges, edge_map):
    return [[tuple(None if interior(merges, r, c, s) else edge_map.get(edge_of(s, r, c)) for s in SIDES)
             for c in range(nc)] for r in range(nr)]


def diff_cells(a, b, limit=4):
    out = []
    for r, (ra, rb) in enumerate(zip(a, b)):
        for c, (x, y) in enumerate(zip(ra, rb)):
            if x != y:
                out.append([r, c, list(x), list(y)])
                if len(out) >= limit:
                    return out
    return out


def gen_merges(rng, nr, nc):
    merges = []
    for _ in range(rng.choice([0, 0, 1, 2, 3])):
        for _try in range(8):
            h, w = rng.choice([(1, 2), (2, 1), (2, 2), (1, 3), (3, 2), (2, 3)])
            rs, cs = rng.randrange(0, nr - h + 1), rng.randrange(0, nc - w + 1)
            m = (rs, cs, rs + h - 1, cs + w - 1)
            if all(m[2] < o[0] or o[2] < m[0] or m[3] < o[1] or o[3] < m[1] for o in merges):
                merges.append(m)
                break
    return merges


def gen_ops(rng, nr, nc, n, palette_specs):
    """strokes concentrated on a few lines so that they overlap / abut / supersede."""
    hot_rows = [rng.randrange(nr) for _ in range(2)]
    hot_cols = [rng.randrange(nc) for _ in range(2)]
    ops = []
    for _ in range(n):
        side = rng.choice(SIDES)
        r = rng.choice(hot_rows) if rng.random() < 0.7 else rng.randrange(nr)
        c = rng.choice(hot_cols) if rng.random() < 0.7 else rng.randrange(nc)
        if rng.random() < 0.3:  # same physical line from the other side
            if side == "top" and r > 0 and rng.random() < 0.5:
                side, r = "bottom", r - 1
            elif side == "left" and c > 0 and rng.random() < 0.5:
                side, c = "right", c - 1
        ops.append((side, r, c, rng.randint(1, 6), rng.randrange(len(palette_specs))))
    return ops


def border_history(sub: Ctx, seed: int, h: int, pinned_mode: bool = False):
    """one history = one document, 1..3 segments separated by save/reopen. Returns protocol (line, reply) pairs."""
    from numbers_parser import RGB, Border, Document
    rng = sub.rng
    nr, nc = rng.randint(5, 12), rng.randint(5, 8)
    merges = gen_merges(rng, nr, nc)
    doc = Document(num_rows=nr, num_cols=nc, num_header_rows=rng.choice([0, 1]), num_header_cols=rng.choice([0, 1]))
    tb = doc.sheets[0].tables[0]
    from numbers_parser.xrefs import xl_range
    for m in merges:
        tb.merge_cells(xl_range(*m))
    if merges:  # placeholders of merged cells are only complete in a loaded document (property C12)
        doc = cycle(doc)
        tb = doc.sheets[0].tables[0]
    specs = [(rng.choice(WIDTHS), (rng.randrange(256), rng.randrange(256), rng.randrange(256)), rng.choice(STYLES))
             for _ in range(rng.randint(2, 6))]
    objs: dict = {}
    pal = Palette()
    edge_map: dict = {}
    nseg = rng.choice([1, 1, 2, 3])
    lines = []
    log = []
    where = {"seed": seed, "history": h, "rows": nr, "cols": nc, "merges": [list(m) for m in merges]}
    for seg in range(nseg):
        max_order, layer_words, facts = read_layers(doc, tb, pal)
        ops = gen_ops(rng, nr, nc, rng.randint(2, 14), specs)
        words = []
        for (side, r, c, n, k) in ops:
            w, col, sty = specs[k]
            if k in objs and rng.random() < 0.3:
                b = objs[k]  # re-use the caller's Border object
            else:
                b = objs[k] = Border(w, RGB(*col), sty)
            pid = pal.of(b.width, b.color, b.style)
            with warnings.catch_warnings(record=True) as caught:
                warnings.simplefilter("always")
                tb.set_cell_border(r, c, side, b, n)
            refused = any(issubclass(x.category, RuntimeWarning) for x in caught)
            log.append([side, r, c, n, [w, list(col), sty]])
            words += [str(SIDES.index(side)), str(r), str(c), str(n), str(pid)]
            if not refused:
                for e in stroke_edges(side, r, c, n):
                    edge_map[e] = pid
        open_view = grid_view(tb, pal)
        doc = cycle(doc)
        tb = doc.sheets[0].tables[0]
        saved_view = grid_view(tb, pal)
        mode = "pinned" if pinned_mode else "hist"
        line = " ".join(["border", mode, str(nr), str(nc), str(max_order)] + merge_words(merges) + layer_words
                        + [str(len(ops))] + words)
        lines.append((line, "ok " + show_grid(open_view) + " | " + show_grid(saved_view)))
        # ---- the property itself, independent of the model
        inp = {**where, "segment": seg, "strokes": list(log)}
        want = expected_grid(nr, nc, merges, edge_map)
        sub.count("border segments: open view / reloaded view vs last-writer-wins edge map", 1)
        shared = len({e for op in ops for e in stroke_edges(op[0], op[1], op[2], op[3])}) < sum(op[3] for op in ops)
        if shared:
            sub.mark(line)
        if facts["max_run_order"] > facts["max_order"]:
            sub.violation("stored-max-order-below-run-order", f"layers read back with max_order {facts['max_order']} < run order "
                          f"{facts['max_run_order']}", inp)
        d = diff_cells(open_view, want)
        if d:
            sub.violation("border-open-not-most-recent",
                          "open document: cell border differs from the most recent stroke along the edge; "
                          f"[row, col, reported(t,r,b,l), expected]: {describe(d, pal)}", inp)
        d = diff_cells(saved_view, want)
        if d:
            sub.violation("border-reloaded-not-most-recent",
                          "after save and reopen: cell border differs from the most recent stroke along the edge; "
                          f"[row, col, reported(t,r,b,l), expected]: {describe(d, pal)}", inp)
        d = diff_cells(open_view, saved_view)
        if d:
            sub.violation("border-open-differs-from-reloaded",
                          f"open document and reloaded file disagree; [row, col, open, reloaded]: {describe(d, pal)}", inp)
    if h < 3:
        sub.sample({"kind": "border history", **where, "strokes": log[:8]})
    return lines


def sibling_border_history(sub: Ctx, seed: int, h: int):
    """strokes interleaved on two or three tables of ONE document (a second table on the first sheet, a table on a second
    sheet), on the same sides and the same row / column numbers: every table reports exactly its own strokes, on the open
    document and after save + reopen (oracle only: the model's histories are one table each)."""
    from numbers_parser import RGB, Border, Document
    rng = sub.rng
    shapes = [(rng.randint(4, 7), rng.randint(4, 6)) for _ in range(rng.choice([2, 2, 3]))]
    doc = Document(num_rows=shapes[0][0], num_cols=shapes[0][1], num_header_rows=0, num_header_cols=0)
    doc.sheets[0].add_table("Second", num_rows=shapes[1][0], num_cols=shapes[1][1], num_header_rows=0, num_header_cols=0)
    if len(shapes) == 3:
        doc.add_sheet("Other", "Third", num_rows=shapes[2][0], num_cols=shapes[2][1])
        doc.sheets[1].tables[0].num_header_rows = 0
        doc.sheets[1].tables[0].num_header_cols = 0

    def tables(d):
        return [d.sheets[0].tables[0], d.sheets[0].tables[1]] + ([d.sheets[1].tables[0]] if len(shapes) == 3 else [])
    specs = [(rng.choice(WIDTHS), (rng.randrange(256), rng.randrange(256), rng.randrange(256)), rng.choice(STYLES))
             for _ in range(rng.randint(2, 5))]
    pal = Palette()
    edge_maps = [dict() for _ in shapes]
    log = []
    where = {"seed": seed, "history": h, "tables": [list(x) for x in shapes]}
    for seg in range(rng.choice([1, 2])):
        tbs = tables(doc)
        # the same (side, row, column, length) is drawn on several tables with different strokes: same side, same number
        for _ in range(rng.randint(2, 6)):
            side = rng.choice(SIDES)
            r, c = rng.randrange(min(x[0] for x in shapes)), rng.randrange(min(x[1] for x in shapes))
            order = list(range(len(shapes)))
            rng.shuffle(order)
            for ti in order[: rng.randint(1, len(shapes))]:
                k = rng.randrange(len(specs))
                w, col, sty = specs[k]
                b = Border(w, RGB(*col), sty)
                pid = pal.of(b.width, b.color, b.style)
                with warnings.catch_warnings(record=True) as caught:
                    warnings.simplefilter("always")
                    tbs[ti].set_cell_border(r, c, side, b, 1)
                log.append([ti, side, r, c, [w, list(col), sty]])
                if not any(issubclass(x.category, RuntimeWarning) for x in caught):
                    for e in stroke_edges(side, r, c, 1):
                        edge_maps[ti][e] = pid
        inp = {**where, "segment": seg, "strokes": list(log)}
        opens = [grid_view(t, pal) for t in tbs]
        doc = cycle(doc)
        saved = [grid_view(t, pal) for t in tables(doc)]
        sub.count("strokes interleaved on several tables of one document: every table's open / reloaded view vs its own edge map", 1)
        sub.mark(("sibling-borders", seed, h, seg))
        for ti, (nr, nc) in enumerate(shapes):
            want = expected_grid(nr, nc, [], edge_maps[ti])
            for view, sig, label in ((opens[ti], "border-open-not-most-recent", "open document"),
                                     (saved[ti], "border-reloaded-not-most-recent", "after save and reopen")):
                d = diff_cells(view, want)
                if d:
                    sub.violation(sig, f"{label}, table #{ti} of {len(shapes)} tables drawn on in turn: cell border differs from "
                                  f"the strokes drawn on THAT table; [row, col, reported(t,r,b,l), expected]: {describe(d, pal)}", inp)
    return []
# ---- editing histories: strokes interleaved with write / merge_cells / add_row / add_column --------------------------------

WRITE_VALUES = ["x", 7, 2.5, True, "", "long text"]


def in_placeholder(merges, r, c):
    return any(m[0] <= r <= m[2] and m[1] <= c <= m[3] and (r, c) != (m[0], m[1]) for m in merges)


def gen_edit(rng, nr, nc, merges, hot, specs):
    """one step of an editing history for a table that is nr x nc with the merged rectangles `merges` right now."""
    k = rng.random()
    if k < 0.52:
        side = rng.choice(SIDES)
        # hot lines near the last row / column so that strokes lie on (and run past) the edges rows / columns are appended to
        r = min(rng.choice(hot[0]), nr - 1) if rng.random() < 0.6 else rng.randrange(nr)
        c = min(rng.choice(hot[1]), nc - 1) if rng.random() < 0.6 else rng.randrange(nc)
        if rng.random() < 0.25:
            r = nr - 1 if rng.random() < 0.5 else r
            c = nc - 1 if rng.random() < 0.5 else c
        return ["stroke", side, r, c, rng.randint(1, 6), rng.randrange(len(specs))]
    if k < 0.68:
        for _ in range(8):
            r, c = rng.randrange(nr), rng.randrange(nc)
            if not in_placeholder(merges, r, c):     # a value written onto a placeholder is property C12's business
                return ["write", r, c, rng.choice(WRITE_VALUES)]
        return ["read", rng.randrange(nr), rng.randrange(nc)]
    if k < 0.80:
        for _ in range(8):
            h, w = rng.choice([(1, 2), (2, 1), (2, 2), (1, 3), (3, 2), (2, 3), (3, 1)])
            if h > nr or w > nc:
                continue
            rs, cs = rng.randrange(0, nr - h + 1), rng.randrange(0, nc - w + 1)
            m = (rs, cs, rs + h - 1, cs + w - 1)
            if all(m[2] < o[0] or o[2] < m[0] or m[3] < o[1] or o[3] < m[1] for o in merges):
                return ["merge", *m]
        return ["read", rng.randrange(nr), rng.randrange(nc)]
    if k < 0.87 and nr < 16:
        return ["addrow", rng.randint(1, 2)]
    if k < 0.94 and nc < 11:
        return ["addcol", rng.randint(1, 2)]
    return ["read", rng.randrange(nr), rng.randrange(nc)]


def apply_edit(tb, e, objs=None, rng=None):
    """apply one logged step to the real table; returns True if a stroke was refused (RuntimeWarning)."""
    from numbers_parser import RGB, Border
    from numbers_parser.xrefs import xl_range
    k = e[0]
    if k == "stroke":
        _, side, r, c, n, (w, col, sty) = e
        key = (w, tuple(col), sty)
        if objs is not None and key in objs and rng is not None and rng.random() < 0.3:
            b = objs[key]            # re-use the caller's Border object
        else:
            b = Border(w, RGB(*col), sty)
            if objs is not None:
                objs[key] = b
        with warnings.catch_warnings(record=True) as caught:
            warnings.simplefilter("always")
            tb.set_cell_border(r, c, side, b, n)
        return any(issubclass(x.category, RuntimeWarning) for x in caught)
    if k == "write":
        tb.write(e[1], e[2], e[3])
    elif k == "merge":
        tb.merge_cells(xl_range(*e[1:5]))
    elif k == "addrow":
        tb.add_row(e[1])
    elif k == "addcol":
        tb.add_column(e[1])
    elif k == "read":
        _ = tb.cell(e[1], e[2]).border.top      # Cell.border runs extract_strokes (through its cache)
    return False


def edit_history(sub: Ctx, seed: int, h: int, mode: str = "edits"):
    """strokes interleaved with writes, merges of disjoint rectangles and appended rows / columns, cut into 1..3 segments by
    save / reopen. One protocol line per segment; oracle: an edge map kept by the harness."""
    from numbers_parser import Document
    from numbers_parser.xrefs import xl_range
    rng = sub.rng
    nr, nc = rng.randint(4, 9), rng.randint(4, 7)
    merges = gen_merges(rng, nr, nc) if rng.random() < 0.4 else []
    doc = Document(num_rows=nr, num_cols=nc, num_header_rows=rng.choice([0, 1]), num_header_cols=rng.choice([0, 1]))
    tb = doc.sheets[0].tables[0]
    for m in merges:
        tb.merge_cells(xl_range(*m))
    if merges and rng.random() < 0.5:
        doc = cycle(doc)
        tb = doc.sheets[0].tables[0]
    where = {"seed": seed, "edit_history": h, "rows": nr, "cols": nc, "merges": [list(m) for m in merges]}
    merges = list(merges)
    specs = [(rng.choice(WIDTHS), (rng.randrange(256), rng.randrange(256), rng.randrange(256)), rng.choice(STYLES))
             for _ in range(rng.randint(2, 6))]
    pal = Palette()
    objs: dict = {}
    edge_map: dict = {}
    log: list = []
    lines = []
    kinds = set()
    for seg in range(rng.choice([1, 1, 2, 3])):
        max_order, layer_words, facts = read_layers(doc, tb, pal)
        head = ["border", mode, str(nr), str(nc), str(max_order)] + merge_words(merges) + layer_words
        hot = ([rng.randrange(nr), nr - 1], [rng.randrange(nc), nc - 1])
        words, nsteps, seg_strokes = [], 0, []
        for _ in range(rng.randint(3, 14)):
            e = gen_edit(rng, nr, nc, merges, hot, specs)
            if e[0] == "stroke":
                w, col, sty = specs[e[5]]
                e = e[:5] + [[w, list(col), sty]]
            refused = apply_edit(tb, e, objs, rng)
            log.append(e)
            kinds.add(e[0])
            if e[0] == "stroke":
                _, side, r, c, n, (w, col, sty) = e
                from numbers_parser.cell import BORDER_STYLE_MAP
                pid = pal.of(w, col, BORDER_STYLE_MAP[sty])
                words += ["0", str(SIDES.index(side)), str(r), str(c), str(n), str(pid)]
                nsteps += 1
                seg_strokes.append((side, r, c, n))
                if not refused:
                    for ed in stroke_edges(side, r, c, n):
                        edge_map[ed] = pid
            elif e[0] == "write":
                words += ["1", str(e[1]), str(e[2])]
                nsteps += 1
            elif e[0] == "merge":
                merges.append(tuple(e[1:5]))
                words += ["2", str(e[1]), str(e[2]), str(e[3] - e[1]), str(e[4] - e[2])]
                nsteps += 1
            elif e[0] == "addrow":
                nr += e[1]
                words += ["3", str(e[1])]
                nsteps += 1
            elif e[0] == "addcol":
                nc += e[1]
                words += ["4", str(e[1])]
                nsteps += 1
        open_view = grid_view(tb, pal)
        doc = cycle(doc)
        tb = doc.sheets[0].tables[0]
        log.append(["save-reopen"])
        saved_view = grid_view(tb, pal)
        line = " ".join(head + [str(nsteps)] + words)
        lines.append((line, f"ok {nr} {nc} " + show_grid(open_view) + " | " + show_grid(saved_view)))
        inp = {**where, "segment": seg, "edits": list(log)}
        want = expected_grid(nr, nc, merges, edge_map)
        sub.count("editing-history segments (strokes x write x merge_cells x add_row x add_column): open view / reloaded view vs "
                  "last-writer-wins edge map", 1)
        if len(kinds) >= 3 and "stroke" in kinds:
            sub.mark(line)
        if (tb.num_rows, tb.num_cols) != (nr, nc):
            sub.violation("table-shape-after-edits", f"reloaded table is {tb.num_rows}x{tb.num_cols}, expected {nr}x{nc}", inp)
            break
        if facts["max_run_order"] > facts["max_order"]:
            sub.violation("stored-max-order-below-run-order", f"layers read back with max_order {facts['max_order']} < run order "
                          f"{facts['max_run_order']}", inp)
        d = diff_cells(open_view, want)
        if d:
            sub.violation("border-open-not-most-recent",
                          "open document after an editing history: cell border differs from the most recent stroke along the edge; "
                          f"[row, col, reported(t,r,b,l), expected]: {describe(d, pal)}", inp)
        d = diff_cells(saved_view, want)
        if d:
            sub.violation("border-reloaded-not-most-recent",
                          "after an editing history, save and reopen: cell border differs from the most recent stroke along the edge; "
                          f"[row, col, reported(t,r,b,l), expected]: {describe(d, pal)}", inp)
        d = diff_cells(open_view, saved_view)
        if d:
            sub.violation("border-open-differs-from-reloaded",
                          f"open document and reloaded file disagree after an editing history; [row, col, open, reloaded]: "
                          f"{describe(d, pal)}", inp)
    if h < 3:
        sub.sample({"kind": "editing history", **where, "edits": log[:10]})
    return lines


def merge_error_lines():
    """two strokes, then merge_cells with a rectangle inside, touching or leaving a 4x4 table: IndexError exactly when a
    placeholder position is outside (the anchor cell itself is not indexed)."""
    from numbers_parser import RGB, Border, Document
    from numbers_parser.xrefs import xl_rowcol_to_cell
    req, out = [], []
    for (rs, cs, dh, dw) in [(0, 0, 0, 0), (2, 2, 1, 1), (3, 3, 0, 0), (3, 2, 1, 0), (2, 3, 0, 1), (4, 0, 0, 1), (0, 4, 1, 0),
                             (3, 3, 1, 1), (1, 1, 3, 0), (1, 1, 0, 3), (0, 0, 3, 3), (3, 0, 0, 3), (0, 3, 3, 0), (1, 1, 1, 2), (2, 0, 1, 3)]:
        doc = Document(num_rows=4, num_cols=4)
        tb = doc.sheets[0].tables[0]
        pal = Palette()
        max_order, layer_words, _ = read_layers(doc, tb, pal)
        b = Border(1.0, RGB(0, 0, 0), "solid")
        tb.set_cell_border(2, 1, "top", b, 3)
        tb.set_cell_border(1, 3, "left", b, 3)        # runs past the last row
        pid = pal.of(b.width, b.color, b.style)
        try:
            tb.merge_cells(xl_rowcol_to_cell(rs, cs) + ":" + xl_rowcol_to_cell(rs + dh, cs + dw))
            reply = "ok 4 4 " + show_grid(grid_view(tb, pal)) + " | " + show_grid(grid_view(cycle(doc).sheets[0].tables[0], pal))
        except Exception as e:  # noqa: BLE001
            reply = "err " + exc_name(e)
        req.append(" ".join(["border", "edits", "4", "4", str(max_order), "0"] + layer_words +
                            ["3", "0", "0", "2", "1", "3", str(pid), "0", "3", "1", "3", "3", str(pid), "2", str(rs), str(cs), str(dh), str(dw)]))
        out.append(reply)
    return req, out


def _edit_worker(task):
    warnings.simplefilter("ignore")
    seed, h = task
    sub = Ctx(PID, "quick", seed * 4_000_037 + h)
    try:
        lines = edit_history(sub, seed, h)
    except Exception as e:  # noqa: BLE001
        import traceback
        sub.violation("edit-history-raises", f"{exc_name(e)}: {e}; {traceback.format_exc(limit=3)}", {"seed": seed, "edit_history": h})
        lines = []
    return common.sub_result(sub, lines)


def describe(d, pal):
    return [[r, c, [pal.describe(x) for x in a], [pal.describe(x) for x in b]] for r, c, a, b in d]


def _border_worker(task):
    warnings.simplefilter("ignore")
    seed, h = task
    sub = Ctx(PID, "quick", seed * 1_000_003 + h)
    try:
        lines = border_history(sub, seed, h)
    except Exception as e:  # noqa: BLE001
        import traceback
        sub.violation("border-history-raises", f"{exc_name(e)}: {e}; {traceback.format_exc(limit=3)}", {"seed": seed, "history": h})
        lines = []
    return common.sub_result(sub, lines)


# ---------------------------------------------------------------------------------------------
# styles
# ---------------------------------------------------------------------------------------------

# binary32-representable values (the file stores style floats as protobuf `float`)
F32 = [0.0, 0.125, 0.5, 1.0, 1.25, 2.5, 4.0, 7.75, 11.0, 12.0, 36.0, 72.5, 100.0, 1.0099999904632568, 0.30000001192092896]
SIZES = [1.0, 6.5, 9.0, 11.0, 12.0, 13.5, 24.0, 72.0, 144.25, 10.100000381469727]
HORIZ = ["left", "right", "center", "justified", "auto"]
VERT = ["top", "middle", "bottom"]
ATTRS = ["alignment", "bg_color", "bg_image", "font_color", "font_size", "font_name", "bold", "italic", "strikethrough",
         "underline", "first_indent", "left_indent", "right_indent", "text_inset", "text_wrap", "name"]
PNG = bytes.fromhex("89504e470d0a1a0a0000000d4948445200000001000000010802000000907753de0000000c4944415408d763f8cfc000000301"
                    "0100c9fe92ef0000000049454e44ae426082")


def style_tuple(s):
    """the 16 observable attributes of a Style, canonical."""
    bg = s.bg_color
    if isinstance(bg, list):
        bg = ["gradient"] + [list(x) for x in bg]
    elif bg is not None:
        bg = list(bg)
    img = None if s.bg_image is None else [s.bg_image.filename, len(s.bg_image.data), zlib.crc32(bytes(s.bg_image.data))]
    return [[int(s.alignment.horizontal), int(s.alignment.vertical)], bg, img, list(s.font_color), s.font_size, s.font_name,
            s.bold, s.italic, s.strikethrough, s.underline, s.first_indent, s.left_indent, s.right_indent, s.text_inset,
            s.text_wrap, s.name]


def cell_style_or_exc(cell):
    try:
        return style_tuple(cell.style)
    except Exception as e:  # noqa: BLE001
        return "raises " + exc_name(e)


def gen_style_kwargs(rng, fonts, k, with_image):
    kw = {"name": f"V{k} " + rng.choice(["Red", "x", "Body α", "style"])}
    if rng.random() < 0.8:
        kw["alignment"] = (rng.choice(HORIZ), rng.choice(VERT))
    if with_image:
        from numbers_parser import BackgroundImage
        kw["bg_image"] = BackgroundImage(PNG + bytes([k]), f"img{k}.png")  # distinct bytes per image, see scenario same-image-bytes
    elif rng.random() < 0.6:
        kw["bg_color"] = (rng.randrange(256), rng.randrange(256), rng.randrange(256))
    if rng.random() < 0.7:
        kw["font_color"] = (rng.randrange(256), rng.randrange(256), rng.randrange(256))
    if rng.random() < 0.7:
        kw["font_size"] = rng.choice(SIZES)
    if rng.random() < 0.7:
        kw["font_name"] = rng.choice(fonts)
    for a in ("bold", "italic", "strikethrough", "underline"):
        if rng.random() < 0.4:
            kw[a] = rng.random() < 0.6
    for a in ("first_indent", "left_indent", "right_indent", "text_inset"):
        if rng.random() < 0.5:
            kw[a] = rng.choice(F32)
    if rng.random() < 0.5:
        kw["text_wrap"] = rng.random() < 0.5
    return kw


def canon_float(x):
    return repr(float(x))


def dedup_words(cell):
    """protocol words for one cell of `style dedup`: dirty flag + the 8 components of the repaired key."""
    st = cell._style
    if st is None:
        return ["0"] + ["-"] * 8
    bg = repr(st.bg_color)
    return ["1" if st._update_cell_style else "0", enc_text(str(int(st.alignment.vertical))), enc_text(canon_float(st.first_indent)),
            enc_text(canon_float(st.left_indent)), enc_text(canon_float(st.right_indent)), enc_text(canon_float(st.text_inset)),
            enc_text(str(bool(st.text_wrap))), enc_text(bg), enc_text("" if st.bg_image is None else st.bg_image.filename)]


def style_case(sub: Ctx, seed: int, h: int):
    from numbers_parser import Document
    from numbers_parser.model import FONT_FAMILY_TO_NAME
    rng = sub.rng
    fonts = sorted(FONT_FAMILY_TO_NAME)
    nr, nc = rng.randint(2, 6), rng.randint(2, 5)
    doc = Document(num_rows=nr, num_cols=nc, num_header_rows=rng.choice([0, 1]), num_header_cols=rng.choice([0, 1]))
    tb = doc.sheets[0].tables[0]
    n_styles = rng.randint(1, 6)
    given, styles, log = {}, [], []
    near = None
    for k in range(n_styles):
        kw = gen_style_kwargs(rng, fonts, k, with_image=(rng.random() < 0.12))
        if near is not None and rng.random() < 0.5:
            # a near-duplicate: same cell attributes except one (exercises the de-duplication key)
            kw2 = {a: v for a, v in near.items() if a not in ("name", "bg_image")}
            kw2["name"] = kw["name"]
            a = rng.choice(["first_indent", "left_indent", "right_indent", "text_inset", "text_wrap", "alignment", "none"])
            if a in ("first_indent", "left_indent", "right_indent", "text_inset"):
                kw2[a] = rng.choice(F32)
            elif a == "text_wrap":
                kw2[a] = not kw2.get(a, True)
            elif a == "alignment":
                kw2[a] = (rng.choice(HORIZ), rng.choice(VERT))
            kw = kw2
        near = kw
        if log and rng.random() < 0.25:
            # a name that differs from an earlier style's only in case or in space vs dash (two styles, one spelling family)
            prev = rng.choice(log)["name"]
            kw["name"] = rng.choice([prev.lower(), prev.upper(), prev.replace(" ", "-"), prev.swapcase()])
            while any(kw["name"] == x["name"] for x in log):
                kw["name"] += "_"
        elif rng.random() < 0.15:
            kw.pop("name")   # library-chosen name ('Custom Style N')
        st = doc.add_style(**kw)
        kw = dict(kw, name=st.name)
        styles.append(st)
        log.append({a: (v if not hasattr(v, "filename") else "png:" + v.filename) for a, v in kw.items()})
    cells = [(r, c) for r in range(nr) for c in range(nc)]
    rng.shuffle(cells)
    styled = {}
    for (r, c) in cells[: rng.randint(1, len(cells))]:
        k = rng.randrange(n_styles)
        how = rng.choice(["write", "set", "name"])
        if how == "write":
            tb.write(r, c, rng.choice(["t", 1.5, True]), style=styles[k])
        elif how == "set":
            tb.set_cell_style(r, c, styles[k])
        else:
            tb.set_cell_style(r, c, styles[k].name)
        styled[(r, c)] = k
    where = {"seed": seed, "case": h, "rows": nr, "cols": nc, "styles": log, "cells": [[r, c, k] for (r, c), k in sorted(styled.items())]}
    want = {k: style_tuple(st) for k, st in enumerate(styles)}
    # open document
    for (r, c), k in styled.items():
        got = cell_style_or_exc(tb.cell(r, c))
        if got != want[k]:
            sub.violation("style-open-differs", f"open document: cell ({r},{c}) style {diff_attrs(got, want[k])}", where)
    fd, path = tempfile.mkstemp(suffix=".numbers")
    os.close(fd)
    try:
        doc.save(path)
        # what update_cell_styles decided, cell by cell (after the save the objects carry their ids)
        ids: dict = {}
        words, groups = [], []
        for r in range(nr):
            for c in range(nc):
                cell = tb.cell(r, c)
                w = dedup_words(cell)
                words += w
                if w[0] == "1":
                    oid = cell._style._cell_style_obj_id
                    groups.append(str(ids.setdefault(oid, len(ids))))
                else:
                    groups.append("-")
        line = " ".join(["style", "dedup", "fixed", str(nr * nc)] + words)
        reply = "ok " + " ".join(groups)
        unstyled_before = {(r, c): cell_style_or_exc(tb.cell(r, c)) for r in range(nr) for c in range(nc) if (r, c) not in styled}
        doc2 = Document(path)
    finally:
        os.unlink(path)
    tb2 = doc2.sheets[0].tables[0]
    sub.count("style cases: every attribute of every styled cell, open and after reopen; unstyled cells unchanged", 1)
    if len({tuple(map(str, v)) for v in want.values()}) > 1:
        sub.mark(("style", seed, h))
    for (r, c), k in styled.items():
        got = cell_style_or_exc(tb2.cell(r, c))
        if got != want[k]:
            sub.violation("style-reloaded-differs", f"after save and reopen: cell ({r},{c}) with style #{k}: {diff_attrs(got, want[k])}", where)
    for (r, c), before in unstyled_before.items():
        got = cell_style_or_exc(tb2.cell(r, c))
        if got != before:
            sub.violation("unstyled-cell-style-changed", f"cell ({r},{c}) was not styled but reads {diff_attrs(got, before)} after reopen", where)
    for k, st in enumerate(styles):
        if st.name not in doc2.styles:
            sub.violation("document-style-missing-after-reload", f"Document.styles lacks {st.name!r} after reopen", where)
    # second phase: cells that already carry a stored style are restyled (on the document that was just saved, or on the
    # reopened file), also with styles whose cell-level attributes are all defaults, then saved and reopened again:
    # every attribute of the newer style must replace the older one's, in the open document and in the file
    if rng.random() < 0.75:
        reopened = rng.random() < 0.5
        bdoc, btb = (doc2, tb2) if reopened else (doc, tb)
        expected = {rc: want[k] for rc, k in styled.items()}
        log2 = []
        news = []
        for j in range(rng.randint(1, 3)):
            if j == 0 or rng.random() < 0.5:
                kw = {"name": f"P{j} text only"}  # nothing cell-level: no fill, default inset / wrap / vertical alignment
                for a in ("bold", "italic", "strikethrough", "underline"):
                    if rng.random() < 0.5:
                        kw[a] = True
                if rng.random() < 0.5:
                    kw["font_size"] = rng.choice(SIZES)
                if rng.random() < 0.5:
                    kw["alignment"] = (rng.choice(HORIZ), "top")
                if rng.random() < 0.3:
                    kw["left_indent"] = rng.choice(F32)
            else:
                kw = gen_style_kwargs(rng, fonts, 100 + j, with_image=False)
                kw["name"] = f"P{j} " + kw["name"]
            if reopened and rng.random() < 0.4:
                kw.pop("name")   # a library-chosen name on a reopened document (the numbering restarts from what the file holds)
            news.append(bdoc.add_style(**kw))
            log2.append(dict(kw, name=news[-1].name))
        if not reopened and rng.random() < 0.6:
            # an attribute of a style that is already applied (and saved) is changed on the Style object itself: every
            # cell that carries the style shows the new value, now and after the next save
            k = rng.choice(sorted(set(styled.values())))
            st = styles[k]
            a = rng.choice(["valign", "halign", "bold", "font_size", "text_inset", "text_wrap", "bg_color", "left_indent"])
            if a == "bg_color" and st.bg_image is not None:
                a = "bold"  # a cell has ONE fill: colour next to an image fill is the scenario `image-and-colour-fill`
            from numbers_parser import RGB, Alignment
            cur_h, cur_v = st.alignment.horizontal.name.lower(), st.alignment.vertical.name.lower()
            if a == "valign":
                st.alignment = Alignment(cur_h, rng.choice([v for v in VERT if v != cur_v]))
            elif a == "halign":
                st.alignment = Alignment(rng.choice([h for h in HORIZ if h != cur_h]), cur_v)
            elif a == "bold":
                st.bold = not st.bold
            elif a == "font_size":
                st.font_size = rng.choice([x for x in SIZES if x != st.font_size])
            elif a == "text_inset":
                st.text_inset = rng.choice([x for x in F32 if x != st.text_inset])
            elif a == "text_wrap":
                st.text_wrap = not st.text_wrap
            elif a == "bg_color":
                st.bg_color = RGB(rng.randrange(256), rng.randrange(256), rng.randrange(256))
            else:
                st.left_indent = rng.choice([x for x in F32 if x != st.left_indent])
            log2.append({"changed_attribute_of_style": k, "attribute": a})
            for rc, kk in styled.items():
                if kk == k:
                    expected[rc] = style_tuple(st)
            want[k] = style_tuple(st)
        pool = sorted(styled) + [rc for rc in cells if rc not in styled][:2]
        rng.shuffle(pool)
        for (r, c) in pool[: rng.randint(1, max(1, len(pool) // 2 + 1))]:
            st = rng.choice(news)
            btb.set_cell_style(r, c, st if rng.random() < 0.6 else st.name)
            expected[(r, c)] = style_tuple(st)
        where2 = dict(where, second_phase={"on_reopened_document": reopened, "styles": log2,
                                           "restyled": [[r, c] for (r, c) in sorted(expected) if expected[(r, c)] != want.get(styled.get((r, c)))]})
        for (r, c), w in expected.items():
            got = cell_style_or_exc(btb.cell(r, c))
            if got != w:
                sub.violation("restyle-open-differs", f"open document after restyling: cell ({r},{c}) {diff_attrs(got, w)}", where2)
        fd, path = tempfile.mkstemp(suffix=".numbers")
        os.close(fd)
        try:
            bdoc.save(path)
            doc3 = Document(path)
        finally:
            os.unlink(path)
        tb3 = doc3.sheets[0].tables[0]
        sub.count("restyle cases: stored styles replaced (also by styles with default cell-level attributes), saved and reopened", 1)
        for (r, c), w in expected.items():
            got = cell_style_or_exc(tb3.cell(r, c))
            if got != w:
                sub.violation("restyle-reloaded-differs",
                              f"after restyling, save and reopen: cell ({r},{c}) {diff_attrs(got, w)}", where2)
    inplace_phase(sub, rng, doc2, where)
    return [(line, reply)]


def inplace_phase(sub: Ctx, rng, rdoc, where):
    """third phase, on the REOPENED document of the case: the Style read from ONE cell of the file is changed in place
    (cell.style.<attribute> = value).  That cell shows the new value; every other cell - in particular the cells that were
    stored with the very same style entries - keeps its style, on the open document and after save + reopen."""
    from numbers_parser import RGB, Alignment, Document
    fd, path = tempfile.mkstemp(suffix=".numbers")
    os.close(fd)
    try:
        rdoc.save(path)
        probe_doc, rdoc = Document(path), Document(path)   # two fresh readings of one file: one to look at, one to change
    finally:
        os.unlink(path)
    tb = rdoc.sheets[0].tables[0]
    nr, nc = tb.num_rows, tb.num_cols
    order = [(r, c) for r in range(nr) for c in range(nc)]
    probe = {rc: cell_style_or_exc(Document_cell(probe_doc, rc)) for rc in order}
    read_first = rng.random() < 0.5
    if read_first:   # the styles of the document that is about to be changed are read before the change ...
        for rc in order:
            cell_style_or_exc(tb.cell(*rc))
    groups: dict = {}
    for rc, t in probe.items():
        if not isinstance(t, str):
            groups.setdefault(json.dumps(t, default=str), []).append(rc)
    shared = [g for g in groups.values() if len(g) > 1]
    if not shared:
        return
    target = rng.choice(rng.choice(shared))
    st = tb.cell(*target).style
    if st.bg_image is not None:
        return
    a = rng.choice(["bg_color", "text_wrap", "valign", "text_inset", "bold", "font_size"])
    cur_h, cur_v = st.alignment.horizontal.name.lower(), st.alignment.vertical.name.lower()
    if a == "bg_color":
        st.bg_color = RGB(rng.randrange(256), rng.randrange(256), rng.randrange(256))
    elif a == "text_wrap":
        st.text_wrap = not st.text_wrap
    elif a == "valign":
        st.alignment = Alignment(cur_h, rng.choice([v for v in VERT if v != cur_v]))
    elif a == "text_inset":
        st.text_inset = rng.choice([x for x in F32 if x != st.text_inset])
    elif a == "bold":
        st.bold = not st.bold
    else:
        st.font_size = rng.choice([x for x in SIZES if x != st.font_size])
    expected = dict(probe)
    expected[target] = style_tuple(st)
    where3 = dict(where, third_phase={"in_place_change_of_cell": list(target), "attribute": a,
                                      "styles_read_before_the_change": read_first})
    # the changed cell itself is outside the statement (styles are created with add_style and applied with
    # set_cell_style / write; an in-place change of a text-level attribute of a style read from a cell is not saved -
    # notes/C15.md); what the statement does say is that cells that were not styled keep their previous style
    others = [rc for rc in order if rc != target]
    for rc in others:
        got = cell_style_or_exc(tb.cell(*rc))
        if got != expected[rc]:
            sub.violation("unstyled-cell-style-changed",
                          f"reopened document, cell.style.{a} changed in place on cell {target}: cell {rc} "
                          f"{diff_attrs(got, expected[rc])}", where3)
    fd, path = tempfile.mkstemp(suffix=".numbers")
    os.close(fd)
    try:
        rdoc.save(path)
        doc4 = Document(path)
    finally:
        os.unlink(path)
    tb4 = doc4.sheets[0].tables[0]
    sub.count("in-place change of the style read from one cell of a reopened document: that cell changes, every other cell "
              "(also those stored with the same style entries) keeps its style, open and after save + reopen", 1)
    for rc in others:
        got = cell_style_or_exc(tb4.cell(*rc))
        if got != expected[rc]:
            sub.violation("unstyled-cell-style-changed",
                          f"after an in-place change of cell.style.{a} on cell {target} of the reopened document, save and "
                          f"reopen: cell {rc} {diff_attrs(got, expected[rc])}", where3)


def Document_cell(doc, rc):
    return doc.sheets[0].tables[0].cell(*rc)


def diff_attrs(got, want):
    if isinstance(got, str) or isinstance(want, str):
        return f"{got!r} instead of {want!r}"
    return "; ".join(f"{a}={g!r} instead of {w!r}" for a, g, w in zip(ATTRS, got, want) if g != w)


def _style_worker(task):
    warnings.simplefilter("ignore")
    seed, h = task
    sub = Ctx(PID, "quick", seed * 2_000_003 + h)
    try:
        lines = style_case(sub, seed, h)
    except Exception as e:  # noqa: BLE001
        import traceback
        sub.violation("style-case-raises", f"{exc_name(e)}: {e}; {traceback.format_exc(limit=4)}", {"seed": seed, "case": h})
        lines = []
    return common.sub_result(sub, lines)


# ---------------------------------------------------------------------------------------------
# style storage path: the model's archive records / read-back vs the real archives of the saved package
# (decoded with protobuf through `layouts.ParsedPackage`, not through the library's readers)
# ---------------------------------------------------------------------------------------------

TIE_COLOURS = [0, 1, 127, 128, 254, 255]
TIE_FLOATS = F32 + [0.1, 1.01, 3.3333333333333335, 1e-3]       # also values that binary32 cannot hold: the model predicts f32(x)
TIE_SIZES = SIZES + [10.1, 0.7]
STORAGE_FIXTURES = ["test-styles.numbers", "test-bgcolour.numbers", "issue-7.numbers", "test-1.numbers", "test-formats.numbers",
                    "test-extra-borders.numbers", "issue-69b.numbers", "test-10.numbers", "test-bullets.numbers"]


def w_rat(x) -> str:
    from fractions import Fraction
    f = Fraction(x)
    return f"{f.numerator}/{f.denominator}"


def w_opt(present: bool, words) -> list:
    return ["S"] + list(words) if present else ["N"]


def w_color(c) -> list:
    return [w_rat(c.r), w_rat(c.g), w_rat(c.b)]


def para_words(o) -> list:
    """a TSWP.ParagraphStyleArchive as the words of the model's `ParaArc` (protobuf access only)."""
    cp, pp = o.char_properties, o.para_properties
    w = [enc_text(o.super.name)]
    w += w_opt(o.super.HasField("parent"), [str(o.super.parent.identifier)])
    w += w_opt(cp.HasField("font_color"), w_color(cp.font_color))
    w += w_opt(cp.HasField("bold"), [str(int(cp.bold))])
    w += w_opt(cp.HasField("italic"), [str(int(cp.italic))])
    w += w_opt(cp.HasField("underline"), [str(int(cp.underline))])
    w += w_opt(cp.HasField("strikethru"), [str(int(cp.strikethru))])
    w += w_opt(cp.HasField("font_size"), [w_rat(cp.font_size)])
    w += w_opt(cp.HasField("font_name"), [enc_text(cp.font_name)])
    has_fill = cp.HasField("tsd_fill") and cp.tsd_fill.HasField("color")
    w += w_opt(has_fill, w_color(cp.tsd_fill.color) if has_fill else [])
    w += w_opt(pp.HasField("alignment"), [str(int(pp.alignment))])
    w += w_opt(pp.HasField("first_line_indent"), [w_rat(pp.first_line_indent)])
    w += w_opt(pp.HasField("left_indent"), [w_rat(pp.left_indent)])
    w += w_opt(pp.HasField("right_indent"), [w_rat(pp.right_indent)])
    return w


def cell_arc_words(o) -> list:
    cp = o.cell_properties
    w = [enc_text(o.super.name)]
    w += w_opt(o.super.HasField("parent"), [str(o.super.parent.identifier)])
    if cp.HasField("cell_fill"):
        f = cp.cell_fill
        fw = w_opt(f.HasField("color"), w_color(f.color))
        stops = list(f.gradient.stops) if f.HasField("gradient") else []
        fw += w_opt(f.HasField("gradient"), [str(len(stops))] + [x for st in stops for x in w_color(st.color)])
        fw += w_opt(f.HasField("image"), [str(f.image.imagedata.identifier)])
        w += ["S"] + fw
    else:
        w += ["N"]
    pd = cp.padding
    w += w_opt(cp.HasField("padding"), [w_rat(pd.left), w_rat(pd.top), w_rat(pd.right), w_rat(pd.bottom)])
    w += w_opt(cp.HasField("text_wrap"), [str(int(cp.text_wrap))])
    w += w_opt(cp.HasField("vertical_alignment"), [str(int(cp.vertical_alignment))])
    return w


class DataIds:
    """identity of image bytes <-> small number."""

    def __init__(self):
        self.ids = {}

    def of(self, data) -> int:
        return self.ids.setdefault(bytes(data), len(self.ids) + 1)


def sty_words(s, dids: DataIds) -> list:
    """a `Style` object (given by the caller, or read by the library) as the words of the model's `Sty`."""
    w = [str(int(s.alignment.horizontal)), str(int(s.alignment.vertical))]
    w += w_opt(s.bg_image is not None, [enc_text(s.bg_image.filename), str(dids.of(s.bg_image.data))] if s.bg_image is not None else [])
    bg = s.bg_color
    if bg is None:
        w += ["N"]
    elif isinstance(bg, list):
        w += ["G", str(len(bg))] + [str(int(x)) for c in bg for x in c]
    else:
        w += ["C"] + [str(int(x)) for x in bg]
    w += [str(int(x)) for x in s.font_color]
    w += [w_rat(s.font_size), enc_text(s.font_name)]
    w += [str(int(bool(x))) for x in (s.bold, s.italic, s.strikethrough, s.underline)]
    w += [w_rat(s.first_indent), w_rat(s.left_indent), w_rat(s.right_indent), w_rat(s.text_inset)]
    w += [str(int(bool(s.text_wrap))), enc_text(s.name)]
    return w


class PackageView:
    """what the style readers need of a saved package, decoded independently of the library's model."""

    def __init__(self, path):
        import layouts as L
        self.pp = L.Package.load(path).parsed()
        self.files = dict(self.pp.pkg.members)

    def table(self, name):
        for _, tm in self.pp.tables():
            if tm.table_name == name:
                return tm
        return None

    def cell_ids(self, tm) -> dict:
        """(row, col) -> (text style key, cell style key) from the v5 cell records of the tiles."""
        import struct
        from array import array
        out = {}
        bds = tm.base_data_store
        ts = bds.tiles.tile_size or 256
        for t in bds.tiles.tiles:
            tile = self.pp.objects[t.tile.identifier]
            for r in tile.rowInfos:
                row = t.tileid * ts + r.tile_row_index
                unit = 4 if r.has_wide_offsets else 1
                buf = r.cell_storage_buffer
                for col, o in enumerate(array("h", r.cell_offsets).tolist()):
                    if o < 0:
                        continue
                    st = o * unit
                    flags = struct.unpack_from("<i", buf, st + 8)[0]
                    off = st + 12 + (16 if flags & 1 else 0) + (8 if flags & 2 else 0) + (8 if flags & 4 else 0) \
                        + (4 if flags & 8 else 0) + (4 if flags & 0x10 else 0)
                    cs = ts_ = None
                    if flags & 0x20:
                        cs = struct.unpack_from("<i", buf, off)[0]
                        off += 4
                    if flags & 0x40:
                        ts_ = struct.unpack_from("<i", buf, off)[0]
                    out[(row, col)] = (ts_, cs)
        return out

    def style_list(self, tm) -> list:
        dl = self.pp.objects[tm.base_data_store.styleTable.identifier]
        return [(e.key, e.reference.identifier) for e in dl.entries]

    def table_words(self, tm) -> list:
        sl = self.style_list(tm)
        return ([str(len(sl))] + [str(x) for kv in sl for x in kv]
                + [str(tm.number_of_rows), str(tm.number_of_header_rows), str(tm.number_of_header_columns), str(tm.number_of_footer_rows),
                   str(tm.header_row_text_style.identifier), str(tm.header_column_text_style.identifier),
                   str(tm.footer_row_text_style.identifier), str(tm.body_text_style.identifier)])

    def store_words(self, tm) -> list:
        """every style object a cell of this table can reach: data-list entries, the four default text styles, one parent level."""
        ids = [v for _, v in self.style_list(tm)] + [tm.header_row_text_style.identifier, tm.header_column_text_style.identifier,
                                                     tm.footer_row_text_style.identifier, tm.body_text_style.identifier]
        for i in list(ids):
            o = self.pp.objects.get(i)
            if o is not None and hasattr(o, "super"):
                ids.append(o.super.parent.identifier)
        objs = []
        for i in dict.fromkeys(ids):
            o = self.pp.objects.get(i)
            kind = type(o).__name__
            if kind == "ParagraphStyleArchive":
                objs.append([str(i), "P"] + para_words(o))
            elif kind == "CellStyleArchive":
                objs.append([str(i), "C"] + cell_arc_words(o))
        return [str(len(objs))] + [x for o in objs for x in o]

    def images_words(self, dids: DataIds) -> list:
        datas = self.pp.objects[2].datas
        es = []
        for d in datas:
            blob = self.files.get("Data/" + d.file_name)
            if blob is None:
                blob = next((b for n, b in self.files.items() if n.endswith("Data/" + d.file_name)), b"?" + d.file_name.encode())
            es.append([str(d.identifier), enc_text(d.preferred_file_name), str(dids.of(blob))])  # the reader reports the preferred name
        return [str(max([d.identifier for d in datas], default=0) + 1), str(len(es))] + [x for e in es for x in e]


def archive_style(view: PackageView, tm, ids_rc, r, c, dids: DataIds) -> list:
    """what the archives of the package say about the style of a cell, as `Sty` words: a reader of the harness (protobuf
    access only) with the documented resolution — own member, else the member of `super.parent`, else the reader default.
    Used as the oracle of `style-read-differs-from-archives`; it does not go through the Lean model."""
    from numbers_parser import constants as C
    from numbers_parser.generated.fontmap import FONT_NAME_TO_FAMILY
    objs, sl = view.pp.objects, dict(view.style_list(tm))
    t_id, c_id = ids_rc
    if t_id is not None:
        ts = objs[sl[t_id]]
    elif r < tm.number_of_header_rows:
        ts = objs[tm.header_row_text_style.identifier]
    elif c < tm.number_of_header_columns:
        ts = objs[tm.header_column_text_style.identifier]
    elif tm.number_of_footer_rows > 0 and tm.number_of_rows - tm.number_of_footer_rows <= r < tm.number_of_rows:
        ts = objs[tm.footer_row_text_style.identifier]
    else:
        ts = objs[tm.body_text_style.identifier]
    cs = None if c_id is None else objs[sl[c_id]]

    def member(style, group, field):
        g = getattr(style, group)
        if g.HasField(field):
            return getattr(g, field)
        return getattr(getattr(objs[style.super.parent.identifier], group), field)

    def ints(col):
        return [str(round(col.r * 255)), str(round(col.g * 255)), str(round(col.b * 255))]

    w = [str(int(member(ts, "para_properties", "alignment"))), "0" if cs is None else str(int(member(cs, "cell_properties", "vertical_alignment")))]
    if int(w[0]) not in range(5) or int(w[1]) not in range(3):
        raise ValueError
    fill = None if cs is None else cs.cell_properties.cell_fill
    if fill is not None and fill.HasField("image"):
        d = next(x for x in view.pp.objects[2].datas if x.identifier == fill.image.imagedata.identifier)
        blob = next(b for n, b in view.files.items() if n.endswith("Data/" + d.file_name))
        w += ["S", enc_text(d.preferred_file_name), str(dids.of(blob))]
    else:
        w += ["N"]
    if fill is not None and fill.HasField("color"):
        w += ["C"] + ints(fill.color)
    elif fill is not None and fill.HasField("gradient"):
        w += ["G", str(len(fill.gradient.stops))] + [x for st in fill.gradient.stops for x in ints(st.color)]
    else:
        w += ["N"]
    w += ints(member(ts, "char_properties", "font_color"))
    w += [w_rat(member(ts, "char_properties", "font_size")), enc_text(FONT_NAME_TO_FAMILY[member(ts, "char_properties", "font_name")])]
    w += [str(int(member(ts, "char_properties", "bold"))), str(int(member(ts, "char_properties", "italic"))),
          str(int(member(ts, "char_properties", "strikethru") != 0)), str(int(member(ts, "char_properties", "underline") != 0))]
    w += [w_rat(member(ts, "para_properties", f)) for f in ("first_line_indent", "left_indent", "right_indent")]
    if cs is None:
        w += [w_rat(C.DEFAULT_TEXT_INSET), str(int(C.DEFAULT_TEXT_WRAP))]
    else:
        w += [w_rat(member(cs, "cell_properties", "padding").left), str(int(member(cs, "cell_properties", "text_wrap")))]
    return w + [enc_text(ts.super.name)]


def read_lines(view: PackageView, tm, tb, dids: DataIds, cells, tag, sub: Ctx | None = None):
    """`style read` lines: Style.from_storage of the real (reopened) document vs the model on the independently decoded objects."""
    ids = view.cell_ids(tm)
    head = ["style", "read"] + view.store_words(tm) + view.table_words(tm) + view.images_words(dids)
    out = []
    for (r, c) in cells:
        t_id, c_id = ids.get((r, c), (None, None))
        if (r, c) not in ids:
            continue
        line = " ".join(head + [str(r), str(c)] + w_opt(t_id is not None, [str(t_id)]) + w_opt(c_id is not None, [str(c_id)]))
        try:
            with warnings.catch_warnings(record=True) as caught:
                warnings.simplefilter("always")
                st = tb.cell(r, c).style
            if any("Cannot find file" in str(w.message) for w in caught):
                continue    # an image whose file is missing from the package: outside the model's image table
            reply = "ok " + " ".join(sty_words(st, dids))
        except Exception as e:  # noqa: BLE001
            reply = "err " + exc_name(e)
        out.append((line, reply))
        if sub is not None:
            try:
                want = "ok " + " ".join(archive_style(view, tm, ids[(r, c)], r, c, dids))
            except Exception as e:  # noqa: BLE001
                # the harness's own reader of the package does not cover this document's shape (old documents without the
                # objects it looks for: issue-69.numbers raised StopIteration in the thorough tier): nothing to compare with -
                # neither a violation nor a model line
                sub.count("fixture cells whose style archives the harness's independent reader cannot follow (not compared)", 1)
                out.pop()
                continue
            if want != reply and not (want.startswith("err") and reply.startswith("err")):
                sub.violation("style-read-differs-from-archives",
                              f"{(tag.get('fixture_read') or tag.get('fixture') or 'new document') if isinstance(tag, dict) else tag}: "
                              f"cell ({r},{c}) of table {tb.name!r}: the library reads {describe_sty(reply)}, the style archives of "
                              f"the package (own member, else parent's, else default) say {describe_sty(want)}",
                              dict(tag if isinstance(tag, dict) else {"fixture": tag}, read_cell=[tb.name, r, c]))
    return out


def describe_sty(words: str) -> str:
    return words if len(words) < 400 else words[:400] + "…"


def tie_style_kwargs(rng, fonts, k, h):
    """all fifteen attributes given explicitly, from boundary values; alignment pair cycles through all 15."""
    from numbers_parser import BackgroundImage
    pair = (h * 4 + k) % 15
    kw = {"name": f"T{k} " + rng.choice(["Red", "x y", "Body α", "Ünïcode", "a  b"]),
          "alignment": (HORIZ[pair % 5], VERT[pair // 5]),
          "font_color": tuple(rng.choice(TIE_COLOURS) for _ in range(3)),
          "font_size": rng.choice(TIE_SIZES), "font_name": rng.choice(fonts),
          "bold": rng.random() < 0.5, "italic": rng.random() < 0.5, "strikethrough": rng.random() < 0.5, "underline": rng.random() < 0.5,
          "first_indent": rng.choice(TIE_FLOATS), "left_indent": rng.choice(TIE_FLOATS), "right_indent": rng.choice(TIE_FLOATS),
          "text_inset": rng.choice(TIE_FLOATS), "text_wrap": rng.random() < 0.5}
    fill = rng.random()
    if fill < 0.2:
        kw["bg_image"] = BackgroundImage(PNG + bytes([k, h % 251]), f"tie{k}.png")
    elif fill < 0.8:
        kw["bg_color"] = tuple(rng.choice(TIE_COLOURS) for _ in range(3))
    return kw


def write_reply(view, dids, st, para, carc):
    """the reply the model must give for `style write <st>`: the real archives field by field."""
    cw = cell_arc_words(carc)
    image_id = carc.cell_properties.cell_fill.image.imagedata.identifier if carc.cell_properties.cell_fill.HasField("image") else 0
    if st.bg_image is not None:
        imgs_before = [str(image_id), "0"]
        imgs_after = [str(image_id + 1), "1", str(image_id), enc_text(st.bg_image.filename), str(dids.of(st.bg_image.data))]
    else:
        imgs_before = imgs_after = ["0", "0"]
    return imgs_before, "ok " + " ".join(para_words(para) + ["|"] + cw + ["|"] + imgs_after)


def storage_case(sub: Ctx, seed: int, h: int):
    """generated styles applied to cells of a new or a fixture document, saved: (1) the archives in the saved package equal the
    model's archive records field by field, (2) what the library reads after reopening equals the model's read-back of its own
    write, (3) every cell of the table read by the library equals the model's `from_storage` on the decoded objects,
    (4) after changing attributes of a saved style and saving again, the updated archive equals the model's update."""
    from numbers_parser import Document
    from numbers_parser.model import FONT_FAMILY_TO_NAME
    rng = sub.rng
    fonts = sorted(FONT_FAMILY_TO_NAME)
    dids = DataIds()
    fixture = None
    if h % 3 == 2:
        cands = [f for f in STORAGE_FIXTURES if (REPO / "tests/data" / f).exists()]
        fixture = cands[(h // 3) % len(cands)]
        doc = Document(str(REPO / "tests/data" / fixture))
        tb = doc.sheets[0].tables[0]
    else:
        doc = Document(num_rows=rng.randint(2, 5), num_cols=rng.randint(2, 4), num_header_rows=rng.choice([0, 1]),
                       num_header_cols=rng.choice([0, 1]))
        tb = doc.sheets[0].tables[0]
    nr, nc = tb.num_rows, tb.num_cols
    from numbers_parser.cell import MergedCell
    free = [(r, c) for r in range(min(nr, 8)) for c in range(min(nc, 6)) if not isinstance(tb.cell(r, c), MergedCell)]
    rng.shuffle(free)
    n_styles = rng.randint(1, 3)
    styles, where_styles = [], []
    for k in range(n_styles):
        kw = tie_style_kwargs(rng, fonts, k, h)
        if kw["name"] in doc.styles:
            kw["name"] += f" {h}"
        styles.append(doc.add_style(**kw))
        where_styles.append({a: (v if not hasattr(v, "filename") else "png:" + v.filename) for a, v in kw.items()})
    styled = {}
    for k, rc in enumerate(free[: rng.randint(n_styles, max(n_styles, min(len(free), 5)))]):
        kk = k if k < n_styles else rng.randrange(n_styles)
        tb.set_cell_style(rc[0], rc[1], styles[kk])
        styled[rc] = kk
    where = {"storage_tie": True, "seed": seed, "case": h, "fixture": fixture, "styles": where_styles,
             "cells": [[r, c, k] for (r, c), k in sorted(styled.items())]}
    lines = []
    fd, path = tempfile.mkstemp(suffix=".numbers")
    os.close(fd)
    try:
        doc.save(path)
        view = PackageView(path)
        doc2 = Document(path)
        tb2 = doc2.sheets[0].tables[0]
        tm = view.pp.objects[tb2._table_id]
        ids = view.cell_ids(tm)
        sl = dict(view.style_list(tm))
        first_para = {}
        for (r, c), k in sorted(styled.items()):
            st = styles[k]
            t_id, c_id = ids[(r, c)]
            if t_id is None or c_id is None:
                sub.violation("styled-cell-without-style-ids", f"cell ({r},{c}) was given style #{k} but its saved record carries "
                              f"text style id {t_id}, cell style id {c_id}", where)
                continue
            para, carc = view.pp.objects[sl[t_id]], view.pp.objects[sl[c_id]]
            first_para[k] = (sl[t_id], para)
            imgs_before, reply = write_reply(view, dids, st, para, carc)
            given = sty_words(st, dids)
            if carc.super.name != st.name:
                # the cell archive is shared with an earlier style of the same fingerprint: it carries that style's name
                other = [s2 for s2 in styles if s2.name == carc.super.name]
                if not other:
                    sub.violation("cell-style-archive-of-unknown-style", f"cell ({r},{c}): cell style archive named {carc.super.name!r}", where)
                    continue
                shared = cell_arc_words(carc)
                shared[0] = enc_text(st.name)
                reply = "ok " + " ".join(para_words(para) + ["|"] + shared + ["|"] + reply.split(" | ")[-1].split(" "))
            lines.append((" ".join(["style", "write"] + given + imgs_before), reply))
            # the reopened Style against the model's read-back of its own write
            try:
                got = "ok " + " ".join(sty_words(tb2.cell(r, c).style, dids))
            except Exception as e:  # noqa: BLE001
                got = "err " + exc_name(e)
            lines.append((" ".join(["style", "roundtrip"] + given + imgs_before), got))
        # every cell of the table (styled or not), read by the library vs the model on the decoded objects
        some = [(r, c) for r in range(min(nr, 12)) for c in range(min(nc, 8))]
        lines += read_lines(view, tm, tb2, dids, some, where, sub)
        sub.count("storage tie: archives of the saved package vs model records (write), reopened Style vs model read-back, "
                  "Style.from_storage vs model on decoded objects", 1)
        sub.mark(("storage", seed, h))
        # (4) attributes of saved styles changed (also the name), saved again: update_paragraph_style
        if rng.random() < 0.7 and first_para:
            from numbers_parser import RGB
            k = rng.choice(sorted(first_para))
            st = styles[k]
            for a in rng.sample(["name", "bold", "font_color", "font_size", "font_name", "halign", "left_indent", "underline"], 3):
                if a == "name":
                    st.name = st.name + " renamed"
                elif a == "bold":
                    st.bold = not st.bold
                elif a == "underline":
                    st.underline = not st.underline
                elif a == "font_color":
                    st.font_color = RGB(*(rng.choice(TIE_COLOURS) for _ in range(3)))
                elif a == "font_size":
                    st.font_size = rng.choice(TIE_SIZES)
                elif a == "font_name":
                    st.font_name = rng.choice(fonts)
                elif a == "halign":
                    st.alignment = (rng.choice(HORIZ), st.alignment.vertical.name.lower())
                else:
                    st.left_indent = rng.choice(TIE_FLOATS)
            doc.save(path)
            view2 = PackageView(path)
            # the style ids `_to_buffer` wrote in this second save, cell by cell in row-major order, from the list the first
            # save left behind; cells that carry no `_style` must keep their ids
            tm2 = view2.pp.objects[tb2._table_id]
            ids2 = view2.cell_ids(tm2)
            sl1 = view.style_list(tm)
            order = [(r, c) for r in range(nr) for c in range(nc)]
            if all(rc in ids and rc in ids2 for rc in order):
                words = [str(max([k_ for k_, _ in sl1], default=0) + 1), str(len(sl1))] + [str(x) for kv in sl1 for x in kv] + [str(len(order))]
                reply = []
                for (r, c) in order:
                    cell = tb._data[r][c]
                    t_id, c_id = ids[(r, c)]
                    words += [str(r), str(c)] + w_opt(t_id is not None, [str(t_id)]) + w_opt(c_id is not None, [str(c_id)])
                    if cell._style is None:
                        words += ["N"]
                    else:
                        a, b = cell._style._text_style_obj_id, cell._style._cell_style_obj_id
                        words += ["S"] + w_opt(a is not None, [str(a)]) + w_opt(b is not None, [str(b)])
                    t2, c2 = ids2[(r, c)]
                    reply += w_opt(t2 is not None, [str(t2)]) + w_opt(c2 is not None, [str(c2)])
                    if cell._style is None and (t2, c2) != (t_id, c_id):
                        sub.violation("unstyled-cell-style-ids-changed", f"cell ({r},{c}) carries no style object but its saved style ids "
                                      f"changed from {(t_id, c_id)} to {(t2, c2)} in the second save", where)
                sl2 = view2.style_list(tm2)
                lines.append((" ".join(["style", "ids"] + words),
                              "ok " + " ".join(reply) + " | " + " ".join([str(len(sl2))] + [str(x) for kv in sl2 for x in kv])))
            oid, old = first_para[k]
            new = view2.pp.objects.get(oid)
            if new is None:
                sub.violation("updated-style-object-missing", f"paragraph style object {oid} is not in the package saved second", where)
            else:
                lines.append((" ".join(["style", "update", "0"] + sty_words(st, dids) + para_words(old)), "ok " + " ".join(para_words(new))))
                want = style_tuple(st)
                d3 = Document(path)
                for (r, c), kk in styled.items():
                    if kk == k:
                        got = cell_style_or_exc(d3.sheets[0].tables[0].cell(r, c))
                        if got != want and all(float(x) == _f32(x) for x in (st.font_size, st.first_indent, st.left_indent, st.right_indent, st.text_inset)):
                            sub.violation("style-changed-after-save-reloaded-differs", f"style #{k} changed after the first save, saved "
                                          f"again: cell ({r},{c}) reloads with {diff_attrs(got, want)}", where)
    finally:
        os.unlink(path)
    return lines


def _f32(x):
    import struct
    return struct.unpack("<f", struct.pack("<f", float(x)))[0]


def fixture_read_case(sub: Ctx, name: str):
    """every cell (capped) of every table of a fixture: Style.from_storage vs the model on independently decoded objects."""
    from numbers_parser import Document
    path = str(REPO / "tests/data" / name)
    try:
        doc = Document(path)
        view = PackageView(path)
    except Exception:  # noqa: BLE001
        return []
    dids = DataIds()
    lines = []
    for sh in doc.sheets:
        for tb in sh.tables:
            tm = view.pp.objects.get(tb._table_id)
            if tm is None or type(tm).__name__ != "TableModelArchive":
                continue
            try:
                cells = [(r, c) for r in range(min(tb.num_rows, 14)) for c in range(min(tb.num_cols, 10))]
                lines += read_lines(view, tm, tb, dids, cells, {"fixture_read": name}, sub)
            except Exception as e:  # noqa: BLE001
                sub.notes.append(f"{name}: table {tb.name!r} not decoded independently ({exc_name(e)})")
    sub.count("fixture cells: Style.from_storage vs model on independently decoded style objects (inheritance, defaults)", len(lines))
    if lines:
        sub.mark(("fixture-read", name))
    return lines


def table_lines():
    """exhaustive small tables: alignment names, font families, colour channels, rename on update (pinned vs repaired)."""
    from numbers_parser import Alignment
    from numbers_parser.model import FONT_FAMILY_TO_NAME, rgb
    from numbers_parser.generated import TSPMessages_pb2 as P
    req, out = [], []
    names_h = HORIZ + ["LEFT", "Center", "AUTO", "x", "", "top", "İ"]
    names_v = VERT + ["TOP", "Middle", "left", "", "boTTom"]
    for hz in names_h:
        for vt in names_v:
            req.append(f"style align {enc_text(hz)} {enc_text(vt)}")
            try:
                a = Alignment(hz, vt)
                out.append(f"ok {int(a.horizontal)} {int(a.vertical)}")
            except Exception as e:  # noqa: BLE001
                out.append("err " + exc_name(e))
    for fam in list(FONT_FAMILY_TO_NAME) + ["No Such Font", "", "helvetica neue"]:
        req.append(f"style font {enc_text(fam)}")
        out.append("ok " + enc_text(FONT_FAMILY_TO_NAME[fam]) if fam in FONT_FAMILY_TO_NAME else "err KeyError")
    for c in list(range(256)) + [-1, 256, 300, 1000]:
        col = P.Color(r=c / 255, g=0, b=0)
        req.append(f"style chan {c}")
        out.append(f"ok {w_rat(col.r)} {rgb(col).r}")
    return req, out


# ---------------------------------------------------------------------------------------------
# reading is pure: twin documents, one of them read completely before saving
# ---------------------------------------------------------------------------------------------

def dump_doc(doc, pal):
    out = {}
    for si, sh in enumerate(doc.sheets):
        for ti, tb in enumerate(sh.tables):
            for r in range(tb.num_rows):
                for c in range(tb.num_cols):
                    cell = tb.cell(r, c)
                    try:
                        b = cell.border
                        bd = [pal.of_border(x) for x in (b.top, b.right, b.bottom, b.left)]
                    except Exception as e:  # noqa: BLE001
                        bd = "raises " + exc_name(e)
                    out[f"{si}/{ti}/{r},{c}"] = [cell_style_or_exc(cell), bd]
    return out


def _twin_worker(task):
    warnings.simplefilter("ignore")
    from numbers_parser import Document
    (name,) = task
    sub = Ctx(PID, "quick", 0)
    path = str(REPO / "tests/data" / name)
    pal = Palette()
    inp = {"fixture": name}
    try:
        a = Document(path)
        b = Document(path)
    except Exception:  # noqa: BLE001
        return common.sub_result(sub, None)
    sub.count("fixtures: twin read-before-save vs not read, compared cell by cell after reopen (styles and borders)", 1)
    try:
        ra = dump_doc(cycle(a), pal)
    except Exception as e:  # noqa: BLE001
        ra = "save/reopen raises " + exc_name(e)
    try:
        dump_doc(b, pal)  # merely read every style and border
        rb = dump_doc(cycle(b), pal)
    except Exception as e:  # noqa: BLE001
        rb = f"save/reopen raises {exc_name(e)}: {e}"
    if isinstance(ra, str) or isinstance(rb, str):
        if ra != rb and not isinstance(ra, str):
            sub.violation("read-then-save-raises", f"{name}: after reading every cell's style and border, {rb}; without reading the "
                          "document saves and reopens", inp)
        return common.sub_result(sub, None)
    diff = [k for k in ra if ra[k] != rb.get(k)]
    if diff:
        k = diff[0]
        sub.violation("read-changes-what-is-saved", f"{name}: {len(diff)} cells differ after reopen between a document that was only "
                      f"saved and one whose styles/borders were read first; e.g. {k}: unread {ra[k]!r} read {rb[k]!r}", {**inp, "cell": k})
    sub.mark(("twin", name))
    return common.sub_result(sub, None)


# ---------------------------------------------------------------------------------------------
# fixed scenarios (the defects seen on the pinned commit, each as a concrete replay)
# ---------------------------------------------------------------------------------------------

def scenario(name):
    """returns (signature, what) if the property fails on this scenario, else None."""
    from numbers_parser import RGB, Border, Document
    if name == "second-stroke":
        doc = Document()
        tb = doc.sheets[0].tables[0]
        tb.set_cell_border(1, 1, "top", Border(2.0, RGB(255, 0, 0), "solid"))
        tb.set_cell_border(1, 1, "top", Border(4.0, RGB(0, 255, 0), "solid"))
        o = str(tb.cell(1, 1).border.top)
        s = str(cycle(doc).sheets[0].tables[0].cell(1, 1).border.top)
        if "4.0" not in o or o != s:
            return ("border-open-not-most-recent", f"two strokes on the top of B2 (2.0 red, then 4.0 green): open document reports {o}, "
                    f"reloaded file {s}")
    elif name == "fingerprint":
        doc = Document()
        tb = doc.sheets[0].tables[0]
        s1 = doc.add_style(name="s1", right_indent=1.0, text_inset=11.0)
        s2 = doc.add_style(name="s2", right_indent=1.25, text_inset=1.0)
        s3 = doc.add_style(name="s3", right_indent=1.0, text_inset=1.0, left_indent=11.0)
        s4 = doc.add_style(name="s4", right_indent=1.0, text_inset=11.0, left_indent=1.0)
        tb.write(0, 0, "a", style=s1)
        tb.write(0, 1, "b", style=s2)
        tb.write(0, 2, "c", style=s3)
        tb.write(0, 3, "d", style=s4)
        t2 = cycle(doc).sheets[0].tables[0]
        got = [(t2.cell(0, c).style.left_indent, t2.cell(0, c).style.right_indent, t2.cell(0, c).style.text_inset) for c in range(4)]
        want = [(0.0, 1.0, 11.0), (0.0, 1.25, 1.0), (11.0, 1.0, 1.0), (1.0, 1.0, 11.0)]
        if got != want:
            return ("style-reloaded-differs", f"styles whose attribute texts concatenate alike: (left,right,inset) reloaded as {got}, "
                    f"given {want}")
    elif name == "fingerprint-1.01":
        # the original witness; right_indent 1.01 is not binary32, so only text_inset is compared
        doc = Document()
        tb = doc.sheets[0].tables[0]
        tb.write(0, 0, "a", style=doc.add_style(name="s1", right_indent=1.0, text_inset=11.0))
        tb.write(0, 1, "b", style=doc.add_style(name="s2", right_indent=1.01, text_inset=1.0))
        got = cycle(doc).sheets[0].tables[0].cell(0, 1).style.text_inset
        if got != 1.0:
            return ("style-reloaded-differs", "styles (right_indent=1.0, text_inset=11.0) on A1 and (right_indent=1.01, text_inset=1.0) "
                    f"on B1: B1 reloads with text_inset={got}")
    elif name == "gradient-read-then-save":
        f = REPO / "tests/data/issue-7.numbers"
        if f.exists():
            doc = Document(str(f))
            cell = doc.sheets["Test Steps"].tables["A. iTunes Store"].cell(0, 0)
            _ = cell.style
            try:
                cycle(doc)
            except Exception as e:  # noqa: BLE001
                return ("read-then-save-raises", f"issue-7.numbers: reading the style of the gradient-filled cell A1 of 'A. iTunes Store' "
                        f"makes the next save raise {exc_name(e)}: {e}")
    elif name == "float-not-binary32":
        doc = Document()
        tb = doc.sheets[0].tables[0]
        tb.write(0, 0, "a", style=doc.add_style(name="e", first_indent=1.01))
        got = cycle(doc).sheets[0].tables[0].cell(0, 0).style.first_indent
        if got != 1.01:
            return ("style-float-not-binary32", f"first_indent=1.01 reloads as {got!r}")
    elif name == "all-colour-values":
        doc = Document(num_rows=90, num_cols=2)
        tb = doc.sheets[0].tables[0]
        want = []
        for i in range(86):
            col = (i, (i + 85) % 256, (i + 170) % 256)
            tb.write(i, 0, "x", style=doc.add_style(name=f"c{i}", font_color=col, bg_color=col[::-1]))
            tb.set_cell_border(i, 1, "right", Border(1.0, RGB(*col), "solid"))
            want.append((col, col[::-1], col))
        t2 = cycle(doc).sheets[0].tables[0]
        got = [(tuple(t2.cell(i, 0).style.font_color), tuple(t2.cell(i, 0).style.bg_color), tuple(t2.cell(i, 1).border.right.color))
               for i in range(86)]
        bad = [(w, g) for w, g in zip(want, got) if w != g]
        if bad:
            return ("colour-not-preserved", f"(font, background, border) colours given {bad[0][0]} reload as {bad[0][1]} "
                    f"({len(bad)} of 86 rows)")
    elif name == "all-fonts":
        from numbers_parser.model import FONT_FAMILY_TO_NAME
        fonts = sorted(FONT_FAMILY_TO_NAME)
        doc = Document(num_rows=len(fonts), num_cols=1)
        tb = doc.sheets[0].tables[0]
        for i, f in enumerate(fonts):
            tb.write(i, 0, "x", style=doc.add_style(name=f"f{i}", font_name=f))
        t2 = cycle(doc).sheets[0].tables[0]
        bad = [(f, t2.cell(i, 0).style.font_name) for i, f in enumerate(fonts) if t2.cell(i, 0).style.font_name != f]
        if bad:
            return ("style-reloaded-differs", f"font_name {bad[0][0]!r} reloads as {bad[0][1]!r} ({len(bad)} of {len(fonts)} fonts)")
    elif name == "all-alignments":
        doc = Document(num_rows=5, num_cols=3)
        tb = doc.sheets[0].tables[0]
        for i, hz in enumerate(HORIZ):
            for j, vt in enumerate(VERT):
                tb.write(i, j, "x", style=doc.add_style(name=f"a{i}{j}", alignment=(hz, vt)))
        t2 = cycle(doc).sheets[0].tables[0]
        from numbers_parser.cell import HORIZONTAL_MAP, VERTICAL_MAP
        bad = [(hz, vt) for i, hz in enumerate(HORIZ) for j, vt in enumerate(VERT)
               if tuple(t2.cell(i, j).style.alignment) != (HORIZONTAL_MAP[hz], VERTICAL_MAP[vt])]
        if bad:
            return ("style-reloaded-differs", f"alignment {bad[0]} does not reload ({len(bad)} of 15)")
    elif name == "stroke-then-merge":
        doc = Document(num_rows=6, num_cols=6)
        tb = doc.sheets[0].tables[0]
        tb.set_cell_border(0, 0, "top", Border(2.0, RGB(255, 0, 0), "solid"))
        tb.merge_cells("C3:D4")
        o = tb.cell(0, 0).border.top
        s = cycle(doc).sheets[0].tables[0].cell(0, 0).border.top
        if str(o) != str(s):
            return ("border-lost-after-merge-cells", f"stroke on the top of A1, then merge_cells('C3:D4'): open document reports {o}, "
                    f"reloaded file {s}")
    elif name == "stroke-then-write":
        doc = Document(num_rows=6, num_cols=6)
        tb = doc.sheets[0].tables[0]
        tb.set_cell_border(1, 1, "top", Border(2.0, RGB(255, 0, 0), "solid"))
        tb.write(1, 1, "x")
        o = tb.cell(1, 1).border.top
        s = cycle(doc).sheets[0].tables[0].cell(1, 1).border.top
        if str(o) != str(s):
            return ("border-lost-after-write", f"stroke on the top of B2, then write('B2', 'x'): open document reports {o}, reloaded file {s}")
    elif name == "stroke-then-add-row":
        doc = Document(num_rows=5, num_cols=3)
        tb = doc.sheets[0].tables[0]
        tb.set_cell_border(4, 0, "bottom", Border(4.0, RGB(0, 0, 0), "solid"))      # bottom of A5, the last row
        tb.set_cell_border(3, 2, "right", Border(2.0, RGB(255, 0, 0), "solid"), 4)  # right of C4, running past the last row
        tb.add_row(2)
        tb.add_column(1)
        pal = Palette()
        o = grid_view(tb, pal)
        s = grid_view(cycle(doc).sheets[0].tables[0], pal)
        d = diff_cells(o, s)
        if d or o[5][0][0] is None or o[5][2][1] is None or o[5][3][3] is None:
            return ("border-missing-on-added-cells", "4 pt stroke on the bottom of A5 (last row) and a 2 pt stroke down the right of C4..C7 "
                    "(running past the last row), then add_row(2), add_column(1): the appended cells share those edges; "
                    f"[row, col, open(t,r,b,l), reloaded]: {describe(d, pal)}; open A6 top {o[5][0][0]}, C6 right {o[5][2][1]}, "
                    f"D6 left {o[5][3][3]}")
    elif name == "stroke-then-delete-through-merge":
        # Table._move_merges (fix 2f2a333) unmerges and re-merges when a row / column edit reaches a merged range: every cell gets
        # a fresh CellBorder; here the range B3:C3 shrinks to one cell and is dropped, so merge_cells is not called again
        doc = Document(num_rows=5, num_cols=5)
        tb = doc.sheets[0].tables[0]
        tb.merge_cells("B3:C3")
        tb.set_cell_border(0, 0, "top", Border(2.0, RGB(255, 0, 0), "solid"))
        tb.set_cell_border(4, 0, "left", Border(3.0, RGB(0, 0, 255), "solid"))
        tb.delete_column(1, 2)
        o = (str(tb.cell(0, 0).border.top), str(tb.cell(4, 0).border.left))
        t2 = cycle(doc).sheets[0].tables[0]
        s = (str(t2.cell(0, 0).border.top), str(t2.cell(4, 0).border.left))
        if o != s:
            return ("border-lost-after-merge-cells", "merge B3:C3, strokes on the top of A1 and the left of A5, then delete_column(1, 2) "
                    f"(the merged range shrinks to one cell): open document reports {o}, reloaded file {s}")
    elif name == "stroke-then-insert-row":
        # recorded finding: the stroke layers are indexed by row / column number and no edit renumbers them
        doc = Document(num_rows=5, num_cols=5)
        tb = doc.sheets[0].tables[0]
        tb.set_cell_border(1, 1, "top", Border(2.0, RGB(255, 0, 0), "solid"))
        tb.add_row(1, 0)
        pal = Palette()
        o = grid_view(tb, pal)
        s = grid_view(cycle(doc).sheets[0].tables[0], pal)
        d = diff_cells(o, s)
        if d:
            return ("border-not-moved-with-inserted-or-deleted-rows", "2 pt stroke on the top of B2, then add_row(1, start_row=0): "
                    f"[row, col, open(t,r,b,l), reloaded]: {describe(d, pal)}")
    elif name == "same-image-bytes":
        from numbers_parser import BackgroundImage
        doc = Document()
        tb = doc.sheets[0].tables[0]
        tb.write(0, 0, "a", style=doc.add_style(name="i1", bg_image=BackgroundImage(PNG, "one.png")))
        tb.write(0, 1, "b", style=doc.add_style(name="i2", bg_image=BackgroundImage(PNG, "two.png")))
        got = cycle(doc).sheets[0].tables[0].cell(0, 1).style.bg_image.filename
        if got != "two.png":
            return ("bg-image-same-bytes-other-name", "two background images with identical bytes and file names 'one.png', 'two.png': "
                    f"the second cell reloads with bg_image.filename == {got!r}")
    elif name == "image-and-colour-fill":
        from numbers_parser import BackgroundImage
        doc = Document()
        tb = doc.sheets[0].tables[0]
        st = doc.add_style(name="both", bg_image=BackgroundImage(PNG, "one.png"))
        tb.write(0, 0, "a", style=st)
        st.bg_color = RGB(1, 223, 33)
        o = tb.cell(0, 0).style.bg_color
        s2 = cycle(doc).sheets[0].tables[0].cell(0, 0).style.bg_color
        if (None if o is None else tuple(o)) != (None if s2 is None else tuple(s2)):
            return ("bg-color-lost-next-to-image-fill", "a style with a background image is also given bg_color=RGB(1, 223, 33): the open "
                    f"document reports bg_color {tuple(o) if o else None}, the reloaded file {tuple(s2) if s2 else None}")
    elif name == "read-style-text-attribute":
        doc = Document()
        tb = doc.sheets[0].tables[0]
        tb.write(1, 1, "x")
        st = tb.cell(1, 1).style
        st.italic = True
        st.font_size = 20.0
        o = (tb.cell(1, 1).style.italic, tb.cell(1, 1).style.font_size)
        s2 = cycle(doc).sheets[0].tables[0].cell(1, 1).style
        if o != (s2.italic, s2.font_size):
            return ("read-style-text-attribute-change-not-saved", "cell.style.italic = True; cell.style.font_size = 20.0 on cell B2 of a new "
                    f"document: the open document reports (italic, font_size) = {o}, the reloaded file {(s2.italic, s2.font_size)}")
    elif name == "rename-saved-style":
        doc = Document()
        tb = doc.sheets[0].tables[0]
        st = doc.add_style(name="A", bold=True)
        tb.write(0, 0, "x", style=st)
        cycle(doc)
        st.name = "B"
        o = tb.cell(0, 0).style.name
        s2 = cycle(doc).sheets[0].tables[0].cell(0, 0).style.name
        if o != s2:
            return ("style-changed-after-save-reloaded-differs", "style 'A' applied to A1 and saved, then style.name = 'B' and saved again: the "
                    f"open document reports name {o!r}, the reloaded file {s2!r}")
    elif name == "gradient-style-modified":
        f = REPO / "tests/data/issue-7.numbers"
        if f.exists():
            doc = Document(str(f))
            cell = doc.sheets["Test Steps"].tables["A. iTunes Store"].cell(0, 0)
            cell.style.text_wrap = not cell.style.text_wrap
            try:
                cycle(doc)
            except Exception as e:  # noqa: BLE001
                return ("gradient-style-cannot-be-saved", f"issue-7.numbers: changing text_wrap of the gradient-filled cell's style makes "
                        f"save raise {exc_name(e)}: {e}")
    return None


SCENARIOS = ["second-stroke", "fingerprint", "fingerprint-1.01", "gradient-read-then-save", "float-not-binary32", "all-colour-values",
             "all-fonts", "all-alignments", "stroke-then-merge", "stroke-then-write", "stroke-then-add-row", "stroke-then-delete-through-merge",
             "stroke-then-insert-row", "gradient-style-modified", "same-image-bytes",
             "image-and-colour-fill", "read-style-text-attribute", "rename-saved-style"]


def _scenario_worker(task):
    warnings.simplefilter("ignore")
    (name,) = task
    sub = Ctx(PID, "quick", 0)
    sub.count("fixed scenarios (defects of the pinned commit, full colour / font / alignment sweeps)", 1)
    try:
        r = scenario(name)
    except Exception as e:  # noqa: BLE001
        import traceback
        r = ("scenario-raises", f"{name}: {exc_name(e)}: {e}; {traceback.format_exc(limit=3)}")
    if r:
        sub.violation(r[0], r[1], {"scenario": name})
    return common.sub_result(sub, None)


def flag_lines():
    """Style.__setattr__ flags: constructed / read styles, then each single attribute assigned again."""
    import dataclasses

    from numbers_parser import Document
    from numbers_parser.cell import Style
    names = [f.name for f in dataclasses.fields(Style)] + ["_update_styles", "zzz"]
    doc = Document()
    req, out = [], []
    for mode in ("new", "read"):
        for extra in [[]] + [[n] for n in names] + [["bold", "text_wrap"], ["name", "bg_color"]]:
            st = Style() if mode == "new" else doc.sheets[0].tables[0].cell(0, 0)._model and Style.from_storage(
                doc.sheets[0].tables[0].cell(0, 0), doc._model)
            for n in extra:
                setattr(st, n, getattr(st, n, None))
            req.append(" ".join(["style", "flags", mode] + extra))
            out.append(f"ok {int(bool(st._update_text_style))} {int(bool(st._update_cell_style))}")
    return req, out


def _storage_worker(task):
    warnings.simplefilter("ignore")
    seed, h = task
    sub = Ctx(PID, "quick", seed * 3_000_017 + h)
    try:
        lines = storage_case(sub, seed, h)
    except Exception as e:  # noqa: BLE001
        import traceback
        sub.violation("storage-case-raises", f"{exc_name(e)}: {e}; {traceback.format_exc(limit=4)}", {"storage_tie": True, "seed": seed, "case": h})
        lines = []
    return common.sub_result(sub, lines)


def _fixture_read_worker(task):
    warnings.simplefilter("ignore")
    (name,) = task
    sub = Ctx(PID, "quick", 0)
    try:
        lines = fixture_read_case(sub, name)
    except Exception as e:  # noqa: BLE001
        import traceback
        sub.violation("fixture-read-case-raises", f"{name}: {exc_name(e)}: {e}; {traceback.format_exc(limit=4)}", {"fixture_read": name})
        lines = []
    return common.sub_result(sub, lines)


READ_QUICK = ["test-styles.numbers", "test-bgcolour.numbers", "issue-7.numbers", "test-1.numbers", "test-formats.numbers",
              "issue-69b.numbers", "test-10.numbers", "test-bullets.numbers", "test-extra-borders.numbers", "issue-32.numbers"]
TWIN_QUICK = ["issue-7.numbers", "test-1.numbers", "test-bullets.numbers", "test-bgcolour.numbers", "issue-69b.numbers",
              "test-extra-borders.numbers", "test-hlinks.numbers", "issue-32.numbers", "test-10.numbers"]


def run(ctx: Ctx):
    warnings.simplefilter("ignore")
    n_hist = 900 if ctx.quick else 9000
    n_sty = 500 if ctx.quick else 5000
    fixtures = sorted(p.name for p in (REPO / "tests/data").glob("*.numbers"))
    twins = [f for f in TWIN_QUICK if f in fixtures] if ctx.quick else fixtures
    n_tie = 100 if ctx.quick else 1500
    reads = [f for f in READ_QUICK if f in fixtures] if ctx.quick else fixtures
    n_edit = 400 if ctx.quick else 6000
    tasks = ([("b", ctx.seed, h) for h in range(n_hist)] + [("m", ctx.seed, h) for h in range(n_hist // 8)]
             + [("e", ctx.seed, h) for h in range(n_edit)]
             + [("s", ctx.seed, h) for h in range(n_sty)]
             + [("t", f) for f in twins] + [("x", n) for n in SCENARIOS]
             + [("g", ctx.seed, h) for h in range(n_tie)] + [("r", f) for f in reads])
    breq, bout, sreq, sout, greq, gout, ereq, eout = [], [], [], [], [], [], [], []
    for task, lines in zip(tasks, common.run_parallel(ctx, _dispatch, tasks)):
        for a, b in lines or []:
            (breq if task[0] == "b" else ereq if task[0] == "e" else greq if task[0] in "gr" else sreq).append(a)
            (bout if task[0] == "b" else eout if task[0] == "e" else gout if task[0] in "gr" else sout).append(b)
    ctx.correspond("border histories: open view | view extracted from the saved layers (one line per segment)", breq, bout,
                   keep=1, nontrivial=lambda r, o: False)
    ctx.correspond("editing histories (set_cell_border x write x merge_cells x add_row x add_column): table shape, open view | view "
                   "extracted from the saved layers (one line per segment)", ereq, eout, keep=1, nontrivial=lambda r, o: False)
    req, out = merge_error_lines()
    ctx.correspond("merge_cells on a 4x4 table: rectangles inside, touching and leaving the table (IndexError)", req, out,
                   exhaustive=True, keep=1)
    ctx.correspond("update_cell_styles: which cells share a new cell-style object", sreq, sout, keep=1,
                   nontrivial=lambda r, o: False)
    ctx.correspond("style storage path: add_paragraph_style / add_cell_style / update_paragraph_style archives of the saved package, "
                   "reopened Style vs read-back of the model's write, Style.from_storage on decoded objects (new and fixture documents)",
                   greq, gout, keep=1, nontrivial=lambda r, o: False)
    req, out = table_lines()
    ctx.correspond("Alignment(names) x FONT_FAMILY_TO_NAME (every family) x colour channel 0..255 (stored float32, read back)", req, out,
                   exhaustive=True, keep=1)
    req, out = flag_lines()
    ctx.correspond("Style.__setattr__ flags: constructed and read styles x every attribute name", req, out, exhaustive=True, keep=1)


def _sibling_border_worker(task):
    warnings.simplefilter("ignore")
    seed, h = task
    sub = Ctx(PID, "quick", seed * 3_000_017 + h)
    try:
        sibling_border_history(sub, seed, h)
    except Exception as e:  # noqa: BLE001
        import traceback
        sub.violation("sibling-border-history-raises", f"{exc_name(e)}: {e}; {traceback.format_exc()[-400:]}", {"seed": seed, "history": h})
    return common.sub_result(sub, [])


def _dispatch(task):
    if task[0] == "m":
        return _sibling_border_worker(task[1:])
    if task[0] == "b":
        return _border_worker(task[1:])
    if task[0] == "e":
        return _edit_worker(task[1:])
    if task[0] == "s":
        return _style_worker(task[1:])
    if task[0] == "t":
        return _twin_worker(task[1:])
    if task[0] == "g":
        return _storage_worker(task[1:])
    if task[0] == "r":
        return _fixture_read_worker(task[1:])
    return _scenario_worker(task[1:])


def replay(data):
    """re-run a stored failing input against the implementation."""
    warnings.simplefilter("ignore")
    i = data["input"]
    if "scenario" in i:
        r = scenario(i["scenario"])
        return {"scenario": i["scenario"], "result": "property holds" if r is None else {"signature": r[0], "what": r[1]}}
    if i.get("storage_tie"):
        sub = Ctx(PID, "quick", i["seed"] * 3_000_017 + i["case"])
        lines = storage_case(sub, i["seed"], i["case"])
        model = common.run_model([a for a, _ in lines])
        return {"violations": sub.violations,
                "model_vs_real": [{"request": a[:300], "real": b, "model": m} for (a, b), m in zip(lines, model) if b != m][:5]}
    if "fixture_read" in i:
        sub = Ctx(PID, "quick", 0)
        lines = fixture_read_case(sub, i["fixture_read"])
        model = common.run_model([a for a, _ in lines])
        return {"violations": sub.violations,
                "model_vs_real": [{"request": a[-120:], "real": b, "model": m} for (a, b), m in zip(lines, model) if b != m][:5]}
    if "fixture" in i:
        r = _twin_worker((i["fixture"],))
        return {"fixture": i["fixture"], "violations": r["violations"]}
    if "edits" in i:
        from numbers_parser import Document
        from numbers_parser.xrefs import xl_range
        doc = Document(num_rows=i["rows"], num_cols=i["cols"])
        tb = doc.sheets[0].tables[0]
        for m in i.get("merges", []):
            tb.merge_cells(xl_range(*m))
        pal = Palette()
        out = []
        o = None
        for e in i["edits"]:
            if e[0] == "save-reopen":
                o = grid_view(tb, pal)
                doc = cycle(doc)
                tb = doc.sheets[0].tables[0]
                s = grid_view(tb, pal)
                out.append({"after_steps": i["edits"].index(e), "open_vs_reloaded_differences": describe(diff_cells(o, s, 10), pal)})
            else:
                apply_edit(tb, e)
        return {"note": "the logged steps applied to a new document of the logged shape, saved and reopened where the original run did",
                "segments": out}
    if "strokes" in i:
        from numbers_parser import RGB, Border, Document
        from numbers_parser.xrefs import xl_range
        doc = Document(num_rows=i["rows"], num_cols=i["cols"])
        tb = doc.sheets[0].tables[0]
        for m in i.get("merges", []):
            tb.merge_cells(xl_range(*m))
        if i.get("merges"):
            doc = cycle(doc)
            tb = doc.sheets[0].tables[0]
        for side, r, c, n, (w, col, sty) in i["strokes"]:
            tb.set_cell_border(r, c, side, Border(w, RGB(*col), sty), n)
        pal = Palette()
        o = grid_view(tb, pal)
        s = grid_view(cycle(doc).sheets[0].tables[0], pal)
        return {"note": "all strokes applied in one session (the original run may have saved/reopened in between)",
                "open_vs_reloaded_differences": describe(diff_cells(o, s, 10), pal)}
    if "styles" in i:
        sub = Ctx(PID, "quick", i["seed"] * 2_000_003 + i["case"])
        style_case(sub, i["seed"], i["case"])
        return {"violations": sub.violations}
    return {"error": "unknown replay input"}
