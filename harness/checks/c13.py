"""C13 — displayed numbers agree numerically with the stored value."""
from __future__ import annotations

import re
import warnings
from decimal import Decimal, getcontext
from fractions import Fraction

from common import Ctx, enc_text, exc_name

getcontext().prec = 1200

PID = "C13"
PROPS_MODULE = "NumbersModel.Props.C13"
THEOREMS = [f"NumbersModel.Props.C13.{t}" for t in (
    "tables_as_modelled", "decoration_only", "decoration_independent", "currency_decoration_only",
    "grouping_only_inserts", "sign_style", "places_exact", "decimal_reads_back", "round_sig_nearest",
    "auto_reads_back", "scientific_mantissa", "base_reads_back", "base_no_spurious_zero",
    "base_rounds_nearest", "base_format_cases", "twos_complement_value", "fraction_fixed_nearest",
    "fraction_parts_normal_form", "fraction_ndigit", "limit_denominator_best", "fraction_ndigit_total", "rating_stars",
    # custom number patterns (Model/CustomFmt.lean)
    "format_types_as_modelled", "custom_percent_scale", "custom_digits_read_back", "custom_sign", "custom_number_text_alphabet",
    "custom_literals_pass_through", "custom_padding_only_pads", "custom_total", "custom_builder_well_formed",
    "custom_api_total", "custom_scientific", "custom_dispatch",
    # the format-selection glue (Model/FormatDispatch.lean)
    "dispatch_tables_as_modelled", "format_names", "dispatch_total", "formatting_defaults", "set_then_display",
    "set_then_display_tickbox", "set_then_display_popup", "control_displays_number_format", "control_default_and_invalid",
    "control_archive_kind", "display_reads_back", "display_reads_back_base")] + [f"NumbersModel.Props.C13.Src.{t}" for t in (
    # the same clauses over _twos_complement / _format_fraction_parts_to as py2lean regenerates them from cell.py
    "src_twos_complement_value", "src_fraction_parts_normal_form")] + [f"NumbersModel.Translated.{t}" for t in (
    "twos_complement_eq_model", "format_fraction_parts_to_eq_model", "invert_eq")]
TRANSLATED_GROUPS = ("NumFmt",)
PARTIAL = {}   # fraction_ndigit and scientific_mantissa are now proved in full (Lemmas/LimitDen.lean, Lemmas/SciFmt.lean)
RULE = ("every case is one (value, format) pair sent through Table.write + Table.set_cell_formatting + Cell.formatted_value "
        "and through the model; special values (ties at every place 0..10, carries, powers of ten +-1 unit in the 15th digit, "
        "zero, tiny negatives, negatives of all) x the full product places{0..10,auto} x separator x 4 negative styles; "
        "every currency x accounting x 3 values; bases 2..36 x places 0..8 x minus/two's complement x integers, ties, powers "
        "of two; 9 fraction accuracies x special + seeded values; seeded <=15-digit decimals x sampled formats. Custom "
        "patterns: every archive add_custom_format can build (3x3 paddings x 0..10 integer x 0..10 decimal tokens x separator: "
        "archive fields compared exhaustively; rendering for 0..6 x 0..6 and a few larger) x probe + sampled special values; 25 "
        "representative API patterns x the whole special-value pool; every distinct custom number archive of the reference "
        "workbooks and 25 hand-made literal patterns (quoted text holding digits / # 0 . , / a repeated spec, currency glyph, "
        "percent) x values; _expand_quotes on all strings of length <= 6 over {quote, letter, digit}; format(int,'0w,'); text "
        "patterns after save/reopen; the renderer chosen by Cell.formatted_value for every format kind and for every distinct "
        "(cell type, format ids) combination of the reference workbooks. Format-selection glue (checks/fmtglue.py, driver op "
        "fmtd): every format name (and names that are no format) x every cell kind Table.write can make (+ an empty cell) x "
        "{no argument, one argument}; for every format every subset of its optional arguments with valid and invalid values "
        "(every value of an argument alone, seeded assignments for larger subsets) x a value pool, slider / stepper x every "
        "control format x that format's arguments; every ordered pair of formats set one after the other on one cell; a sample "
        "saved and reopened (archive, control and display read from the file); every formatted non-date cell of every fixture "
        "document (<= 1200 distinct per file in quick). Compared per case: exception class, formatter called (the real "
        "formatters are wrapped in-process), text, id slot, archive fields and which of them are set, control archive, currency "
        "cell type. A case is non-trivial once per distinct request line.")
MANIFEST = {
    "text": "Core proved, glue assumed: Lean theorems about an exact-decimal model of _format_decimal/_format_currency/"
            "_format_scientific/_format_base/_twos_complement/_format_fraction and of the custom number pattern renderer "
            "(_decode_number_format, _expand_quotes, _decode_text_format, the dispatch in Cell.formatted_value/_custom_format, "
            "the archive builder add_custom_decimal_format_archive): decimal_reads_back (the digits shown, read back, are the "
            "value rounded half-up to the places shown, within half a unit), places_exact, decoration_only (grouping, sign "
            "style, parentheses, percent, currency symbol, accounting layout never change a digit), base_reads_back + "
            "twos_complement_value, fraction_fixed_nearest, fraction_ndigit (Fraction.limit_denominator as CPython 3.12 writes "
            "it always returns for a fraction in lowest terms, denominator in 1..10^N-1, lowest terms, and no admissible "
            "fraction is strictly closer), scientific_mantissa (the text d.dddE+xx read back is mantissa*10^exponent, "
            "normalised, nearest/ties-to-even, carry and zero included), custom_digits_read_back (literal text + number text + "
            "literal text; the number text reads back as the scaled value rounded half-up to the decimals the pattern shows), "
            "custom_literals_pass_through (quoted text of any characters appears unchanged; the spec is never searched or "
            "replaced inside it), custom_padding_only_pads, custom_total + custom_builder_well_formed + custom_api_total (no "
            "exception for any value and any archive the library's own builder can produce; explicit well-formedness "
            "predicate otherwise), custom_dispatch; third-party sigfig / float formatting / float products enter as stated "
            "assumptions exercised by the correspondence on every run. _invert_bit_str, _twos_complement and "
            "_format_fraction_parts_to are additionally TRANSLATED from cell.py on every run (harness/py2lean.py -> "
            "Gen/TrNumFmt.lean): the character-level two's-complement code (bit string, inversion, rjust with ones, int(.,2)+1, "
            "bin/oct/hex) is proved equal to the arithmetic model 2^bits - a for every a >= 1 (twos_complement_eq_model), and the "
            "two clauses are restated over the translated definitions (Props.C13.Src.src_*). Custom number patterns are read as "
            "part of the property (its anchors name _decode_number_format; its decoration clause names zero padding, which only "
            "they have). GLUE NOW MODELLED (Model/FormatDispatch.lean, reads the generated dispatch tables and dataclass "
            "defaults instead of retyping them): Formatting.__post_init__, Table.set_cell_formatting/_set_cell_data_format, "
            "format_archive, control_cell_archive, cell_popup_model, Cell._set_formatting, Cell.formatted_value/_custom_format/"
            "_date_format/_format_fraction dispatch. dispatch_total (set_cell_formatting raises only TypeError / IndexError / "
            "ValueError, otherwise formatted_value's dispatch selects exactly one formatter and cannot fail), formatting_defaults "
            "(every default and every validation of __post_init__), set_then_display (for each number format the text is that "
            "format's formatter applied with the arguments of the Formatting object, unchanged), control_displays_number_format "
            "(a slider / stepper with control_format X displays exactly what format X displays for the same arguments, same "
            "exception otherwise), set_then_display_tickbox / _popup, control_archive_kind, display_reads_back / _base (the C13 "
            "read-back clauses stated once over set_cell_formatting + formatted_value).",
    "note": "sigfig is modelled for the call shapes used (round half-up on decimal digits); %E and round() as correctly "
            "rounded ties-to-even; the float products value*scale_factor(*100.0) of custom patterns are supplied to the model "
            "as exact decimals of their repr; the model mirrors the code after fixes/C13-*.patch.",
    "technique": "Lean 4 proof over exact decimals (two's complement and fraction layout proved equal to their translation from the Python source) + differential correspondence through the real API + numeric read-back oracle",
}
ASSUMPTIONS = [
    "sigfig.round(v, 15 [,type=str]) and sigfig.round(str, decimals=p, type=str) round half-up on decimal digits and print "
    "positional notation with exactly p decimals (compared on every run)",
    "sigfig.round(int_str, spacer=',', spacing=3, type=str) groups by three from the right (compared)",
    "format(float, '.pE') and round(float) are correctly rounded, ties to even, on the exact binary value (compared)",
    "Decimal(repr(x)) identifies the float x; values written through the API carry <= 15 significant digits",
    "denominator * (value - int(value)) in _float_to_fraction: the float product is supplied to the model as an exact ratio",
    "custom patterns: value * scale_factor and (that) * 100.0 are float products; both are supplied to the model as "
    "Decimal(repr(product)) (positional rendering) and Decimal(product) (scientific spec); the oracle compares with the "
    "exact decimal product and allows 2^-50 relative slack at a rounding boundary when a scale or percent applies",
    "format(int, '0w,') zero-fills with grouping to the least number of digits whose grouped length is >= w (compared "
    "exhaustively for w <= 15 on 15 integers); format(int, ','), str.rjust/ljust/rstrip/partition/split/replace as documented",
    "re.sub(r\"'[^']*'\", ...) and re.search(r'([#0.,]+(E[+]\\d+)?)', ...) are leftmost/greedy; \\d is the generated digit table",
    "the archive fields of a custom format are copied from the real TSK.FormatStructArchive (no protobuf is modelled)",
    "glue: a format archive is the record of the fields the library sets / reads (an unset field reads as its proto2 default, an "
    "integer outside uint32 is protobuf's ValueError, a keyword the message does not have is ValueError); data-list key "
    "allocation and the memoising wrapper of format_archive are outside the model (C03); the float operations of the "
    "formatters (x*100, sigfig(x,15), den*(x-int(x)), x*scale_factor) are supplied per case as exact decimals; str(value) of "
    "numbers, dates and durations is CPython's and is supplied; argument values are well typed (ints, bools, str, enum "
    "members) - ill-typed values are not modelled",
]

NEG_STYLES = (0, 1, 2, 3)
FRACTION_ACCURACIES = {"HALVES": 2, "QUARTERS": 4, "EIGTHS": 8, "SIXTEENTHS": 16, "TENTHS": 10, "HUNDRETHS": 100,
                       "ONE": 0xFFFFFFFF, "TWO": 0xFFFFFFFE, "THREE": 0xFFFFFFFD}


class _Impl:
    def __init__(self):
        from numbers_parser import Document
        self.Document = Document
        self._new()

    def _new(self):
        self.doc = self.Document(num_header_rows=0, num_header_cols=0, num_rows=2, num_cols=2)
        self.table = self.doc.sheets[0].tables[0]
        self.n = 0

    def show(self, x, kind, **kw):
        """(text or None, 'ok <enc>' / 'err <Class>', value held by the cell)"""
        self.n += 1
        if self.n > 20000:
            self._new()
        try:
            self.table.write(0, 0, x)
            self.table.set_cell_formatting(0, 0, kind, **kw)
            c = self.table.cell(0, 0)
            t = c.formatted_value
            return t, "ok " + enc_text(t), c.value
        except Exception as e:  # noqa: BLE001
            return None, "err " + exc_name(e), x


def dec_of(v) -> Decimal:
    """the exact decimal identifying a cell value (never the float itself)."""
    return Decimal(v) if isinstance(v, int) else Decimal(repr(v))


def enc_dec(d: Decimal) -> str:
    s, digits, e = d.as_tuple()
    m = int("".join(map(str, digits))) if digits else 0
    return f"{s} {m} {e}"


# ---------------------------------------------------------------------------------------------
# independent numeric read-back (the property)
# ---------------------------------------------------------------------------------------------
DEC_BODY = re.compile(r"^(\d+|\d{1,3}(?:,\d{3})+)(?:\.(\d+))?$")


def read_decimal(text: str, thousands: bool):
    """-> (sign or None, magnitude Decimal, decimals shown) or None if not decimal notation."""
    neg = None
    t = text
    if t.startswith("(") and t.endswith(")"):
        neg, t = True, t[1:-1]
    if t.endswith("%"):
        t = t[:-1]
    if t.startswith("-"):
        if neg:
            return None
        neg, t = True, t[1:]
    m = DEC_BODY.match(t)
    if not m:
        return None
    ip = m.group(1)
    if "," in ip and not thousands:
        return None
    if thousands and len(ip.replace(",", "")) > 3 and "," not in ip:
        return None
    ipd = ip.replace(",", "")
    if len(ipd) > 1 and ipd[0] == "0":
        return None
    return bool(neg), Decimal(ipd + ("." + m.group(2) if m.group(2) else "")), len(m.group(2) or "")


def check_decimal(ctx: Ctx, what: str, text, v: Decimal, places, thousands, style, inp, percent=False):
    """v is the exact value the format displays (already x100 for percent)."""
    if text is None:
        ctx.violation(f"{what}-raises", f"{inp}", inp)
        return
    r = read_decimal(text, thousands)
    if r is None or percent != text.rstrip(")").endswith("%"):
        sig = "exponent-notation" if re.search(r"\de[-+]?\d", text) else "not-decimal-notation"
        ctx.violation(f"{what}-{sig}", f"{inp} displays {text!r}", inp)
        return
    neg, mag, shown = r
    if places is not None and shown != places:
        ctx.violation(f"{what}-places-shown", f"{inp} displays {text!r}: {shown} decimals shown, {places} asked", inp)
        return
    unit = Decimal(1).scaleb(-shown)
    if places is None:
        ok = mag == abs(_round_sig(v, 15))
    else:
        # a value with more than 15 significant digits is displayed through its 15-significant-digit rounding (the precision
        # of a Numbers cell: the library - like Numbers - never shows a 16th digit); both readings are accepted for it
        ok = abs(mag - abs(v)) * 2 <= unit or abs(mag - abs(_round_sig(v, 15))) * 2 <= unit
    if not ok:
        ctx.violation(f"{what}-magnitude", f"{inp} displays {text!r}, value {v}", inp)
        return
    want_neg = v < 0 and mag != 0
    if style == 1:
        sign_ok = not neg
    elif style >= 2:
        sign_ok = (neg == (v < 0)) and (not neg or text.startswith("("))
    else:
        sign_ok = (neg == want_neg) and not text.startswith("(")
    if not sign_ok:
        ctx.violation(f"{what}-sign", f"{inp} displays {text!r}, value {v}", inp)


def _round_sig(v: Decimal, n: int) -> Decimal:
    if v == 0:
        return v
    q = v.adjusted() - n + 1
    return v.quantize(Decimal(1).scaleb(q), rounding="ROUND_HALF_UP")


def check_scientific(ctx: Ctx, text, exact: Decimal, places, inp):
    if text is None:
        ctx.violation("scientific-raises", f"{inp}", inp)
        return
    m = re.match(r"^(-?)(\d)(?:\.(\d+))?E([+-]\d{2,})$", text)
    if not m:
        ctx.violation("scientific-not-scientific-notation", f"{inp} displays {text!r}", inp)
        return
    shown = len(m.group(3) or "")
    if places is None:
        if shown > 15 and not any("scientific format with automatic places" in n for n in ctx.notes):
            # not a violation: nothing was "asked for", and the text reads back to the stored double exactly
            ctx.notes.append(f"observation (not a violation): scientific format with automatic places displays {shown} decimals")
        places = shown
    if shown != places:
        ctx.violation("scientific-places-shown", f"{inp} displays {text!r}", inp)
        return
    read = Decimal(text)
    unit = Decimal(1).scaleb(int(m.group(4)) - shown)
    if abs(read - exact) * 2 > unit or (read < 0) != (exact < 0 and read != 0) and exact != 0:
        ctx.violation("scientific-magnitude", f"{inp} displays {text!r}, value {exact}", inp)
    if m.group(2) == "0" and exact != 0:
        ctx.violation("scientific-not-normalised", f"{inp} displays {text!r}", inp)


def check_base(ctx: Ctx, text, v: Decimal, base, places, minus, inp):
    if text is None:
        ctx.violation("base-raises", f"{inp}", inp)
        return
    digits = "0123456789ABCDEFGHIJKLMNOPQRSTUVWXYZ"[:base]
    m = re.match(r"^(-?)([" + digits + r"]+)$", text)
    if not m:
        ctx.violation("base-not-a-numeral", f"{inp} displays {text!r}", inp)
        return
    body = m.group(2)
    n = int(body, base)
    twos = (not minus) and base in (2, 8, 16)
    if twos and v < Decimal("-0.5"):
        if m.group(1):
            ctx.violation("base-twos-complement-sign", f"{inp} displays {text!r}", inp)
            return
        bits = n.bit_length()
        signed = n - (1 << bits)
        if bits < 32 or abs(Decimal(signed) - v) * 2 > 1 or (base == 2 and len(body) != bits):
            ctx.violation("base-twos-complement-value", f"{inp} displays {text!r} = {n} ({bits} bits), value {v}", inp)
        return
    if m.group(1):
        n = -n
    if abs(Decimal(n) - v) * 2 > 1 or (m.group(1) and n == 0):
        ctx.violation("base-magnitude", f"{inp} displays {text!r} = {n}, value {v}", inp)
        return
    width = max(places, 1)
    if len(body) < places or (len(body) > width and body[0] == "0"):
        ctx.violation("base-padding", f"{inp} displays {text!r}", inp)


def check_fraction(ctx: Ctx, text, v: Fraction, accuracy: int, inp):
    if text is None:
        ctx.violation("fraction-raises", f"{inp}", inp)
        return
    m = re.match(r"^(-?)(?:(\d+)|(?:(\d+) )?(\d+)/(\d+))$", text)
    if not m:
        ctx.violation("fraction-not-a-fraction", f"{inp} displays {text!r}", inp)
        return
    if m.group(2) is not None:
        whole, num, den = int(m.group(2)), 0, None
    else:
        whole, num, den = int(m.group(3) or 0), int(m.group(4)), int(m.group(5))
        if num == 0 or num >= den or (m.group(3) is not None and whole == 0):
            ctx.violation("fraction-not-normalised", f"{inp} displays {text!r}", inp)
            return
    read = Fraction(whole) + (Fraction(num, den) if den else 0)
    if m.group(1):
        read = -read
        if read == 0:
            ctx.violation("fraction-negative-zero", f"{inp} displays {text!r}", inp)
            return
    if accuracy & 0xFF000000:
        maxden = 10 ** (0x100000000 - accuracy) - 1
        if den is not None and den > maxden:
            ctx.violation("fraction-denominator-too-large", f"{inp} displays {text!r}", inp)
            return
        err = abs(read - v)
        # no fraction with an admissible denominator is strictly closer
        for q in range(1, maxden + 1):
            p = round(v * q)
            if abs(Fraction(p, q) - v) < err:
                ctx.violation("fraction-not-nearest", f"{inp} displays {text!r}, {p}/{q} is closer to {float(v)!r}", inp)
                return
    else:
        if den is not None and den != accuracy:
            ctx.violation("fraction-wrong-denominator", f"{inp} displays {text!r}", inp)
            return
        # nearest multiple of 1/den; the code rounds the *float* product den*(v-int(v)), so allow one ulp at a tie
        if abs(read - v) * 2 * accuracy > 1 + Fraction(1, 10 ** 9):
            ctx.violation("fraction-magnitude", f"{inp} displays {text!r} = {read}, value {float(v)!r}", inp)


# ---------------------------------------------------------------------------------------------
# values
# ---------------------------------------------------------------------------------------------
def special_values() -> list:
    vals: list = [0, 0.0, 1, -1, 12, 1000, -1000, 999999, 1234567, -1234567, 10 ** 15 - 1, -(10 ** 15 - 1), 123456789012345]
    for p in range(0, 11):                                   # ties at every place, with carries
        u = Decimal(1).scaleb(-p)
        for base in ("0", "1", "2", "9", "99", "999", "1234", "12345678"):
            for tie in ("0.5", "1.5", "0.05", "0.95", "0.4999", "0.5001"):
                d = Decimal(base) + Decimal(tie) * u
                if len(d.normalize().as_tuple().digits) <= 15:
                    vals.append(float(d))
    vals += [999.995, 9.995, 0.9995, 99.95, 999999.9995, 0.995, 9999999.99, 0.999999999995, 2.675, 1.005, 0.125, 0.375, 2.5, 3.5]
    for k in range(-10, 15):                                 # powers of ten +- one unit in the 15th digit
        t = Decimal(1).scaleb(k)
        vals += [float(t), float(t + Decimal(1).scaleb(k - 14)), float(t - Decimal(1).scaleb(k - 15))]
    vals += [-0.001, -1e-7, -4e-11, 0.001, 1e-7, 1.234e-6, 5e-5, -0.004, -0.005, -0.0049, 0.07, 0.1 + 0.2, 1 / 3, -1 / 3, 2 / 3,
             123456.789, 12345.012346, 0.5, -0.5, -2.5, 2.99, -0.99, 2.9999, 0.05, 0.01, -0.01, 1e-12, 123456789012.345]
    # non-integers with more than 15 significant digits whose integer part alone has 13..15 digits (held by a cell
    # unrounded: automatic places then round to 15 significant digits, which leaves no fraction digit at all, or only zeros)
    vals += [123456789012349.6, 123456789012340.4, 99999999999999.95, 999999999999999.9, 777777777777699.75, 12345678901234.96,
             12345678901234.06, 1234567890123.496, 1234567890123.004, 9999999999999.996, 100000000000000.5, 500000000000000.1,
             120000000000000.3, 10000000000000.02]
    out = []
    seen = set()
    for v in vals + [-v for v in vals]:
        if isinstance(v, float) and v == 0 and str(v) == "-0.0":
            continue
        k = (type(v).__name__, repr(v))
        if k not in seen and abs(v) < 10 ** 15:
            seen.add(k)
            out.append(v)
    return out


def seeded_value(rng):
    nd = rng.randrange(1, 16)
    m = rng.randrange(10 ** (nd - 1), 10 ** nd)
    e = rng.randrange(-12, 15 - nd + 1)
    v = float(Decimal(m).scaleb(e))
    if abs(v) >= 10 ** 15:
        v = float(m)
    if rng.random() < 0.5:
        v = -v
    if rng.random() < 0.15:
        v = int(v) if abs(v) >= 1 else v
    return v


def _cap_violations(ctx: Ctx, per_signature: int = 3):
    """keep at most `per_signature` reports of one failure class so that a known finding cannot crowd out a new one
    (Ctx stores at most 200 violations)."""
    seen: dict[str, int] = {}
    orig = ctx.violation

    def violation(sig, what, inp):
        seen[sig] = seen.get(sig, 0) + 1
        if seen[sig] <= per_signature:
            orig(sig, what, inp)
    ctx.violation = violation


def translated_source_stream(ctx):
    """_twos_complement and _format_fraction_parts_to called directly vs the definitions translated from cell.py."""
    import common
    from numbers_parser.cell import _format_fraction_parts_to, _twos_complement
    rng = ctx.rng
    vals = list(range(1, 300)) + [2 ** k + d for k in range(1, 70) for d in (-1, 0, 1)] + \
        [rng.randrange(1, 2 ** 62) for _ in range(2000 if ctx.quick else 50000)]
    req, out = [], []
    for a in vals:
        for b in (2, 8, 16):
            req.append(f"numfmt twos {-a} {b}")
            try:
                t = _twos_complement(-a, b)
                out.append("ok " + common.enc_text(t))
                bits = max(32, (a - 1).bit_length() + 1)
                if int(t, b) - 2 ** bits != -a:
                    ctx.violation("base-twos-complement-value", f"_twos_complement({-a}, {b}) = {t!r} reads {int(t, b)} - 2^{bits}",
                                  {"value": -a, "base": b})
            except Exception as e:  # noqa: BLE001
                out.append("err " + common.exc_name(e))
    for w in range(-3, 4):
        for n in range(-4, 5):
            for d in range(1, 5):
                req.append(f"numfmt fracparts {w} {n} {d}")
                try:
                    out.append("ok " + common.enc_text(_format_fraction_parts_to(w, n, d)))
                except Exception as e:  # noqa: BLE001
                    out.append("err " + common.exc_name(e))
    name = "_twos_complement / _format_fraction_parts_to called directly vs the definitions translated from the source"
    sub = ctx.subspaces.setdefault(name, {"cases": 0, "exhaustive": False, "disagreements": 0})
    sub["cases"] += len(req)
    ctx.evaluations += len(req)
    if ctx.translated_available:
        tr = common.run_model(req, driver=common.TRDRIVER)
        sub["translated_source_cases"] = len(req)
        for r, a, b in zip(req, out, tr):
            if a != b:
                sub["disagreements"] += 1
                if len(ctx.disagreements) < 50:
                    ctx.disagreements.append({"subspace": name, "request": r, "impl": a, "model": b})
    else:
        sub["skipped_model"] = True


def run(ctx: Ctx):
    translated_source_stream(ctx)
    _cap_violations(ctx)
    # sigfig calls warnings.resetwarnings() on every use, so filters do not silence it
    saved = warnings.showwarning
    warnings.showwarning = lambda *a, **k: None
    try:
        _run(ctx)
    finally:
        warnings.showwarning = saved


def _run(ctx: Ctx):
    from numbers_parser import FractionAccuracy, NegativeNumberStyle
    from numbers_parser.currencies import CURRENCIES, CURRENCY_SYMBOLS
    from sigfig import round as sigfig
    rng = ctx.rng
    impl = _Impl()
    specials = special_values()
    n_seeded = 1500 if ctx.quick else 60000
    seeded = [seeded_value(rng) for _ in range(n_seeded)]
    places_all = list(range(0, 11)) + [None]

    def places_arg(p):
        return 253 if p is None else p

    # --- decimal + percentage ----------------------------------------------------------------------------------------
    req, out = [], []

    def one_decimal(x, p, thou, style, percent):
        kind = "percentage" if percent else "number"
        text, o, held = impl.show(x, kind, decimal_places=p, show_thousands_separator=thou,
                                  negative_style=NegativeNumberStyle(style))
        shown_value = held * 100 if percent else held          # what the code passes to _format_decimal
        req.append(f"numfmt dec {enc_dec(dec_of(shown_value))} {places_arg(p)} {int(thou)} {style} {int(percent)}")
        out.append(o)
        inp = {"value": repr(x), "format": kind, "decimal_places": p, "show_thousands_separator": thou, "negative_style": style}
        check_decimal(ctx, kind, text, dec_of(held) * (100 if percent else 1), p, thou, style, inp, percent=percent)

    for x in specials:
        for p in places_all:
            for thou in (False, True):
                for style in NEG_STYLES:
                    one_decimal(x, p, thou, style, False)
    ctx.correspond("decimal: special values x places 0..10+auto x separator x 4 negative styles (full product)", req, out,
                   exhaustive=True)
    req, out = [], []
    for x in seeded:
        for _ in range(3):
            one_decimal(x, rng.choice(places_all), rng.random() < 0.5, rng.choice(NEG_STYLES), False)
    ctx.correspond("decimal: seeded <=15-digit values x sampled formats", req, out)
    req, out = [], []
    pct_vals = [v for v in specials if abs(v) < 10 ** 13][::3] + [0.07, 0.125, 1.005, -0.5, 0.29, 0.57, 0.58, 1.15, 0.0007, 1e-9]
    for x in pct_vals:
        for p in places_all:
            one_decimal(x, p, rng.random() < 0.5, rng.choice(NEG_STYLES), True)
    for x in seeded[: len(seeded) // 2]:
        if abs(x) < 10 ** 13:
            one_decimal(x, rng.choice(places_all), rng.random() < 0.5, rng.choice(NEG_STYLES), True)
    ctx.correspond("percentage: special + seeded values x places x separator x negative styles", req, out)

    # --- currency --------------------------------------------------------------------------------------------------------
    req, out = [], []

    def one_currency(x, code, p, thou, style, acct):
        kw = {} if p == "default" else {"decimal_places": p}
        text, o, held = impl.show(x, "currency", currency_code=code, show_thousands_separator=thou,
                                  negative_style=NegativeNumberStyle(style), use_accounting_style=acct, **kw)
        pp = 2 if p in ("default", None) else p     # Formatting.__post_init__: currency defaults to 2 places
        eff_style = 0 if acct else style                   # Formatting: "use_accounting_style overriding negative_style"
        req.append(f"numfmt cur {enc_dec(dec_of(held))} {places_arg(pp)} {int(thou)} {eff_style} {int(acct)} {enc_text(code)}")
        out.append(o)
        inp = {"value": repr(x), "format": "currency", "currency_code": code, "decimal_places": pp,
               "show_thousands_separator": thou, "negative_style": style, "use_accounting_style": acct}
        if text is None:
            ctx.violation("currency-raises", f"{inp} -> {o}", inp)
            return
        symbol = CURRENCY_SYMBOLS.get(code, code + " ")
        if not text.startswith(symbol):
            ctx.violation("currency-symbol", f"{inp} displays {text!r}", inp)
            return
        rest = text[len(symbol):]
        if acct:
            if not rest.startswith("\t"):
                ctx.violation("currency-accounting-layout", f"{inp} displays {text!r}", inp)
                return
            rest = rest[1:]
            v = dec_of(held)
            if (v < 0) != rest.startswith("("):
                ctx.violation("currency-accounting-sign", f"{inp} displays {text!r}", inp)
                return
            check_decimal(ctx, "currency-accounting", rest, v, pp, thou, 2 if v < 0 else 0, inp)
        else:
            check_decimal(ctx, "currency", rest, dec_of(held), pp, thou, style, inp)

    cur_vals = [-1234.5, -0.001, 1234567.891]
    for code in CURRENCIES:
        for x in cur_vals:
            one_currency(x, code, "default", rng.random() < 0.5, 0, rng.random() < 0.5)
    for x in specials[::2] + seeded[:300]:
        for acct in (False, True):
            for style in NEG_STYLES:
                one_currency(x, rng.choice(("GBP", "EUR", "CHF", "JPY", "USD", "XAF")), rng.choice(places_all + ["default"]),
                             rng.random() < 0.5, style, acct)
    ctx.correspond(f"currency: all {len(CURRENCIES)} codes x 3 values; special+seeded values x accounting x 4 negative styles",
                   req, out)

    # --- scientific ------------------------------------------------------------------------------------------------------
    req, out = [], []
    for x in specials + seeded[:400]:
        for p in (places_all if x in specials[:60] or rng.random() < 0.1 else [rng.choice(places_all)]):
            text, o, held = impl.show(x, "scientific", decimal_places=p)
            v15 = sigfig(held, sigfigs=15, warn=False)
            exact = Decimal(v15)
            req.append(f"numfmt sci {enc_dec(exact)} {places_arg(p)}")
            out.append(o)
            inp = {"value": repr(x), "format": "scientific", "decimal_places": p}
            check_scientific(ctx, text, exact, p, inp)
    ctx.correspond("scientific: special + seeded values x places 0..10 + auto", req, out)

    # --- number base -----------------------------------------------------------------------------------------------------
    req, out = [], []
    ints = [0, 1, 2, 7, 8, 9, 10, 15, 16, 35, 36, 255, 256, 1295, 1296, 2 ** 31 - 1, 2 ** 31, 2 ** 31 + 1, 2 ** 32 - 1, 2 ** 32,
            2 ** 32 + 1, 2 ** 33, 2 ** 40 + 12345, 2 ** 48, 2 ** 48 + 1, 2 ** 49 - 1, 2 ** 49, 2 ** 49 + 1, 10 ** 15 - 1, 999999999]
    base_vals = ints + [-i for i in ints if i] + [0.4, -0.4, 0.5, -0.5, 0.6, -0.6, 1.5, 2.5, -2.5, 3.5, 255.5, 256.5, -255.5,
                                                   1e-9, -1e-9, 12345.678, -12345.678, 0.49999999999999994]
    base_vals += [rng.randrange(-2 ** 50, 2 ** 50) for _ in range(60)] + [rng.uniform(-70000, 70000) for _ in range(40)]

    def one_base(x, b, p, minus):
        text, o, held = impl.show(x, "base", base=b, base_places=p, base_use_minus_sign=minus)
        req.append(f"numfmt base {enc_dec(dec_of(held))} {b} {p} {int(minus)}")
        out.append(o)
        inp = {"value": repr(x), "format": "base", "base": b, "base_places": p, "base_use_minus_sign": minus}
        check_base(ctx, text, dec_of(held), b, p, minus, inp)

    for x in base_vals[: len(ints) * 2 + 17]:
        for b in range(2, 37):
            one_base(x, b, rng.randrange(0, 9), True)
        for b in (2, 8, 16):
            for p in (0, 3, 8):
                one_base(x, b, p, False)
    for b in range(2, 37):
        for p in range(0, 9):
            for x in (rng.choice(base_vals), 5, -5, 0):
                one_base(x, b, p, True)
                if b in (2, 8, 16):
                    one_base(x, b, p, False)
    ctx.correspond("base: bases 2..36 x places 0..8 x minus sign / two's complement x integers, ties, powers of two, seeded",
                   req, out)

    # --- fractions -------------------------------------------------------------------------------------------------------
    req, out = [], []
    frac_vals = [v for v in specials if abs(v) < 10 ** 9][::2] + [-2.5, 2.99, -0.99, 2.9999, -2.9999, 0.05, 0.25, 0.75, -0.75,
                                                                   1 / 3, 2 / 3, 1 / 7, 22 / 7, 3.14159265358979, 0.0625, 0.03125,
                                                                   0.999, 0.9999, 99.995, 0.005, -0.005, 7.0, -7.0, 0.0]
    frac_vals += [rng.randrange(-10 ** 6, 10 ** 6) / rng.choice((2, 3, 4, 7, 8, 10, 16, 100, 997, 1000)) for _ in range(150 if ctx.quick else 3000)]
    for x in frac_vals:
        accs = FRACTION_ACCURACIES.items() if (x in frac_vals[:80] or rng.random() < 0.2) else [rng.choice(list(FRACTION_ACCURACIES.items()))]
        for name, acc in accs:
            text, o, held = impl.show(x, "fraction", fraction_accuracy=FractionAccuracy(acc))
            inp = {"value": repr(x), "format": "fraction", "fraction_accuracy": name}
            fx = float(held)
            if acc & 0xFF000000:
                pq = Fraction(fx)
                req.append(f"numfmt fracdig {0x100000000 - acc} {pq.numerator} {pq.denominator}")
            else:
                t = acc * (fx - int(fx))
                tp, tq = abs(t).as_integer_ratio()
                req.append(f"numfmt fracfix {acc} {enc_dec(dec_of(held))} {int(t < 0)} {tp} {tq}")
            out.append(o)
            check_fraction(ctx, text, Fraction(dec_of(held)), acc, inp)
    ctx.correspond("fraction: 9 accuracies x special + seeded values", req, out)

    # --- rating ----------------------------------------------------------------------------------------------------------
    req, out = [], []
    for x in (0, 1, 2, 3, 4, 5, 0.0, 3.0, 5.0, 2.7, 4.999, -1, -0.5, 7):
        text, o, held = impl.show(x, "rating")
        req.append(f"numfmt rating {enc_dec(dec_of(held))}")
        out.append(o)
        if float(held).is_integer() and 0 <= held <= 5 and (text is None or text != "★" * int(held)):
            ctx.violation("rating-stars", f"rating {x!r} displays {text!r}", {"value": repr(x), "format": "rating"})
    ctx.correspond("star rating: 0..5 and out-of-range values", req, out, exhaustive=True)

    # --- format changed again on the same cell after its text was read --------------------------------------------------
    reformat_sequences(ctx, specials[::7] + seeded[:200])

    # --- custom number patterns, text patterns, dispatch (checks/c13_custom.py) -------------------------------------------
    from checks import c13_custom
    c13_custom.run_custom(ctx, specials, seeded)
    c13_custom.run_text_and_dispatch(ctx)

    # --- the format-selection glue: Formatting / set_cell_formatting / format_archive / control archives / formatted_value dispatch
    from checks import fmtglue
    import sys
    fmtglue.run_c13(ctx, sys.modules[__name__])

    # --- the third-party assumptions, directly ---------------------------------------------------------------------------
    bad = 0
    for x in specials + seeded:
        if isinstance(x, float) and sigfig(x, sigfigs=15, warn=False) != x and len(dec_of(x).normalize().as_tuple().digits) <= 15:
            bad += 1
    ctx.extra["sigfig_15_not_identity_on_15_digit_values"] = bad
    ctx.count("assumption: sigfig(v, 15) is the identity on <=15-digit values", len(specials) + len(seeded))


def reformat_sequences(ctx: Ctx, values):
    """the displayed text is a function of (value, format): a cell whose format is changed again after its displayed text
    was read (no write in between, same Cell object) must display exactly what a freshly written cell with that format
    displays - in the open document and, for the last format, after save + reopen."""
    import os
    import tempfile
    from numbers_parser import Document, FractionAccuracy, NegativeNumberStyle
    rng = ctx.rng
    fresh = _Impl()

    def spec():
        k = rng.choice(["number", "number", "percentage", "currency", "scientific", "base", "fraction", "rating"])
        if k in ("number", "percentage"):
            kw = {"decimal_places": rng.choice([None, 0, 1, 2, 4, 7]), "show_thousands_separator": rng.random() < 0.5,
                  "negative_style": NegativeNumberStyle(rng.randrange(4))}
        elif k == "currency":
            kw = {"currency_code": rng.choice(["USD", "EUR", "GBP", "JPY"]), "decimal_places": rng.choice([0, 2, 3]),
                  "use_accounting_style": rng.random() < 0.3}
        elif k == "scientific":
            kw = {"decimal_places": rng.choice([0, 2, 5])}
        elif k == "base":
            kw = {"base": rng.choice([2, 8, 16, 36]), "base_places": rng.choice([0, 4]), "base_use_minus_sign": rng.random() < 0.5}
        elif k == "fraction":
            kw = {"fraction_accuracy": rng.choice(list(FractionAccuracy))}
        else:
            kw = {}
        return k, kw
    n = 120 if ctx.quick else 3000
    for i in range(n):
        x = rng.choice(values)
        if isinstance(x, float) and abs(x) >= 10 ** 15:
            continue
        doc = Document(num_header_rows=0, num_header_cols=0, num_rows=2, num_cols=2)
        table = doc.sheets[0].tables[0]
        try:
            table.write(0, 0, x)
        except Exception:  # noqa: BLE001
            continue
        seq, last = [], None
        for _ in range(rng.randrange(2, 5)):
            k, kw = spec()
            if k == "rating" and not (0 <= x <= 50):
                continue   # a rating displays `value` stars: only small values
            log = [k, {a: (v.name if hasattr(v, "name") else v) for a, v in kw.items()}]
            try:
                table.set_cell_formatting(0, 0, k, **kw)
                got = table.cell(0, 0).formatted_value
            except Exception as e:  # noqa: BLE001
                got = "!raised " + exc_name(e)
            want = fresh.show(x, k, **kw)
            want = want[0] if want[0] is not None else "!raised " + want[1].split(" ")[-1]
            seq.append(log)
            ctx.count("format changed again on a cell whose displayed text was already read: text vs a freshly written cell", 1)
            if got != want:
                ctx.violation("display-depends-on-format-history",
                              f"value {x!r}: formats applied in turn to one cell {seq}; after the last one the cell displays "
                              f"{got!r}, a freshly written cell with that format displays {want!r}",
                              {"value": repr(x), "format_sequence": seq})
                break
            last = (k, kw, want)
        if last is not None and i % 4 == 0:
            fd, path = tempfile.mkstemp(suffix=".numbers")
            os.close(fd)
            try:
                doc.save(path)
                got = Document(path).sheets[0].tables[0].cell(0, 0).formatted_value
            except Exception as e:  # noqa: BLE001
                got = "!raised " + exc_name(e)
            finally:
                os.unlink(path)
            if got != last[2] and not last[2].startswith("!raised"):
                ctx.violation("display-depends-on-format-history",
                              f"value {x!r}: formats applied in turn {seq}; after save and reopen the cell displays {got!r}, "
                              f"a freshly written cell with the last format {last[2]!r}", {"value": repr(x), "format_sequence": seq, "reopened": True})
        ctx.mark(("reformat", i))


def replay(data):
    warnings.showwarning = lambda *a, **k: None
    from numbers_parser import FractionAccuracy, NegativeNumberStyle
    i = dict(data.get("input", {}))
    if "format_sequence" in i:
        from numbers_parser import Document
        x = eval(i["value"], {"__builtins__": {}}, {})
        doc = Document(num_header_rows=0, num_header_cols=0, num_rows=2, num_cols=2)
        table = doc.sheets[0].tables[0]
        table.write(0, 0, x)
        out = []
        for k, kw in i["format_sequence"]:
            kw = dict(kw)
            if "negative_style" in kw:
                kw["negative_style"] = NegativeNumberStyle[kw["negative_style"]]
            if "fraction_accuracy" in kw:
                kw["fraction_accuracy"] = FractionAccuracy[kw["fraction_accuracy"]]
            table.set_cell_formatting(0, 0, k, **kw)
            out.append([k, table.cell(0, 0).formatted_value, _Impl().show(x, k, **kw)[0]])
        return {"write": repr(x), "per step [format, same cell displays, fresh cell displays]": out}
    if i.get("glue"):
        from checks import fmtglue
        return fmtglue.replay(i)
    if str(i.get("format", "")).startswith("custom"):
        from checks import c13_custom
        return c13_custom.replay_custom(i)
    x = eval(i.pop("value"), {"__builtins__": {}}, {})  # repr of an int/float produced by this module
    kind = i.pop("format")
    if "negative_style" in i:
        i["negative_style"] = NegativeNumberStyle(i["negative_style"])
    if "fraction_accuracy" in i:
        i["fraction_accuracy"] = FractionAccuracy[i["fraction_accuracy"]]
    text, o, held = _Impl().show(x, kind, **i)
    return {"write": repr(x), "cell.value": repr(held), "set_cell_formatting": [kind, {k: str(v) for k, v in i.items()}],
            "formatted_value": text if text is not None else o}
