"""C08 — formula text is a faithful infix rendering of the stored post-fix expression."""
from __future__ import annotations

import json
import os
import re
import warnings
from collections import Counter
from datetime import date
from decimal import Decimal
from fractions import Fraction

from common import Ctx, enc_text, exc_name

PID = "C08"
PROPS_MODULE = "NumbersModel.Props.C08"
_T = "NumbersModel.Props.C08."
THEOREMS = [_T + t for t in (
    "exec_compile", "exec_compile_top", "render_total", "render_deterministic", "string_literal_invertible",
    "string_literal_wellquoted", "number_text_denotes", "number_text_denotes_plain", "pinned_number_to_str_wrong",
    "proposed_fix_number_text_denotes", "dispatch_as_modelled", "function_names_distinct", "parse_show",
    "parse_show_expr", "render_canon", "lex_renderPT", "lex_render", "read_render", "text_determines_expression",
    "function_names_lex", "a1_references_nameSafe", "prec_as_library")]
PARTIAL = {
    _T + "number_text_denotes":
        "restricted to the repr shapes the pinned number_to_str renders faithfully (sciOk); the full statement over all "
        "repr shapes is false for the pinned code (pinned_number_to_str_wrong, known finding) and proved for the proposed "
        "repair (proposed_fix_number_text_denotes).",
}
RULE = ("a case is one generated expression tree (or one raw node sequence / one number repr / one reference text) pushed "
        "through the real TableFormulas.formula (reference texts: the real node_to_ref via C09's documents); distinct "
        "non-trivial = distinct rendered texts of trees with at least one operator, call, list or array node")
MANIFEST = {
    "text": "Core proved, glue assumed: exec_compile (the stack machine mirroring TableFormulas.formula + all Formula.* "
            "handlers, run on the post-fix serialisation of ANY expression tree, yields exactly the conventional infix "
            "rendering; induction over trees, no depth bound), string_literal_invertible, number_text_denotes (the "
            "repr shapes the pinned number_to_str renders faithfully: no exponent, negative exponent, positive exponent with "
            "one fraction digit; the remaining positive-exponent shapes are the KNOWN FINDING refuted by "
            "pinned_number_to_str_wrong, and proposed_fix_number_text_denotes proves the proposed repair for all shapes), "
            "render_total, dispatch tables regenerated from source. "
            "The text denotes the stored expression: parse_show (a precedence-climbing token parser reads the token "
            "stream of EVERY well-parenthesised tree back to the tree: literals, references, 12 binary operators, unary "
            "minus, %, lists (a,b,..), calls NAME(arg,..) with 0..n and omitted arguments, 1-D/2-D arrays {a,b;c,d}; "
            "separators as Formula.function/list/array print them; fuel bound proved), lex_render (a character-level "
            "lexer - decimal numbers, quoted strings with doubled quotes, names/references as maximal runs incl. quoted "
            "segments, one/two-character operators incl. the typographic glyphs, separators, brackets - reads render e "
            "back to exactly that token stream) and their composition read_render: for every WellFormed, WellParen "
            "stored expression whose reference texts are nameSafe, formulaText (compile e) = ok text and readText text = "
            "some (canon e), where canon : Expr -> PT forgets only what a text cannot show (number storage form, boolean "
            "node kind, date literal vs the DATE(y,m,d) call it prints as, function id vs name, flat array storage vs "
            "rows); text_determines_expression. Correspondence: random trees -> real "
            "ASTNodeArchive protobufs -> real TableFormulas.formula through a stub model, compared with the Lean model; "
            "the Lean lexer+parser is run on the REAL output text of every generated case and its tree compared with the "
            "generated tree; oracle = independent precedence-climbing parser of the output text.",
    "note": "float repr, datetime arithmetic and protobuf field access are supplied by the harness as text/integers; "
            "reference text is opaque here (C09).",
    "technique": "Lean 4 proof (structural induction over nested expression trees) + differential correspondence",
}
ASSUMPTIONS = [
    "CPython float repr: exponent form has exactly one integer digit and (for positive exponents) at most `exp` fraction digits",
    "datetime(2001,1,1)+timedelta(seconds=x) is modelled by a civil-from-days function (exercised on sampled dates)",
    "protobuf HasField / default values behave as documented",
    "int() is modelled for [+-]?[0-9]+ only (all that repr emits)",
]

MAGIC = 0x3040000000000000
OPS = {1: "+", 2: "-", 3: "×", 4: "÷", 5: "^", 6: "&", 7: ">", 8: "≥", 9: "<", 10: "≤", 11: "=", 12: "≠"}
OP_NODE = {1: "ADDITION_NODE", 2: "SUBTRACTION_NODE", 3: "MULTIPLICATION_NODE", 4: "DIVISION_NODE", 5: "POWER_NODE",
           6: "CONCATENATION_NODE", 7: "GREATER_THAN_NODE", 8: "GREATER_THAN_OR_EQUAL_TO_NODE", 9: "LESS_THAN_NODE",
           10: "LESS_THAN_OR_EQUAL_TO_NODE", 11: "EQUAL_TO_NODE", 12: "NOT_EQUAL_TO_NODE"}
PREC = {1: 3, 2: 3, 3: 4, 4: 4, 5: 5, 6: 2, 7: 1, 8: 1, 9: 1, 10: 1, 11: 1, 12: 1}
GLYPH_PREC = {OPS[k]: PREC[k] for k in OPS}

FLOAT_POOL = [0.5, 1.25, 0.1, 12.5, 50.0, 3.0, 1e-7, 1.5e-7, 1.25e-7, 1e-5, 1e16, 1.25e20, 1.5e16, 1e22, 2.5e17,
              1.2345678901234567e30, 123456789012345680000.0, 5e-324, 1.7976931348623157e308, 9.999999999999999e22,
              1e100, 4.5e-300, 0.0001, 0.00012345, 999999999999999.9, 1e15, 9007199254740993.0, 1.8446744073709552e19]
INT_POOL = [0, 1, 2, 7, 10, 100, 12345, 10**15, 10**16, 2**53, 2**63, 2**64 - 1, 10**19]
STR_POOL = ["", "a", "abc", 'say "hi"', '"', '""', 'a,b', "(x)", "1+2", "it's", "{1;2}", "\U0001F600", "é×÷", "TRUE",
            "A1", 'x"', '"x', "a\nb", " ", "≠≤"]


# --------------------------------------------------------------------------- stub model / real code

class _StubModel:
    def __init__(self):
        self.ast = {}

    def formula_ast(self, _tid):
        return self.ast

    def table_name(self, _tid):
        return "Stub"

    def node_to_ref(self, _tid, row, col, node):
        from numbers_parser.xrefs import xl_rowcol_to_cell
        r = node.AST_row.row if node.AST_row.absolute else row + node.AST_row.row
        c = node.AST_column.column if node.AST_column.absolute else col + node.AST_column.column
        return xl_rowcol_to_cell(r, c, row_abs=node.AST_row.absolute, col_abs=node.AST_column.absolute)


class Real:
    """the real TableFormulas over a stub model exposing exactly what `formula` reads."""

    def __init__(self):
        from numbers_parser.formula import TableFormulas
        from numbers_parser.generated.TSCEArchives_pb2 import ASTNodeArrayArchive
        self.N = ASTNodeArrayArchive.ASTNodeArchive
        self.stub = _StubModel()
        self.tf = TableFormulas(self.stub, 1)
        self.types = {v.name: v.number for v in ASTNodeArrayArchive.DESCRIPTOR.enum_types_by_name["ASTNodeType"].values}

    def render(self, nodes, row=5, col=5):
        self.stub.ast = {7: nodes}
        with warnings.catch_warnings():
            warnings.simplefilter("ignore")
            return self.tf.formula(7, row, col)


HOST = (5, 5)


def ref_text(ro, co, ra, ca):
    """independent A1 text of a reference (host cell HOST)."""
    r = ro if ra else HOST[0] + ro
    c = co if ca else HOST[1] + co
    name = ""
    c += 1
    while c:
        c, rem = divmod(c - 1, 26)
        name = chr(65 + rem) + name
    return ("$" if ca else "") + name + ("$" if ra else "") + str(r + 1)


def date_micros(x) -> int:
    return round(Fraction(x) * 10**6)


def known_bad_repr(r: str) -> bool:
    """positive-exponent repr whose mantissa does not have exactly one fraction digit (known finding)."""
    if "e" not in r:
        return False
    _i, f, e = sci_parts(r)
    return e > 0 and len(f) != 1


def tree_has_known_bad(t) -> bool:
    if t[0] == "num":
        return t[1] == "float" and known_bad_repr(repr(t[2]))
    return any(tree_has_known_bad(x) for part in t[1:] for x in (part if isinstance(part, list) else [part])
               if isinstance(x, tuple))


def sci_parts(r: str):
    m = re.fullmatch(r"(\d)(?:\.(\d+))?e([+-]\d+)", r)
    return m.group(1), m.group(2) or "", int(m.group(3))


def compile_tree(real: Real, t, out: list, words: list):
    """post-fix serialisation into REAL protobuf nodes (+ the model's node words)."""
    N, k = real.N, t[0]

    def emit(node, a=0, b=0, c=0, text=""):
        out.append(node)
        words.append(f"{node.AST_node_type}/{a}/{b}/{c}/{enc_text(text)}")

    if k == "num":
        if t[1] == "int":
            emit(N(AST_node_type="NUMBER_NODE", AST_number_node_number=float(t[2]), AST_number_node_decimal_low=t[2],
                   AST_number_node_decimal_high=MAGIC), MAGIC, t[2], 0, repr(float(t[2])))
        else:
            emit(N(AST_node_type="NUMBER_NODE", AST_number_node_number=t[2], AST_number_node_decimal_low=1,
                   AST_number_node_decimal_high=0x303E000000000000), 0x303E000000000000, 1, 0, repr(t[2]))
    elif k == "str":
        emit(N(AST_node_type="STRING_NODE", AST_string_node_string=t[1]), text=t[1])
    elif k == "bool":
        if t[1]:
            emit(N(AST_node_type="TOKEN_NODE", AST_token_node_boolean=t[2]), 1, int(t[2]), 0)
        else:
            emit(N(AST_node_type="BOOLEAN_NODE", AST_boolean_node_boolean=t[2]), 0, 0, int(t[2]))
    elif k == "date":
        emit(N(AST_node_type="DATE_NODE", AST_date_node_dateNum=t[1]), date_micros(t[1]))
    elif k == "ref":
        n = N(AST_node_type="CELL_REFERENCE_NODE")
        n.AST_row.row, n.AST_row.absolute = t[1], t[3]
        n.AST_column.column, n.AST_column.absolute = t[2], t[4]
        emit(n, text=ref_text(*t[1:]))
    elif k == "empty":
        emit(N(AST_node_type="EMPTY_ARGUMENT_NODE"))
    elif k == "bin":
        compile_tree(real, t[2], out, words)
        compile_tree(real, t[3], out, words)
        emit(N(AST_node_type=OP_NODE[t[1]]))
    elif k == "neg":
        compile_tree(real, t[1], out, words)
        emit(N(AST_node_type="NEGATION_NODE"))
    elif k == "pct":
        compile_tree(real, t[1], out, words)
        emit(N(AST_node_type="PERCENT_NODE"))
    elif k == "paren":
        for e in t[1]:
            compile_tree(real, e, out, words)
        emit(N(AST_node_type="LIST_NODE", AST_list_node_numArgs=len(t[1])), len(t[1]))
    elif k == "call":
        for e in t[2]:
            compile_tree(real, e, out, words)
        emit(N(AST_node_type="FUNCTION_NODE", AST_function_node_index=t[1], AST_function_node_numArgs=len(t[2])),
             t[1], len(t[2]))
    elif k == "arr":
        for e in t[3]:
            compile_tree(real, e, out, words)
        emit(N(AST_node_type="ARRAY_NODE", AST_array_node_numCol=t[1], AST_array_node_numRow=t[2]), t[1], t[2])
    else:
        raise AssertionError(k)


def tree_words(t) -> list[str]:
    """prefix encoding of the tree for the model's spec side (`formula tree …`)."""
    k = t[0]
    if k == "num":
        if t[1] == "int":
            return ["Ni", str(t[2])]
        r = repr(t[2])
        if "e" in r:
            i, f, e = sci_parts(r)
            return ["Ns", enc_text(i), enc_text(f), str(e)]
        return ["Np", enc_text(r)]
    if k == "str":
        return ["S", enc_text(t[1])]
    if k == "bool":
        return ["B", str(int(t[1])), str(int(t[2]))]
    if k == "date":
        return ["D", str(date_micros(t[1]))]
    if k == "ref":
        return ["R", enc_text(ref_text(*t[1:]))]
    if k == "empty":
        return ["E"]
    if k == "bin":
        return ["O", str(t[1])] + tree_words(t[2]) + tree_words(t[3])
    if k == "neg":
        return ["M"] + tree_words(t[1])
    if k == "pct":
        return ["P"] + tree_words(t[1])
    if k == "paren":
        return ["L", str(len(t[1]))] + [w for e in t[1] for w in tree_words(e)]
    if k == "call":
        return ["F", str(t[1]), str(len(t[2]))] + [w for e in t[2] for w in tree_words(e)]
    if k == "arr":
        return ["A", str(t[1]), str(t[2]), str(len(t[3]))] + [w for e in t[3] for w in tree_words(e)]
    raise AssertionError(k)


# --------------------------------------------------------------------------- generator

def gen_atom(rng, fids):
    c = rng.randrange(10)
    if c < 3:
        return ("num", "int", rng.choice(INT_POOL) if rng.random() < 0.5 else rng.randrange(0, 10**rng.randrange(1, 20)))
    if c < 5:
        if rng.random() < 0.6:
            return ("num", "float", rng.choice(FLOAT_POOL))
        m = rng.randrange(1, 10**rng.randrange(1, 17))
        return ("num", "float", float(f"{m}e{rng.randrange(-30, 30)}"))
    if c < 6:
        s = rng.choice(STR_POOL) if rng.random() < 0.6 else "".join(
            rng.choice('ab"" ,()+-×\'{};:&=1A$é\U0001F600') for _ in range(rng.randrange(0, 8)))
        return ("str", s)
    if c < 7:
        return ("bool", rng.random() < 0.4, rng.random() < 0.5)
    if c < 8:
        days = rng.choice([0, 1, 58, 59, 60, 365, 366, -1, -365, 2921573, -730485, 7000, -36525]) if rng.random() < 0.4 \
            else rng.randrange(-730485, 2921574)
        # a third of the date literals carry a time of day (whole seconds): the reader prints the calendar day of the instant,
        # DATE(y,m,d) - the time of day of a DATE_NODE is not shown (notes/C08.md) - and the literal must stay ONE operand
        tod = rng.choice([0, 0, 43200, 1, 86399, rng.randrange(86400)])
        return ("date", float(days * 86400 + tod))
    ra, ca = rng.random() < 0.3, rng.random() < 0.3
    return ("ref", rng.randrange(0, 40) if ra else rng.randrange(-5, 40), rng.randrange(0, 800) if ca else rng.randrange(-5, 60),
            ra, ca)


def gen_tree(rng, depth, fids):
    if depth <= 0 or rng.random() < 0.18:
        return gen_atom(rng, fids)
    c = rng.randrange(20)
    if c < 9:
        return ("bin", rng.randrange(1, 13), gen_tree(rng, depth - 1, fids), gen_tree(rng, depth - 1, fids))
    if c < 11:
        return ("neg", gen_tree(rng, depth - 1, fids))
    if c < 12:
        return ("pct", gen_tree(rng, depth - 1, fids))
    if c < 13:
        return ("paren", [gen_tree(rng, depth - 1, fids) for _ in range(rng.choice((1, 1, 1, 2, 3)))])
    if c < 18:
        n = rng.choice((0, 1, 1, 2, 2, 3, 4, 6))
        args = [gen_tree(rng, depth - 1, fids) for _ in range(n)]
        if n >= 2:
            args = [("empty",) if rng.random() < 0.15 else a for a in args]
        return ("call", rng.choice(fids), args)
    rows, cols = rng.choice(((1, 1), (1, 3), (2, 2), (3, 1), (2, 3), (1, 5)))
    return ("arr", cols, rows, [gen_tree(rng, min(depth - 1, 1), fids) for _ in range(rows * cols)])


def well_paren(t):
    """insert the LIST nodes Numbers stores for parentheses, so that the tree is what its text denotes
    under any conventional reading (all binary operators left-associative; unary minus wrapped where
    conventions differ)."""
    k = t[0]
    if k == "bin":
        op, l, r = t[1], well_paren(t[2]), well_paren(t[3])
        if (l[0] == "bin" and PREC[l[1]] < PREC[op]) or (l[0] == "neg" and PREC[op] >= 4):
            l = ("paren", [l])
        if (r[0] == "bin" and PREC[r[1]] <= PREC[op]):
            r = ("paren", [r])
        return ("bin", op, l, r)
    if k == "neg":
        e = well_paren(t[1])
        return ("neg", ("paren", [e]) if e[0] == "bin" else e)
    if k == "pct":
        e = well_paren(t[1])
        return ("pct", ("paren", [e]) if e[0] in ("bin", "neg") else e)
    if k == "paren":
        return ("paren", [well_paren(e) for e in t[1]])
    if k == "call":
        return ("call", t[1], [well_paren(e) for e in t[2]])
    if k == "arr":
        return ("arr", t[1], t[2], [well_paren(e) for e in t[3]])
    return t


# --------------------------------------------------------------------------- oracle: independent parser of the text

class ParseError(Exception):
    pass


_REF = re.compile(r"\$?[A-Z]{1,3}\$?[0-9]+$")


def lex(s: str):
    toks, i, n = [], 0, len(s)
    while i < n:
        ch = s[i]
        if ch == '"':
            j, buf = i + 1, []
            while True:
                if j >= n:
                    raise ParseError("unterminated string")
                if s[j] == '"':
                    if j + 1 < n and s[j + 1] == '"':
                        buf.append('"')
                        j += 2
                        continue
                    break
                buf.append(s[j])
                j += 1
            toks.append(("str", "".join(buf)))
            i = j + 1
        elif ch.isascii() and ch.isdigit() or (ch == "." and i + 1 < n and s[i + 1].isdigit()):
            j = i
            while j < n and (s[j].isascii() and s[j].isdigit() or s[j] == "."):
                j += 1
            toks.append(("num", s[i:j]))
            i = j
        elif ch == "$" or ("A" <= ch <= "Z"):
            j = i
            while j < n and (s[j] == "$" or s[j] == "." or s[j] == "!" or "A" <= s[j] <= "Z" or "0" <= s[j] <= "9"):
                j += 1
            w = s[i:j]
            if j < n and s[j] == "(":
                toks.append(("func", w))
                j += 1
            elif w in ("TRUE", "FALSE"):
                toks.append(("bool", w == "TRUE"))
            elif _REF.match(w):
                toks.append(("ref", w))
            else:
                raise ParseError(f"unknown word {w!r}")
            i = j
        elif ch in "+-×÷^&=≠<>≤≥%(),;{}":
            toks.append(("p", ch))
            i += 1
        else:
            raise ParseError(f"unexpected character {ch!r}")
    toks.append(("end", None))
    return toks


class Parser:
    def __init__(self, text):
        self.t = lex(text)
        self.i = 0

    def peek(self):
        return self.t[self.i]

    def take(self):
        tok = self.t[self.i]
        self.i += 1
        return tok

    def expect(self, ch):
        if self.take() != ("p", ch):
            raise ParseError(f"expected {ch}")

    def expr(self, minprec=1):
        lhs = self.unary()
        while True:
            k, v = self.peek()
            if k == "p" and v in GLYPH_PREC and GLYPH_PREC[v] >= minprec:
                self.take()
                rhs = self.expr(GLYPH_PREC[v] + 1)
                lhs = ("bin", v, lhs, rhs)
            else:
                return lhs

    def unary(self):
        if self.peek() == ("p", "-"):
            self.take()
            return ("neg", self.unary())
        e = self.primary()
        while self.peek() == ("p", "%"):
            self.take()
            e = ("pct", e)
        return e

    def arglist(self, close):
        if self.peek() == ("p", close):
            self.take()
            return []
        args = []
        while True:
            if self.peek() in (("p", ","), ("p", close)):
                args.append(("empty",))
            else:
                args.append(self.expr())
            k = self.take()
            if k == ("p", close):
                return args
            if k != ("p", ","):
                raise ParseError("expected , or " + close)

    def primary(self):
        k, v = self.take()
        if k == "num":
            return ("num", Decimal(v))
        if k in ("str", "bool", "ref"):
            return (k, v)
        if k == "func":
            return ("call", v, self.arglist(")"))
        if (k, v) == ("p", "("):
            return ("paren", self.arglist(")"))
        if (k, v) == ("p", "{"):
            rows = [[]]
            while True:
                rows[-1].append(self.expr())
                d = self.take()
                if d == ("p", "}"):
                    return ("arr", rows)
                if d == ("p", ";"):
                    rows.append([])
                elif d != ("p", ","):
                    raise ParseError("bad array")
        raise ParseError(f"unexpected token {k} {v!r}")


def parse_text(text):
    p = Parser(text)
    e = p.expr()
    if p.peek()[0] != "end":
        raise ParseError("trailing tokens")
    return e


def expected(t, fmap):
    """what the tree denotes, in the parser's output vocabulary."""
    k = t[0]
    if k == "num":
        return ("num", Decimal(t[2]) if t[1] == "int" else Decimal(repr(t[2])))
    if k == "str":
        return ("str", t[1])
    if k == "bool":
        return ("bool", t[2])
    if k == "date":
        d = date.fromordinal(730486 + int(t[1] // 86400))
        return ("call", "DATE", [("num", Decimal(d.year)), ("num", Decimal(d.month)), ("num", Decimal(d.day))])
    if k == "ref":
        return ("ref", ref_text(*t[1:]))
    if k == "empty":
        return ("empty",)
    if k == "bin":
        return ("bin", OPS[t[1]], expected(t[2], fmap), expected(t[3], fmap))
    if k in ("neg", "pct"):
        return (k, expected(t[1], fmap))
    if k == "paren":
        return ("paren", [expected(e, fmap) for e in t[1]])
    if k == "call":
        return ("call", fmap[t[1]], [expected(e, fmap) for e in t[2]])
    if k == "arr":
        es = [expected(e, fmap) for e in t[3]]
        return ("arr", [es[i * t[1]:(i + 1) * t[1]] for i in range(t[2])])
    raise AssertionError(k)


OP_NUM = {g: k for k, g in OPS.items()}


def dec_nk(d: Decimal):
    """value as n / 10^k without trailing zeros in the fraction."""
    _sign, digits, exp = d.as_tuple()
    n = int("".join(map(str, digits)))
    if exp >= 0:
        return n * 10**exp, 0
    k = -exp
    while k > 0 and n % 10 == 0:
        n //= 10
        k -= 1
    return n, k


def sexp(x) -> str:
    """canonical one-line s-expression of a tree in `expected`'s vocabulary (same format as the driver's showPT)."""
    k = x[0]
    if k == "num":
        n, kk = dec_nk(x[1])
        return f"(num {n} {kk})"
    if k == "str":
        return f"(str {enc_text(x[1])})"
    if k == "bool":
        return f"(bool {int(x[1])})"
    if k == "ref":
        return f"(name {enc_text(x[1])})"
    if k == "empty":
        return "(empty)"
    if k == "bin":
        return f"(bin {OP_NUM[x[1]]} {sexp(x[2])} {sexp(x[3])})"
    if k in ("neg", "pct"):
        return f"({k} {sexp(x[1])})"
    if k == "paren":
        return "(paren" + "".join(" " + sexp(e) for e in x[1]) + ")"
    if k == "call":
        return f"(call {enc_text(x[1])}" + "".join(" " + sexp(e) for e in x[2]) + ")"
    if k == "arr":
        return "(arr" + "".join(" (row" + "".join(" " + sexp(e) for e in r) + ")" for r in x[1]) + ")"
    raise AssertionError(k)


_WORD = re.compile(r"""(?:[^+\-*/^&=<>%×÷≥≤≠(){},;"']|'[^']*')+""")


def name_safe(t: str) -> bool:
    """independent statement of Parse.nameSafe: one word (no operator / bracket / separator / double-quote character
    outside a closed '...' segment), not a decimal, not TRUE / FALSE."""
    return bool(_WORD.fullmatch(t)) and not re.fullmatch(r"[0-9]+(\.[0-9]*)?", t) and t not in ("TRUE", "FALSE")


def first_diff(a, b, path="root"):
    """(signature class, description) of the first difference between two parse trees."""
    if type(a) is not tuple or type(b) is not tuple:
        if a != b:
            return ("structure", f"{path}: {a!r} vs {b!r}")
        return None
    if a[0] != b[0]:
        return ("node-kind", f"{path}: parsed {a[0]} but stored {b[0]}")
    k = a[0]
    if k == "num":
        return None if a[1] == b[1] else ("number-literal-value", f"{path}: text denotes {a[1]} but stored number is {b[1]}")
    if k in ("str", "bool", "ref"):
        return None if a[1] == b[1] else (k + "-literal", f"{path}: {a[1]!r} vs stored {b[1]!r}")
    if k == "empty":
        return None
    if k == "bin":
        if a[1] != b[1]:
            return ("operator", f"{path}: operator {a[1]} vs stored {b[1]}")
        return first_diff(a[2], b[2], path + ".l") or first_diff(a[3], b[3], path + ".r")
    if k in ("neg", "pct"):
        return first_diff(a[1], b[1], path + "." + k)
    if k == "call" and a[1] != b[1]:
        return ("function-name", f"{path}: {a[1]} vs stored {b[1]}")
    xs, ys = a[-1], b[-1]
    if len(xs) != len(ys):
        return ("arity", f"{path}: {len(xs)} items vs stored {len(ys)}")
    for i, (x, y) in enumerate(zip(xs, ys)):
        if k == "arr":
            if len(x) != len(y):
                return ("arity", f"{path}[{i}]: row length {len(x)} vs {len(y)}")
            for j, (p, q) in enumerate(zip(x, y)):
                d = first_diff(p, q, f"{path}[{i}][{j}]")
                if d:
                    return d
        else:
            d = first_diff(x, y, f"{path}.{i}")
            if d:
                return d
    return None


def report(ctx, sig, what, inp, _seen={}):
    """at most three concrete inputs per signature (the list is capped globally)."""
    k = (id(ctx), sig)
    _seen[k] = _seen.get(k, 0) + 1
    if _seen[k] <= 3:
        ctx.violation(sig, what, inp)


def has_structure(t):
    return t[0] in ("bin", "neg", "pct", "paren", "call", "arr")


def check_tree(ctx, real, t, fmap, req, out):
    nodes, words = [], []
    compile_tree(real, t, nodes, words)
    try:
        text = real.render(nodes, *HOST)
        res = f"ok {enc_text(text)} {enc_text(text)} 1 {len(nodes)}"
        if tree_has_known_bad(t):  # outside WellFormed: the spec renderer and the code differ (known finding)
            res = None
    except Exception as e:  # noqa: BLE001
        text = None
        res = "err " + exc_name(e)
    if res is not None and text is not None:
        req.append("formula tree " + " ".join(tree_words(t)))
        out.append(res)
        # the Lean lexer + parser on the REAL output text must give the generated tree; the generated tree satisfies
        # the hypotheses of read_render (WellParen, RefsSafe) and the model reads its own text back
        want = sexp(expected(t, fmap))
        req.append("formula read " + enc_text(text))
        out.append("ok " + want)
        req.append("formula canon " + " ".join(tree_words(t)))
        out.append("ok " + want + " 1 1 1")
    req.append("formula exec " + " ".join(words))
    out.append(f"ok {enc_text(text)}" if text is not None else res)
    if text is None:
        report(ctx, "render-raises", f"rendering a well-formed expression raised {res[4:]}", {"tree": t})
        return
    if has_structure(t):
        ctx.mark(text)
    # property oracle: read the text back with an independent parser and compare with the stored tree
    try:
        got = parse_text(text)
    except ParseError as e:
        report(ctx, "text-unparseable", f"{text!r}: {e}", {"tree": t})
        return
    d = first_diff(got, expected(t, fmap))
    if d and d[0] == "number-literal-value":
        report(ctx, "number-to-str-value:" + ("positive-exponent" if tree_has_known_bad(t) else "other"),
               f"{text[:120]!r}: {d[1]}", {"tree": t})
    elif d:
        report(ctx, "text-denotes-other-expression:" + d[0], f"{text[:120]!r}: {d[1]}", {"tree": t})
    # determinism
    if real.render(nodes, *HOST) != text:
        report(ctx, "render-nondeterministic", text[:80], {"tree": t})



# --------------------------------------------------------------------------- document level: one stored formula, many hosts

def gen_filled_doc(rng):
    """fill-right / fill-down / block families of one relative formula each (harness/formuladocs.py)"""
    import formuladocs as F
    nrows, ncols = rng.randrange(7, 11), rng.randrange(6, 10)
    families, used = [], set()
    for _ in range(rng.randrange(5, 9)):
        t = F.gen_expr(rng, nrows, ncols)
        shape = rng.choice(("right", "right", "down", "block"))
        r0, c0 = rng.randrange(nrows), rng.randrange(ncols)
        if shape == "right":
            cand = [(r0, c) for c in range(ncols)]
        elif shape == "down":
            cand = [(r, c0) for r in range(nrows)]
        else:
            cand = [(r, c) for r in range(r0, min(nrows, r0 + 3)) for c in range(c0, min(ncols, c0 + 3))]
        hosts = [h for h in cand if h not in used and F.in_table(t, h, nrows, ncols)]
        if len(hosts) >= 2:
            families.append((t, hosts))
            used |= set(hosts)
    return F.FilledDoc(nrows, ncols, families)


def stored_well_paren(t) -> bool:
    """the stored tree prints without extra parentheses: operands of a binary operator bind at least as tightly (left,
    all operators associate to the left) / more tightly (right) than the operator itself."""
    k = t[0]
    if k == "bin":
        p = GLYPH_PREC[t[1]]
        l, r = t[2], t[3]
        if l[0] == "bin" and GLYPH_PREC[l[1]] < p:
            return False
        if r[0] == "bin" and GLYPH_PREC[r[1]] <= p:
            return False
        return stored_well_paren(l) and stored_well_paren(r)
    if k in ("paren", "call"):
        return all(stored_well_paren(e) for e in t[-1])
    return True


def check_filled_doc(ctx, spec, fmap, rng, where=None):
    """every host of every shared formula, read in several orders from the saved file and on the open document: the text
    must denote the stored expression AT THAT HOST (independent reading of the stored nodes vs independent parser of the
    text) and must not depend on the reading history.  Returns a description (used by replay)."""
    import formuladocs as F
    res = {"hosts": 0, "shared_keys": 0, "texts": 0, "writer_refused": 0, "unsupported": 0, "problems": []}
    with F.TempDir() as d:
        doc, table, done = F.build_from_spec(spec)
        res["writer_refused"] = sum(1 for _h, _t, e in done if e)
        open_texts = {}
        for h in F.formula_hosts(table):
            try:
                open_texts[h] = [F.read(table, h)]
            except Exception as e:  # noqa: BLE001
                open_texts[h] = ["!raised " + exc_name(e)]
        path = os.path.join(d, "filled.numbers")
        doc.save(path)
        stored = F.stored_nodes(path)
        hosts, got, iso = F.read_orders(path, rng)
    got["open-document"] = open_texts
    got["isolated"] = {h: [t] for h, t in iso.items()}
    keys = {}
    for h, (k, _n) in stored.items():
        keys.setdefault(k, []).append(h)
    res["hosts"] = len(hosts)
    res["shared_keys"] = sum(1 for v in keys.values() if len(v) > 1)
    for h in hosts:
        if h not in stored:
            continue
        try:
            want = F.stored_tree(stored[h][1], h, fmap)
        except F.Unsupported as e:
            res["unsupported"] += 1
            res.setdefault("unsupported_why", {}).setdefault(str(e), 0)
            res["unsupported_why"][str(e)] += 1
            continue
        if not stored_well_paren(want):
            # outside C08's "well-formed stored expression": an operator whose operand needs parentheses is stored without
            # the LIST node Numbers writes for them (the undocumented formula setter drops parentheses)
            res["unsupported"] += 1
            continue
        seen = {}
        for order, per in got.items():
            for text in per.get(h, []):
                res["texts"] += 1
                seen.setdefault(text, order)
                inp = {"filled_doc": spec, "host": list(h), "order": order}
                if text is None or text.startswith("!raised"):
                    res["problems"].append(("render-raises", f"host {F.a1(*h)} read in order {order}: {text}", inp))
                    continue
                try:
                    dd = first_diff(parse_text(text), want)
                except ParseError as e:
                    res["problems"].append(("text-unparseable", f"host {F.a1(*h)} ({order}): {text!r}: {e}", inp))
                    continue
                if dd:
                    res["problems"].append(("text-denotes-other-expression:" + dd[0],
                                            f"host {F.a1(*h)} shares stored formula {stored[h][0]} with "
                                            f"{[F.a1(*x) for x in keys[stored[h][0]] if x != h][:6]}; read in order "
                                            f"{order!r} it reports {text[:100]!r}: {dd[1]}", inp))
        if len(seen) > 1:
            res["problems"].append(("formula-text-depends-on-read-history",
                                    f"host {F.a1(*h)}: " + "; ".join(f"{o}: {t!r}" for t, o in seen.items()),
                                    {"filled_doc": spec, "host": list(h), "order": "all"}))
    return res


def doc_level_phase(ctx, fmap):
    rng = ctx.rng
    ndocs = 3 if ctx.quick else 30
    tot = {"hosts": 0, "shared_keys": 0, "texts": 0, "writer_refused": 0, "unsupported": 0}
    for _ in range(ndocs):
        spec = gen_filled_doc(rng).spec()
        res = check_filled_doc(ctx, spec, fmap, rng)
        for k in tot:
            tot[k] += res[k]
        for sig, what, inp in res["problems"]:
            report(ctx, sig, what, inp)
        ctx.mark(("filled-doc", json.dumps(spec, sort_keys=True)[:200]))
    ctx.count("documents with one stored formula shared by several host cells (fill right / down / block through the public "
              "formula setter), every host read through Cell.formula on the open document, and from the saved file "
              "isolated / forward / reverse / column-major / shuffled with repeats: text vs independent reading of the "
              "stored nodes at that host", tot["texts"])
    ctx.extra["document_level"] = dict(tot, documents=ndocs)


def run(ctx: Ctx):
    from numbers_parser.formula import number_to_str
    from numbers_parser.generated.functionmap import FUNCTION_MAP

    rng = ctx.rng
    real = Real()
    fids = sorted(FUNCTION_MAP)
    fmap = dict(FUNCTION_MAP)

    # --- number_to_str on a pool of reprs (model + value oracle) ------------------------------------
    floats = list(FLOAT_POOL) + [float(f"{m}e{e}") for e in range(-25, 40) for m in (1, 15, 125, 1234567, 12345678901234567)]
    floats += [float(f"{rng.randrange(1, 10**17)}e{rng.randrange(-320, 300)}") for _ in range(2000 if ctx.quick else 50000)]
    req, out = [], []
    for x in floats:
        r = repr(x)
        req.append(f"formula num {enc_text(r)}")
        try:
            s = number_to_str(x)
            out.append("ok " + enc_text(s))
        except Exception as e:  # noqa: BLE001
            out.append("err " + exc_name(e))
            continue
        try:
            same = Decimal(s) == Decimal(r)
        except Exception:  # noqa: BLE001
            same = False
        if not same:
            report(ctx, "number-to-str-value:" + ("positive-exponent" if known_bad_repr(r) else "other"),
                   f"number_to_str({r}) = {s[:60]!r} does not denote {r}", {"float_repr": r})
    ctx.correspond("number_to_str over float reprs (pool + exponents -25..39 + seeded)", req, out)

    # --- every function id, every operator, fixed shapes (exhaustive over the tables) ------------------
    req, out = [], []
    one, two = ("num", "int", 1), ("ref", 0, 0, False, False)
    for f in fids + [0, 337, 9999]:
        t = ("call", f, [one, two])
        if f in fmap:
            check_tree(ctx, real, t, fmap, req, out)
        else:  # unknown ids: correspondence only ("UNDEFINED!")
            nodes, words = [], []
            compile_tree(real, t, nodes, words)
            req.append("formula exec " + " ".join(words))
            out.append("ok " + enc_text(real.render(nodes, *HOST)))
    for op in OPS:
        for op2 in OPS:
            check_tree(ctx, real, well_paren(("bin", op, ("bin", op2, one, two), ("bin", op2, two, one))), fmap, req, out)
    ctx.correspond("every function id (2 args) + unknown ids; every operator pair", req, out, exhaustive=True)

    # --- random trees ----------------------------------------------------------------------------------
    n = 12000 if ctx.quick else 200000
    maxd = 6 if ctx.quick else 10
    req, out = [], []
    for i in range(n):
        t = well_paren(gen_tree(rng, rng.randrange(1, maxd + 1), fids))
        check_tree(ctx, real, t, fmap, req, out)
    ctx.correspond(f"random expression trees, depth <= {maxd}", req, out)

    # --- reads that fail must not influence later reads of the same table (one TableFormulas object) -------
    N = real.N

    def refnode(r, c):
        n = N(AST_node_type="CELL_REFERENCE_NODE")
        n.AST_row.row, n.AST_row.absolute = r, False
        n.AST_column.column, n.AST_column.absolute = c, False
        return n

    def num(v):
        return N(AST_node_type="NUMBER_NODE", AST_number_node_number=float(v), AST_number_node_decimal_low=v,
                 AST_number_node_decimal_high=MAGIC)
    bads = {  # stored formulas that are not well-formed: the read raises, some with operands already on the stack
        "reference above the table after an operand": [num(10), refnode(-99, 0), N(AST_node_type="ADDITION_NODE")],
        "reference left of the table inside a product": [num(10), refnode(0, -99), num(2), N(AST_node_type="MULTIPLICATION_NODE"),
                                                          N(AST_node_type="ADDITION_NODE")],
        "reference above the table alone": [refnode(-99, 0)],
        "operator on an empty stack": [N(AST_node_type="ADDITION_NODE")],
        "operator with one operand": [num(7), N(AST_node_type="SUBTRACTION_NODE")],
    }
    nbad = Counter()
    for i in range(150 if ctx.quick else 3000):
        t = well_paren(gen_tree(rng, rng.randrange(1, 5), fids))
        if tree_has_known_bad(t):
            continue
        nodes, words = [], []
        compile_tree(real, t, nodes, words)
        try:
            before = real.render(nodes, *HOST)
        except Exception:  # noqa: BLE001  (reported by check_tree above)
            continue
        for name, bad in bads.items():
            try:
                real.render(bad, *HOST)
                nbad[name + ": returned"] += 1
            except Exception as e:  # noqa: BLE001
                nbad[name + ": " + exc_name(e)] += 1
            try:
                after = real.render(nodes, *HOST)
            except Exception as e:  # noqa: BLE001
                after = "raises " + exc_name(e)
            if after != before:
                report(ctx, "formula-text-depends-on-earlier-failed-read",
                       f"after a failed read ({name}) the same stored formula reads {after[:80]!r} instead of {before[:80]!r}",
                       {"tree": t, "failed_read": name})
                real = Real()
                break
    ctx.count("well-formed formulas re-read after failed reads of the same table (text must not change)", sum(nbad.values()))
    ctx.extra["failed_read_outcomes"] = dict(nbad)

    # --- reference texts printed by the REAL node_to_ref (C09's documents): nameSafe as stated, read back as one name ---
    from checks import c09
    req, out = [], []
    seen, unsafe = set(), []
    import random as _random
    texts = []

    def collect(cfg, r, k):
        for _ in range(k):
            spec, exp = c09.gen_ref(r, cfg)
            try:
                texts.append(c09.real_text(cfg, spec, exp))
            except Exception:  # noqa: BLE001  C09's business
                continue

    for _ in range(3 if ctx.quick else 30):
        collect(c09.Config(rng), rng, 150 if ctx.quick else 600)
    saved_pool = list(c09.LABEL_POOL)
    try:  # one fixed configuration with header names that need quoting / contain an apostrophe
        c09.LABEL_POOL[:] = ["Bob's", "alpha", "a-b", "c+d", "x y"]
        frng = _random.Random(20260930)
        collect(c09.Config(frng), frng, 300)
    finally:
        c09.LABEL_POOL[:] = saved_pool
    for rt in texts:
        if rt in seen:
            continue
        seen.add(rt)
        safe = name_safe(rt)
        req.append("formula namesafe " + enc_text(rt))
        out.append(f"ok {int(safe)}")
        if not safe:
            unsafe.append(rt)
            continue
        req.append("formula read " + enc_text(rt))
        out.append("ok " + sexp(("ref", rt)))
        wrapped = f"SUM({rt},1)+{rt}"
        req.append("formula read " + enc_text(wrapped))
        out.append("ok " + sexp(("bin", "+", ("call", "SUM", [("ref", rt), ("num", Decimal(1))]), ("ref", rt))))
    ctx.correspond("reference texts from the real node_to_ref: nameSafe, read back as one name, alone and inside a call", req, out)
    ctx.extra["reference_texts"] = {"distinct": len(seen), "not_nameSafe": len(unsafe), "not_nameSafe_examples": sorted(unsafe)[:8]}

    # --- raw node sequences (ill-formed programs: pop order, clamping, skipped/unsupported types, errors) ----
    N = real.N
    all_types = sorted(real.types.values())
    n = 6000 if ctx.quick else 60000
    req, out = [], []
    for i in range(n):
        nodes, words = [], []
        for _ in range(rng.randrange(1, 9)):
            c = rng.random()
            if c < 0.45:
                compile_tree(real, gen_atom(rng, fids), nodes, words)
            elif c < 0.6:
                k = rng.randrange(0, 4)
                nodes.append(N(AST_node_type="FUNCTION_NODE", AST_function_node_index=rng.choice(fids + [0, 400]),
                               AST_function_node_numArgs=k))
                words.append(f"16/{nodes[-1].AST_function_node_index}/{k}/0/-")
            elif c < 0.68:
                k = rng.randrange(0, 4)
                nodes.append(N(AST_node_type="LIST_NODE", AST_list_node_numArgs=k))
                words.append(f"25/{k}/0/0/-")
            elif c < 0.76:
                cols, rows = rng.randrange(0, 3), rng.randrange(0, 4)
                nodes.append(N(AST_node_type="ARRAY_NODE", AST_array_node_numCol=cols, AST_array_node_numRow=rows))
                words.append(f"24/{cols}/{rows}/0/-")
            else:
                ty = rng.choice(all_types)
                if ty in (16, 17, 18, 19, 20, 23, 24, 25, 36, 67):
                    ty = rng.randrange(1, 16)
                if ty in (29, 45):  # COLON_NODE: operands from the stub never contain "::"; keep texts simple
                    pass
                nodes.append(N(AST_node_type=ty))
                words.append(f"{ty}/0/0/0/-")
        req.append("formula exec " + " ".join(words))
        try:
            out.append("ok " + enc_text(real.render(nodes, *HOST)))
        except Exception as e:  # noqa: BLE001
            out.append("err " + exc_name(e))
    ctx.correspond("raw node sequences incl. every node type, underflow, clamped function arity", req, out)

    # --- COLON_NODE text surgery on table-qualified operands (stub returns the given text) -----------
    req, out = [], []
    texts = ["A1", "B2", "T::A1", "T::B2", "S::T::A1", "S::T::C3", "SUM(A1)", "T::SUM(A1)", "::", "A::", "", "a::b::c::d"]

    class _RefStub(_StubModel):
        def node_to_ref(self, _tid, row, col, node):
            return node.AST_whitespace

    from numbers_parser.formula import TableFormulas
    stub2 = _RefStub()
    tf2 = TableFormulas(stub2, 1)
    for a in texts:
        for b in texts:
            for ty in (29, 45):
                nodes = [N(AST_node_type="CELL_REFERENCE_NODE", AST_whitespace=a),
                         N(AST_node_type="CELL_REFERENCE_NODE", AST_whitespace=b), N(AST_node_type=ty)]
                stub2.ast = {7: nodes}
                req.append(f"formula exec 36/0/0/0/{enc_text(a)} 36/0/0/0/{enc_text(b)} {ty}/0/0/0/-")
                try:
                    out.append("ok " + enc_text(tf2.formula(7, 0, 0)))
                except Exception as e:  # noqa: BLE001
                    out.append("err " + exc_name(e))
    ctx.correspond("COLON_NODE over qualified / unqualified operand texts", req, out, exhaustive=True)

    # --- dates: civil-from-days vs datetime over the whole range (sampled) ---------------------------
    req, out = [], []
    days = list(range(-730490, -730480)) + list(range(2921568, 2921580)) + list(range(-800, 800)) + \
        [rng.randrange(-730485, 2921574) for _ in range(3000 if ctx.quick else 100000)]
    for d in days:
        for sec in (float(d * 86400), d * 86400 + 43200.5):
            nodes = [N(AST_node_type="DATE_NODE", AST_date_node_dateNum=sec)]
            req.append(f"formula exec 20/{date_micros(sec)}/0/0/-")
            try:
                out.append("ok " + enc_text(real.render(nodes, *HOST)))
            except Exception as e:  # noqa: BLE001
                out.append("err " + exc_name(e))
    ctx.correspond("DATE_NODE over datetime's whole range (edges + seeded)", req, out)

    # --- document level: stored formulas shared by several host cells, read in different orders ---------------
    doc_level_phase(ctx, fmap)


def replay(data):
    from numbers_parser.formula import number_to_str
    i = data.get("input", {})
    res = {}
    if "float_repr" in i:
        x = float(i["float_repr"])
        s = number_to_str(x)
        res = {"repr": repr(x), "number_to_str": s, "denotes_same_value": Decimal(s) == Decimal(repr(x))}
    if "filled_doc" in i:
        import random
        from numbers_parser.generated.functionmap import FUNCTION_MAP
        r = check_filled_doc(None, i["filled_doc"], dict(FUNCTION_MAP), random.Random(0))
        res = {k: v for k, v in r.items() if k != "problems"}
        res["problems"] = [[sig, what] for sig, what, inp in r["problems"] if inp["host"] == i.get("host") or i.get("order") == "all"][:10]
        return res
    if "tree" in i:
        from numbers_parser.generated.functionmap import FUNCTION_MAP

        def tup(x):
            return tuple(tup(y) for y in x) if isinstance(x, list) and x and isinstance(x[0], str) else (
                [tup(y) for y in x] if isinstance(x, list) else x)
        t = tup(i["tree"])
        real = Real()
        nodes, words = [], []
        compile_tree(real, t, nodes, words)
        try:
            text = real.render(nodes, *HOST)
            res = {"nodes": [str(n).replace("\n", " ") for n in nodes], "formula_text": text}
            try:
                d = first_diff(parse_text(text), expected(t, dict(FUNCTION_MAP)))
                res["difference"] = d
            except ParseError as e:
                res["difference"] = ("unparseable", str(e))
        except Exception as e:  # noqa: BLE001
            res = {"raises": exc_name(e)}
    return res
