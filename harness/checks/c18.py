"""C18 — Formula tokenizer is lossless, total, and accepts every formula the reader emits."""
from __future__ import annotations

import itertools
import re
from pathlib import Path

from common import REPO, Ctx, enc_text, exc_name

PID = "C18"
PROPS_MODULE = "NumbersModel.Props.C18"
THEOREMS = [f"NumbersModel.Props.C18.{t}" for t in (
    "tokenize_lossless", "tokenize_total", "tokenize_terminates", "quotes_not_split", "dq_literal_wellformed",
    "sq_literal_wellformed", "tables_as_modelled", "dispatch_chars_end_tokens", "error_codes_ok",
    "grammar_accepted", "reader_output_accepted_partial")] + [
    # the whole tokenizer as py2lean regenerates it from tokenizer.py on every run: the clauses restated over the translation …
    "NumbersModel.Props.C18.Src.src_assert_empty_token", "NumbersModel.Props.C18.Src.src_save_token",
    "NumbersModel.Props.C18.Src.src_check_scientific_notation", "NumbersModel.Props.C18.Src.src_loop_iteration",
    "NumbersModel.Props.C18.Src.src_parse_refines", "NumbersModel.Props.C18.Src.src_tokenize_lossless",
    "NumbersModel.Props.C18.Src.src_tokenize_total", "NumbersModel.Props.C18.Src.src_parse_fuel_suffices",
    "NumbersModel.Props.C18.Src.src_quotes_not_split", "NumbersModel.Props.C18.Src.src_grammar_accepted"] + [
    # … and the refinement theorems, one per method (Lemmas/TrTok.lean, Lemmas/TrTokParse.lean)
    f"NumbersModel.Translated.{t}" for t in (
        "assert_empty_token_eq_model", "save_token_eq_model", "check_scientific_notation_refines_model",
        "parse_string_refines_model", "parse_error_refines_model", "parse_operator_refines_model",
        "parse_opener_refines_model", "parse_closer_refines_model", "parse_separator_refines_model",
        "make_subexp_func", "get_closer_stacked", "dispatch_spec", "dispatch1_refines", "loop1_step", "loop_refines",
        "parse_refines_model")]
TRANSLATED_GROUPS = ("Tok",)
PARTIAL = {"NumbersModel.Props.C18.reader_output_accepted_partial":
           "clause 4 is proved for every text of the formula grammar G (grammar_accepted: plain operands, string literals, "
           "references with quoted names alone / behind a Table:: prefix / on either side of a range colon, all operators, "
           "lists, calls with empty arguments, array literals) and, through C08's exec_compile, for every well-formed stored "
           "expression that is TokSafe: every constructor incl. array literals, number and function-name texts plain, "
           "reference texts plain or of the quoted shapes the reader prints (refOK). Not covered: a name containing an "
           "apostrophe (expand_ref prints the apostrophe tripled, which the tokenizer rejects: recorded finding, exercised) and a table / "
           "sheet name that itself contains operator characters (printed unquoted by the reader)"}
RULE = ("quick: every string of length <= 3 over a 35-symbol alphabet (letters, digits, E, ., space, newline, all operator/"
        "separator glyphs incl. typographic ones, both quotes, # $ !), every string of length <= 8 over {\",',a,:,space}, "
        "every string of length <= 6 over {1,9,0,.,E,+,-,newline} (scientific-notation regex), seeded strings of length 4..40 "
        "biased to brackets and literals, every error code with prefixes/suffixes, formulas read from sample fixtures; thorough "
        "adds length 4 and all fixtures. A case is non-trivial when the input is non-empty; distinct by input text. Translated "
        "definitions: every Tokenizer method on every loop-head state of every string of length <= 3 over the same alphabet plus "
        "hand-made states (distinct by method and state), the Token constructors on every text of length <= 3 over {(,),{,},a,NL} "
        "and every type x subtype, and every tokenize request above also through the translated parse")
ASSUMPTIONS = ["Python `re` is replaced by hand-derived scanners; equivalence exercised exhaustively on short strings",
               "translated definitions: the semantics py2lean / Py/Trans.lean give to the Python subset (state threading of self.*, "
               "Token as a structure with the class constants as enum members - checked distinct on the live class on every run -, "
               "try/except IndexError, the dispatch dict as 'last pair wins', str `in` as substring test); externs: "
               "Token.make_operand = makeOperand, SN_RE.match = snMatch, STRING_REGEXES[k].match = dqMatch / sqMatch (keys checked), "
               "re.match('.+\\(|\\)', v) = funcSubexpMatch (pattern literal compared at translation time)",
               "`float()` classification of operands (NUMBER vs RANGE) is not modelled (both reported as one class)"]
MANIFEST = {
    "text": "Full for clauses 1-3: tokenize_lossless (token texts concatenate to the input, for every string), tokenize_total "
            "(only ok or TokenizerError, never another exception; termination proved: fuel never runs out), quotes_not_split "
            "(every token containing a quote character is one complete literal: opening quote, inner quotes doubled, closing "
            "quote, `:`-joined for names) are Lean theorems about a model of Tokenizer.parse and all parse_* methods with the "
            "TOKEN_ENDERS / ERROR_CODES / whitespace tables regenerated from the source. Clause 4 (accepts every formula the "
            "reader emits): grammar_accepted proves acceptance for the whole formula grammar and "
            "reader_output_accepted_partial lifts it through C08's exec_compile to every well-formed stored expression - every "
            "constructor incl. array literals - whose reference texts are plain or of the quoted shapes the reader prints "
            "('a-b', Table 1::'a-b', 'a-b':'c+d', alpha:'a-b', 'a-b':alpha); the domain predicate refOK is compared with an "
            "independent Python statement exhaustively on short strings and the real tokenizer is run on everything it admits. "
            "Names containing an apostrophe stay outside (recorded finding). Model tied to the code by exhaustive "
            "correspondence on short strings (>= 500k inputs per quick run). Second tie: the WHOLE tokenizer is additionally TRANSLATED from "
            "tokenizer.py on every run (harness/py2lean.py -> Gen/TrTok.lean): Token.make_subexp / get_closer / make_separator and "
            "every Tokenizer method - assert_empty_token, save_token, check_scientific_notation, parse_string, parse_error, "
            "parse_operator, parse_opener, parse_closer, parse_separator, and parse itself (dispatch dict, while loop on fuel "
            "len(formula)+1) - with the instance attributes threaded as state variables. Each method is proved to refine the model's "
            "function under the simulation Pos (formula, offset ~ rest) / Rep (pieces ~ joined token) / StackOK "
            "(<method>_refines_model), one loop iteration is one model step (loop1_step), the fuel suffices, and "
            "parse_refines_model: srcTokenize s = tokenize liveCfg s for every string; clauses 1-3 and 4a are restated over the "
            "translation (Props.C18.Src.src_tokenize_lossless / src_tokenize_total / src_parse_fuel_suffices / src_quotes_not_split / "
            "src_grammar_accepted). The translated definitions are run against the real code: every method on every loop-head state "
            "of every string of length <= 3 (+ hand-made states), the Token constructors exhaustively on short texts, and the whole "
            "parse on every tokenize stream of this check (trdriver).",
    "note": "The two string regexes and SN_RE are replaced by hand-derived scanners (the derivation is in Model/Tokenizer.lean; "
            "the pattern strings are generated and a theorem pins them, so a changed pattern breaks a proof obligation). "
            "float() in make_operand is not modelled.",
    "technique": "Lean 4 proof (loop invariants by induction over fuel; acceptance by induction over a formula grammar; every Tokenizer method and the whole parse loop translated from the Python source on every run and proved to refine the model) + exhaustive differential correspondence on short strings",
}

TYPES = {"OPERAND": "OPERAND", "FUNC": "FUNC", "ARRAY": "ARRAY", "PAREN": "PAREN", "SEP": "SEP",
         "OPERATOR-PREFIX": "PRE", "OPERATOR-INFIX": "IN", "OPERATOR-POSTFIX": "POST"}
SUBS = {"": "_", "TEXT": "TEXT", "ERROR": "ERROR", "LOGICAL": "LOGICAL", "NUMBER": "NR", "RANGE": "NR",
        "OPEN": "OPEN", "CLOSE": "CLOSE", "ARG": "ARG", "ROW": "ROW"}

DQ_OK = re.compile(r'"(?:[^"]|"")*"', re.S)
SQ_OK = re.compile(r"'(?:[^']|'')*'(?:\s*:\s*'(?:[^']|'')*')*", re.S)
# every quote character of the token lies in a complete quoted name inside the token (e.g. Table 1::'a-b':'c')
SEG_OK = re.compile(r"""(?:[^"']|'(?:[^']|'')*')*""", re.S)

ALPHA = list("Ab10E. \n+-*/^&=<>%×÷≥≤≠(){},;:\"'#$!")


def tok(Tokenizer, TokenizerError, s: str, ctx: Ctx | None = None) -> str:
    try:
        items = Tokenizer(s).items
    except Exception as e:  # noqa: BLE001
        if ctx is not None and not isinstance(e, TokenizerError):
            ctx.violation(f"tokenizer-raises-{exc_name(e)}", f"Tokenizer({s!r}) raised {exc_name(e)}: {e}", {"text": s})
        return "err " + exc_name(e)
    if ctx is not None:
        if "".join(t.value for t in items) != s:
            ctx.violation("tokenizer-not-lossless", f"Tokenizer({s!r}) tokens {[t.value for t in items]!r}", {"text": s})
        for t in items:
            v = t.value
            if '"' in v or "'" in v:
                ok = (v[0] == '"' and DQ_OK.fullmatch(v)) or SEG_OK.fullmatch(v)
                if not ok:
                    ctx.violation("tokenizer-quote-split", f"Tokenizer({s!r}) token {v!r} is not one complete literal", {"text": s})
    return ("ok " + " ".join(f"{enc_text(t.value)}/{TYPES[t.type]}/{SUBS[t.subtype]}" for t in items)).rstrip() if items else "ok "


def make_ref_ok(Tokenizer):
    """independent statement of FormulaAccept.atomOK / qrefOK / refOK (the domain of clause 4's theorem)."""
    enders = set(Tokenizer.TOKEN_ENDERS)

    def plain(c):
        return c not in enders and c not in "\"'#{("

    def atom_ok(t):
        return t != "" and all(plain(c) for c in t) and not Tokenizer.SN_RE.match(t)

    chain = re.compile(r"'[^']*'(?::'[^']*')*")

    def qref_ok(t):
        i = t.find("'")
        if i < 0:
            return False
        pre, rem = t[:i], t[i:]
        if not all(plain(c) for c in pre) or not (pre == "" or pre.endswith(":")):
            return False
        m = chain.match(rem)
        if not m:
            return False
        post = rem[m.end():]
        if post == "":
            return True
        return (len(post) >= 2 and post[0] == ":" and plain(post[1]) and not re.match(r"\s", post[1])
                and all(plain(c) for c in post[2:]))

    return atom_ok, lambda t: atom_ok(t) or qref_ok(t)


def gen_random(rng, n):
    pieces = ["SUM(", "IF(", "(", ")", "{", "}", ",", ";", "A1", "B$2", "$C3", "1", "2.5", "1E", "3.1E", "+", "-", "*", "/",
              "^", "&", "=", "<>", "<=", ">=", "≥", "≤", "≠", "×", "÷", "%", " ", '"a"', '"a""b"', '""', "'x'", "'x':'y'",
              "'it''s'", "' ':'", "#REF!", "#N/A", "#DIV/0!", "#", "TRUE", "Sheet 1::Table 1::A1", "::", ":", "$", "!", "E", ".",
              '"', "'", "\n", "\t", "\u00a0"]
    out = []
    for _ in range(n):
        k = rng.randrange(2, 14)
        if rng.random() < 0.5:
            out.append("".join(rng.choice(pieces) for _ in range(k)))
        else:
            out.append("".join(rng.choice(ALPHA) for _ in range(rng.randrange(4, 41))))
    return out


def fixture_formulas(limit_docs):
    import warnings
    from numbers_parser import Document
    docs = sorted((REPO / "tests" / "data").glob("*.numbers"))
    if limit_docs:
        pref = [d for d in docs if d.name in ("test-all-forumulas.numbers", "test-formulas.numbers", "test-1.numbers",
                                               "test-new-formulas.numbers", "test-extra-formulas.numbers", "issue-3.numbers")]
        docs = (pref + [d for d in docs if d not in pref])[:limit_docs]
    forms = set()
    ndocs = 0
    for d in docs:
        try:
            with warnings.catch_warnings():
                warnings.simplefilter("ignore")
                doc = Document(str(d))
                for sh in doc.sheets:
                    for tb in sh.tables:
                        for row in tb.rows():
                            for c in row:
                                f = c.formula if c.is_formula else None
                                if f:
                                    forms.add(f)
            ndocs += 1
        except Exception:  # noqa: BLE001  unreadable fixture (encrypted, unsupported) — not this property's business
            continue
    return sorted(forms), ndocs


TREE_WORDS: list[str] = []


def rendered_texts(ctx: Ctx):
    """Formula / reference texts produced by the real reader from C08's and C09's generated expressions."""
    from numbers_parser.generated.functionmap import FUNCTION_MAP

    from checks import c08, c09
    rng = ctx.rng
    texts = []
    real = c08.Real()
    fids = sorted(FUNCTION_MAP)
    for _ in range(1500 if ctx.quick else 50000):
        t = c08.gen_tree(rng, rng.randrange(1, 5), fids)
        nodes, words = [], []
        try:
            c08.compile_tree(real, t, nodes, words)
            texts.append(("C08", real.render(nodes, *c08.HOST)))
            TREE_WORDS.append(" ".join(c08.tree_words(t)))
        except Exception:  # noqa: BLE001  rendering failures are C08's business
            continue
    # one fixed configuration with an apostrophe in header names (recorded finding), independent of the seed
    import random as _random
    saved_pool = list(c09.LABEL_POOL)
    try:
        c09.LABEL_POOL[:] = ["Bob's", "alpha", "a-b"]
        frng = _random.Random(20260929)
        cfg = c09.Config(frng)
        for _ in range(200):
            spec, exp = c09.gen_ref(frng, cfg)
            try:
                texts.append(("C09", c09.real_text(cfg, spec, exp)))
            except Exception:  # noqa: BLE001
                continue
    finally:
        c09.LABEL_POOL[:] = saved_pool
    # table / sheet names with an opening bracket that is never closed (no arithmetic operator, so the reader prints them
    # unquoted): 'Budget (draft::A1' inside SUM( ... ) - what the reader prints must be accepted
    saved_t, saved_s = list(c09.TABLE_POOL), list(c09.SHEET_POOL)
    try:
        c09.TABLE_POOL[:] = ["Budget (draft", "Q1 (est.", "Table 1", "x {y", "Data"]
        c09.SHEET_POOL[:] = ["Sheet 1", "Plan (old", "Data", "Summary"]
        frng = _random.Random(20260930)
        for _k in range(3):
            cfg = c09.Config(frng)
            for _ in range(120):
                spec, exp = c09.gen_ref(frng, cfg)
                try:
                    t = c09.real_text(cfg, spec, exp)
                except Exception:  # noqa: BLE001
                    continue
                texts.append(("C09", t))
                texts.append(("C09", f"SUM({t})+1"))
    finally:
        c09.TABLE_POOL[:] = saved_t
        c09.SHEET_POOL[:] = saved_s
    for _ in range(6 if ctx.quick else 60):
        cfg = c09.Config(rng)
        for _ in range(150 if ctx.quick else 600):
            spec, exp = c09.gen_ref(rng, cfg)
            try:
                texts.append(("C09", c09.real_text(cfg, spec, exp)))
            except Exception:  # noqa: BLE001  C09's business
                continue
    return texts


def consumer_history(ctx: Ctx, Tokenizer, TokenizerError, texts):
    """the tokenizer's answer for a text must not depend on what happened to the tokens of an earlier tokenization of the
    same text: the library's own consumers (the post-fix conversion of the formula writer, through `Formula.formula_tokens`
    and through the public `cell.formula = text` setter) run between a first and a second / third tokenization."""
    import warnings
    from numbers_parser import Document
    from numbers_parser.formula import Formula
    doc = Document(num_rows=3, num_cols=3)
    table = doc.sheets[0].tables[0]
    req, out = [], []
    consumed = 0
    for s in texts:
        first = tok(Tokenizer, TokenizerError, s, ctx)
        req.append(f"tok tokenize {enc_text(s)}")
        out.append(first)
        if not first.startswith("ok"):
            continue
        with warnings.catch_warnings():
            warnings.simplefilter("ignore")
            for consumer in ("formula_tokens", "setter", "setter"):
                try:
                    if consumer == "formula_tokens":
                        Formula.formula_tokens(s)
                    else:
                        table.cell(1, 1).formula = s
                    consumed += 1
                except Exception:  # noqa: BLE001   the formula writer is not under test here
                    pass
                again = tok(Tokenizer, TokenizerError, s, ctx)
                req.append(f"tok tokenize {enc_text(s)}")
                out.append(again)
                if again != first:
                    ctx.violation("tokenizer-result-depends-on-history",
                                  f"Tokenizer({s!r}) after the library's own {consumer} consumed the tokens of an earlier "
                                  f"tokenization of the same text: {again[:200]!r}, first time {first[:200]!r}", {"text": s, "history": consumer})
                    break
    ctx.correspond("texts tokenized again after the library's own token consumers (Formula.formula_tokens, the cell.formula "
                   "setter) ran on an earlier tokenization of the same text", req, out)
    ctx.extra["consumer_history"] = {"texts": len(texts), "consumer_runs": consumed}


def translated_source_stream(ctx: Ctx, Tokenizer):
    """Tokenizer.assert_empty_token / save_token called on instances whose buffer the harness sets up (every list of <= 3
    pieces over a small pool) vs the definitions translated from tokenizer.py."""
    import itertools

    import common
    pool = ["A", "1", "SUM", "(", "1E", "+", '"a"', "#REF!", "TRUE", "a b", "é", ":"]
    req, out = [], []
    for k in range(0, 4):
        for pieces in itertools.product(pool, repeat=k):
            if k == 3 and ctx.quick and hash(pieces) % 4:
                continue
            enc = f"{k} " + " ".join(enc_text(p) for p in pieces) if k else "0"
            t = object.__new__(Tokenizer)
            t.formula, t.offset, t.items, t.token_stack, t.token = "".join(pieces), 0, [], [], list(pieces)
            req.append("tokbuf assertempty " + enc)
            try:
                t.assert_empty_token()
                out.append("ok ")
            except Exception as e:  # noqa: BLE001
                out.append("err " + exc_name(e))
            req.append("tokbuf savetoken " + enc)
            try:
                t.save_token()
                out.append("ok " + " ".join(f"{enc_text(x.value)}/{TYPES[x.type]}/{SUBS[x.subtype]}" for x in t.items) + f" | {len(t.token)}")
                if [x.value for x in t.items] != (["".join(pieces)] if pieces else []) or t.token:
                    ctx.violation("save-token-not-lossless", f"save_token with buffer {list(pieces)!r} left items "
                                  f"{[x.value for x in t.items]!r}, buffer {t.token!r}", {"text": "".join(pieces)})
            except Exception as e:  # noqa: BLE001
                out.append("err " + exc_name(e))
    common.translated_only_stream(ctx, "Tokenizer.assert_empty_token / save_token on harness-made buffers (<= 3 pieces) vs the "
                                       "definitions translated from the source", req, out)


def enc_tok(t) -> str:
    return f"{enc_text(t.value)}/{TYPES[t.type]}/{SUBS[t.subtype]}"


def enc_state(ret: str, offset, items, stack, pieces) -> str:
    return " ".join([ret, str(offset), "I"] + [enc_tok(t) for t in items] + ["S"] + [enc_tok(t) for t in stack] + ["P"]
                    + [enc_text(p) for p in pieces])


METHODS = (("sci", "check_scientific_notation"), ("string", "parse_string"), ("error", "parse_error"),
           ("operator", "parse_operator"), ("opener", "parse_opener"), ("closer", "parse_closer"),
           ("separator", "parse_separator"), ("parse", "parse"))


def translated_method_stream(ctx: Ctx, Tokenizer, Token):
    """every method of the Tokenizer on harness-made instances vs the definitions translated from tokenizer.py: the instance is
    put into every state the real main loop passes through at the head of an iteration (formula, offset, items, token_stack,
    token) for every string of length <= 3 over the alphabet, plus hand-made states the loop never reaches; each of the eight
    methods is then called on a copy of that state — also the ones the dispatcher would not have chosen there — and the
    returned value / exception class and the whole state it leaves are compared."""
    import common
    snaps = []

    class Probe(Tokenizer):
        def check_scientific_notation(self):
            snaps.append((self.formula, self.offset, list(self.items), list(self.token_stack), list(self.token)))
            return super().check_scientific_notation()

    L = 3
    alpha3 = ALPHA
    strs = [""] + ["".join(t) for n in (1, 2) for t in itertools.product(ALPHA, repeat=n)]
    strs += ["".join(t) for t in itertools.product(alpha3, repeat=L)]
    strs += ["SUM(1E+3,'a':'b')", "Data::'a-b'+1", "{1,2;3}", "f(g(1;2),\"x\"\"y\")≥2", "1.5E-2%", "#REF!+#N/A", "#REF", "(1,2)",
             "a≥", "1≠", ">=1", "a<>b", "'a''b':'c'"]
    for s in strs:
        try:
            Probe(s)
        except Exception:  # noqa: BLE001   the snapshots up to the failure are what is wanted
            pass
    # states the main loop never reaches: offset at / past the end, closers against every kind of stacked token
    odd = []
    for f in ("", "A", ")", "}", ",", ";", "(", "{", "+", "'a'", '"a"', "#REF!", "≥"):
        for off in range(0, len(f) + 2):
            for pieces in ([], ["A"], ["1E"], ["T::"], ["a", ":"]):
                odd.append((f, off, [], [], pieces))
    for ty in ("FUNC", "ARRAY", "PAREN", "OPERAND", "SEP", "OPERATOR-INFIX"):
        for st in ("OPEN", "CLOSE", ""):
            for f in (")", "}", ",", "+"):
                t = Token("x(", ty, st)
                odd.append((f, 0, [t], [t], []))
                odd.append((f, 0, [Token("1", "OPERAND", "NUMBER"), t], [Token("(", "PAREN", "OPEN"), t], []))
    seen = set()
    req, out = [], []
    for formula, offset, items, stack, pieces in snaps + odd:
        st_enc = " ".join([enc_text(formula), str(offset), str(len(items))] + [enc_tok(t) for t in items] + [str(len(stack))]
                          + [enc_tok(t) for t in stack] + [str(len(pieces))] + [enc_text(p) for p in pieces])
        if st_enc in seen:
            continue
        seen.add(st_enc)
        for op, name in METHODS:
            if op == "parse" and offset > len(formula):
                continue
            t = object.__new__(Tokenizer)
            t.formula, t.offset, t.items, t.token_stack, t.token = formula, offset, list(items), list(stack), list(pieces)
            req.append(f"tokm {op} {st_enc}")
            try:
                r = getattr(t, name)()
                ret = "-" if r is None else ("1" if r is True else "0" if r is False else str(r))
                out.append("ok " + enc_state(ret, t.offset, t.items, t.token_stack, t.token))
                if op != "parse":
                    ctx.mark(("tokm", op, st_enc))
                # the property on one method: whatever a parse_* method consumes it adds, unchanged, to items or to the buffer
                # (with a pending buffer only parse_string / parse_opener are ever reached: the dispatcher saves the token first)
                if op not in ("sci", "parse") and (not pieces or op in ("string", "opener")):
                    before = "".join(x.value for x in items) + "".join(pieces)
                    after = "".join(x.value for x in t.items) + "".join(t.token)
                    if after != before + formula[offset:offset + r]:
                        ctx.violation(f"{name}-not-lossless", f"{name} at offset {offset} of {formula!r} (buffer {pieces!r}) reported "
                                      f"{r} characters consumed but the texts kept went from {before!r} to {after!r}", {"text": formula})
            except Exception as e:  # noqa: BLE001
                out.append("err " + exc_name(e))
    common.translated_only_stream(ctx, "every Tokenizer method on harness-made instances: every loop-head state of every string of "
                                       f"length <= {L} (+ hand-made states) vs the definitions translated from the source", req, out)
    # the Token constructors
    req, out = [], []

    def show(fn):
        try:
            return "ok " + enc_tok(fn())
        except Exception as e:  # noqa: BLE001
            return "err " + exc_name(e)
    sub = "(){}a\n"
    for n in range(0, 4):
        for tup in itertools.product(sub, repeat=n):
            v = "".join(tup)
            for func in (False, True):
                req.append(f"token subexp {enc_text(v)} {int(func)}")
                out.append(show(lambda: Token.make_subexp(v, func=func)))
            req.append(f"token separator {enc_text(v)}")
            out.append(show(lambda: Token.make_separator(v)))
    for v in (",", ";", ",;", ";;", "", "a"):
        req.append(f"token separator {enc_text(v)}")
        out.append(show(lambda: Token.make_separator(v)))
    for ty in TYPES:
        for st in SUBS:
            if st in ("NUMBER", "RANGE"):
                continue
            for v in ("(", "SUM(", "{"):
                t = Token(v, ty, st)
                req.append(f"token closer {enc_tok(t)}")
                out.append(show(t.get_closer))
    common.translated_only_stream(ctx, "Token.make_subexp / get_closer / make_separator on short texts and every type / subtype "
                                       "combination vs the definitions translated from the source", req, out, exhaustive=True)


def run(ctx: Ctx):
    from numbers_parser.tokenizer import Token, Tokenizer, TokenizerError
    translated_source_stream(ctx, Tokenizer)
    translated_method_stream(ctx, Tokenizer, Token)

    def batch(name, strs, exhaustive=False):
        req = [f"tok tokenize {enc_text(s)}" for s in strs]
        out = [tok(Tokenizer, TokenizerError, s, ctx) for s in strs]
        # translated=True: the same lines also go through `Tokenizer.parse` as translated from the source (trdriver)
        ctx.correspond(name, req, out, exhaustive=exhaustive, nontrivial=lambda r, o: not r.endswith(" -"), translated=True)

    # corpus of past disagreements / interesting cases first
    corpus = [")", "}", "(", "1E+3", "1.5E-2", "1E\n+3", "'a''b", "'a''", "'a' : 'b'", "'a':'b''", "'a'\u00a0:\t'b'",
              "≥", "a≥", "1≠", "SUM(A1:B2)×3+\"a\"\"b\"", "\"\"\"", "\"\"", "#REF!+1", "#REF", "a#N/A", "{1,2;3,4}",
              "f(1,2)", "(1,2)", ",", "f(g(1;2))", "a'b", "a\"b\"", "(a))", "{)", "-1", "1-1", "(-1)", "1%-1", ")-1"]
    batch("corpus", corpus)

    L = 3 if ctx.quick else 4
    strs = [""]
    for n in range(1, L + 1):
        strs += ["".join(t) for t in itertools.product(ALPHA, repeat=n)]
    batch(f"all strings of length <= {L} over the {len(ALPHA)}-symbol alphabet", strs, exhaustive=True)

    qa = "\"'a: "
    Lq = 8 if ctx.quick else 9
    strs = []
    for n in range(1, Lq + 1):
        strs += ["".join(t) for t in itertools.product(qa, repeat=n)]
    batch(f"all strings of length <= {Lq} over the quote alphabet {qa!r}", strs, exhaustive=True)

    # regex scanners directly (same quote-heavy space + whitespace variants)
    dq, sq = Tokenizer.STRING_REGEXES['"'], Tokenizer.STRING_REGEXES["'"]
    req, out = [], []
    qa2 = "\"'a:\t"
    for n in range(1, 8):
        for t in itertools.product(qa2, repeat=n):
            s = "".join(t)
            if s[0] == '"':
                m = dq.match(s)
                req.append(f"tok dq {enc_text(s)}")
                out.append("ok " + (str(len(m.group(0))) if m else "none"))
            elif s[0] == "'":
                m = sq.match(s)
                req.append(f"tok sq {enc_text(s)}")
                out.append("ok " + (str(len(m.group(0))) if m else "none"))
    ctx.correspond("STRING_REGEXES vs scanners: all strings of length <= 7 over {\",',a,:,TAB} starting with a quote", req, out, exhaustive=True)

    sn = "190.E+-\n"
    strs = []
    for n in range(1, 7):
        strs += ["".join(t) for t in itertools.product(sn, repeat=n)]
    req = [f"tok sn {enc_text(s)}" for s in strs]
    out = ["ok 1" if Tokenizer.SN_RE.match(s) else "ok 0" for s in strs]
    ctx.correspond("SN_RE vs scanner: all strings of length <= 6 over {1,9,0,.,E,+,-,NL}", req, out, exhaustive=True)
    batch("scientific notation inside formulas", [a + b + c for a in ("1E", "1.5E", "9.05E", "1.E", "0E", "10E", "1E\n", "A1E", "1e")
                                                  for b in "+-*" for c in ("3", "", "(", "'x'")], exhaustive=True)

    codes = list(Tokenizer.ERROR_CODES)
    strs = []
    for c in codes:
        strs += [c, c[:-1], c + "1", "1+" + c, c + c, "a" + c, c + "(", "(" + c + ")", c.lower()]
    batch("error codes with prefixes/suffixes", strs, exhaustive=True)

    batch("seeded random strings (length 4..40, biased to brackets and literals)", gen_random(ctx.rng, 100_000 if ctx.quick else 2_000_000))

    # clause 4 (exploration, not a theorem yet): everything the reader emits must be accepted
    forms, ndocs = fixture_formulas(8 if ctx.quick else 0)
    rejected = 0
    for f in forms:
        try:
            Tokenizer(f)
        except TokenizerError:
            rejected += 1
            ctx.violation("reader-formula-rejected", f"formula read from a fixture is rejected by the tokenizer: {f!r}", {"text": f})
        except Exception:  # noqa: BLE001  reported by tok() below
            pass
    batch(f"formulas read from {ndocs} fixture documents", forms)
    ctx.extra["fixture_formulas"] = {"documents": ndocs, "distinct_formulas": len(forms), "rejected": rejected}

    rend = rendered_texts(ctx)
    rej = 0
    for src, f in rend:
        try:
            Tokenizer(f)
        except TokenizerError:
            rej += 1
            kind = "apostrophe-in-name" if "'''" in f else ("quoted-name-after-prefix-or-colon" if re.search(r":\s*\$?'", f) else
                                                               "brace-in-name" if re.search(r"[{}]", f) and src == "C09" else "other")
            ctx.violation(f"reader-formula-rejected:{src}:{kind}", f"text rendered by the reader ({src} generator) is rejected by the tokenizer: {f!r}", {"text": f})
        except Exception:  # noqa: BLE001  reported by tok() below
            pass
    batch("formula / reference texts rendered by the reader from C08 and C09 generated expressions", sorted({f for _, f in rend}))
    ctx.extra["rendered_texts"] = {"count": len(rend), "rejected": rej}

    hist = [f for f in forms if "(" in f][: 400 if ctx.quick else 5000] + sorted({f for _, f in rend if "(" in f})[: 400 if ctx.quick else 5000]
    hist += ["SUM(A1:A3)", "SUM(A1:A3)", "IF(A1>1,ABS(B1),SUM(1,2))", "1+2", "A1", "ABS(-1)%", "SUM(A1,{1,2;3,4})"]
    from numbers_parser.formula import OPERATOR_MAP   # the writer tokenizes the text with × ÷ ≤ … mapped to ASCII
    hist += [t for t in (f.translate(OPERATOR_MAP) for f in hist) if t not in hist]
    consumer_history(ctx, Tokenizer, TokenizerError, hist)

    # clause 4, the theorem's domain: (a) every generated stored expression (arrays, lists, calls, empty arguments) is
    # TokSafe; (b) refOK as stated independently in Python = the Lean predicate, exhaustively on short strings over a
    # quote / colon / operator alphabet and on every reference text the real reader printed; (c) the REAL tokenizer
    # accepts every text refOK admits, alone and inside a formula.
    ctx.correspond("generated stored expressions are inside TokSafe (domain of reader_output_accepted_partial)",
                   ["formula toksafe " + w for w in TREE_WORDS], ["ok 1"] * len(TREE_WORDS))
    TREE_WORDS.clear()
    atom_ok, ref_ok = make_ref_ok(Tokenizer)
    ra = "a:' -1E"
    Lr = 6 if ctx.quick else 7
    cand = ["".join(t) for n in range(0, Lr + 1) for t in itertools.product(ra, repeat=n)]
    cand += sorted({f for src, f in rend if src == "C09"})
    cand += ["'a-b'", "Table 1::'a-b'", "S::T::'a+b':'c×d'", "alpha:'a-b'", "'a-b':alpha", "'a-b':\u00a0x", "1:'a-b'", "1E:'a'",
             "'a'\n", "Bob" + 3 * "'" + "s", "'it''s'", "T::'a':'b':'c'", "'a':'b':c", "'a':b:'c'", "x::'a' ", "'a'::b", "1.5E", "2E\n"]
    req, out, admitted = [], [], 0
    for t in cand:
        ok = ref_ok(t)
        req.append("tok refok " + enc_text(t))
        out.append(f"ok {int(ok)}")
        req.append("tok atomok " + enc_text(t))
        out.append(f"ok {int(atom_ok(t))}")
        if ok:
            admitted += 1
            for f in (t, f"SUM({t},{{{t};1}})+{t}%"):
                try:
                    Tokenizer(f)
                except Exception as e:  # noqa: BLE001
                    ctx.violation("refok-text-rejected", f"a reference text inside the theorem's domain is rejected by the "
                                  f"tokenizer ({exc_name(e)}): {f!r}", {"text": f})
    ctx.correspond(f"refOK / atomOK: independent Python statement vs Lean, all strings of length <= {Lr} over {ra!r} + every "
                   "reference text printed by the real reader", req, out)
    ctx.extra["refOK"] = {"candidates": len(cand), "admitted": admitted}


def replay(data):
    from numbers_parser.tokenizer import Tokenizer
    s = data["input"]["text"]
    try:
        items = Tokenizer(s).items
        return {"text": s, "tokens": [(t.value, t.type, t.subtype) for t in items], "concat_equals_input": "".join(t.value for t in items) == s}
    except Exception as e:  # noqa: BLE001
        return {"text": s, "raised": exc_name(e), "message": str(e)}
