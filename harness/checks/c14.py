"""C14 — displayed dates and durations agree with the stored value."""
from __future__ import annotations

import calendar
import re
import warnings
from datetime import date, datetime, timedelta

from common import REPO, Ctx, enc_text, exc_name

PID = "C14"
PROPS_MODULE = "NumbersModel.Props.C14"
THEOREMS = [f"NumbersModel.Props.C14.{t}" for t in (
    "table_as_modelled", "every_directive_defined", "unknown_field_empty", "hour24_directives",
    "hour_1_to_24_directives", "hour12_directives", "hour_0_to_11_directives", "ampm_directive",
    "clock12_determines_hour", "minute_directives", "second_directives", "subsecond_directives",
    "day_directives", "month_directives", "year_directives", "day_of_year_directives", "day_of_year_range",
    "day_of_year_step", "day_of_year_anchor", "ordinal_step", "weekday_step", "weekday_anchor",
    "weekday_name_directives", "month_name_directives", "week_of_month_directive", "week_of_year_directive",
    "week_of_year_step", "nth_weekday_directive", "era_directive", "scanner_concat",
    "scanner_literal_passthrough", "scanner_quoted_passthrough", "expand_quotes_is_fieldless_scanner",
    "expand_quotes_concat", "duration_text_numbers", "duration_units_shown", "duration_reads_back",
    "auto_units_valid", "auto_units_exact", "duration_reads_back_auto", "duration_fields_normalised",
    # the format-selection glue on the date / duration path (Model/FormatDispatch.lean)
    "set_then_display_datetime", "display_reads_back_datetime", "display_reads_back_duration", "date_dispatch")] + \
    [f"NumbersModel.Props.C14.Src.{t}" for t in (
        # the same clauses over the definitions py2lean regenerates from constants.py / cell.py on every run
        "src_week_of_month_directive", "src_nth_weekday_directive", "src_day_of_year_directives", "src_scanner_concat",
        "src_scanner_total", "src_scanner_literal_passthrough", "src_scanner_quoted_passthrough",
        "src_expand_quotes_is_fieldless_scanner", "src_expand_quotes_concat", "src_unit_format", "src_auto_units_valid",
        "src_duration_reads_back_auto")] + \
    [f"NumbersModel.Translated.{t}" for t in (
        "day_of_year_eq_model", "week_of_month_eq_model", "days_occurred_in_month_eq_model", "expand_quotes_eq_model",
        "decode_date_format_eq_model", "unit_format_eq_model", "auto_units_eq_model")]
TRANSLATED_GROUPS = ("DateFmt", "Duration")
PARTIAL = {}
RULE = ("exhaustive per field on every run through Table.set_cell_formatting(datetime)+Cell.formatted_value: all 86400 "
        "h:m:s x the 13 clock directives; every day of 4 years (leap, non-leap, century non-leap, century leap) x the 17 "
        "calendar directives; selected years; sub-seconds; CPython date.weekday()/tm_yday/toordinal vs the model's civil "
        "arithmetic (quick: ~60 whole years + 5 days of every year 1..9999, thorough: every day 0001-01-01..9999-12-31); "
        "seeded random compositions with literals/quotes through both the validated datetime route and the custom-format "
        "route; durations at all unit boundaries +-1 ms up to 10 years x 21 unit pairs x 3 styles + automatic units. "
        "A case is counted non-trivial once per distinct protocol request.")
MANIFEST = {
    "text": "Full: every directive of the live DATETIME_FIELD_MAP has a Lean theorem giving, for EVERY date-time, the value "
            "read back from its rendering and its padding (arithmetic lemmas over unbounded fields, finite name tables by "
            "decide); day-of-year, ordinal and weekday are characterised by step laws over the whole proleptic calendar; "
            "scanner_concat proves a format renders as the concatenation of its parts with literal and quoted text "
            "unchanged; duration_reads_back proves that the digit groups of the displayed duration, weighted by the units "
            "shown, sum to the duration truncated to the smallest unit, for every largest/smallest pair, the three styles "
            "and automatic units. Tied to the code by per-field exhaustive correspondence through the real API. "
            "_day_of_year, _week_of_month, _days_occurred_in_month (constants.py), _expand_quotes, the whole scanning loop of "
            "_decode_date_format, _unit_format and _auto_units (cell.py) are additionally TRANSLATED from the source on every "
            "run (harness/py2lean.py -> Gen/TrDateFmt.lean, Gen/TrDuration.lean), proved equal to the model for all arguments "
            "(Lemmas/TrDateFmt.lean, Lemmas/TrDuration.lean: the index-based while loops against the model's list recursion) "
            "and the clauses are restated over the translated definitions (Props.C14.Src.src_*); the translated definitions "
            "are run against the real functions (trdriver). The format-selection glue of the date / duration path is modelled "
            "too (Model/FormatDispatch.lean: Formatting.__post_init__ with the directive validation and the default format, "
            "set_cell_formatting('datetime'), format_archive, Cell.formatted_value -> _date_format / _duration_format incl. custom "
            "uids): set_then_display_datetime, display_reads_back_datetime (the text formatted_value returns is "
            "_decode_date_format of the format passed - or the documented default - on the cell's date-time, hence the "
            "concatenation of its parts), display_reads_back_duration (a cell with a duration record displays _duration_format "
            "under that record; read back it is the duration truncated to the smallest unit), date_dispatch; compared through "
            "the real API for every format name x cell kind, every date format of a pool (valid / invalid), after save + reopen, "
            "and on every date / duration cell of every fixture document with the format record read from the data lists.",
    "note": "`%A/%a/%B/%b/%p` locale names are those of the C locale in the model: compared on every run, not proved. "
            "CPython datetime/strftime is replaced by own civil arithmetic (agreement checked on every day of the range in "
            "the thorough tier). Durations are modelled over integer milliseconds; float exactness at that resolution is "
            "assumed and exercised at every unit boundary.",
    "technique": "Lean 4 proof (omega / induction / decide on finite tables; scanners, directive arithmetic and duration units proved equal to their translation from the Python source) + exhaustive differential correspondence",
}
ASSUMPTIONS = [
    "strftime %A %a %B %b %p return the C-locale English names (compared on every run)",
    "CPython date.weekday()/timetuple().tm_yday/strftime('%W %y %Y %I') agree with the model's proleptic-Gregorian arithmetic "
    "(compared: whole range in the thorough tier)",
    "a cell's duration is a whole number of milliseconds and the float operations of _duration_format are exact at that "
    "resolution up to 10 years (compared at every unit boundary +-1 ms)",
    "str.isalpha() of the running interpreter is generated into Gen.alphaRanges on every run",
    "translated definitions: value.timetuple().tm_yday, value.replace(day=1).weekday(), str.isalpha and "
    "_decode_date_format_field are parameters; (value - value.replace(day=1)).days = value.day - 1 (checked on every date of "
    "the direct stream); int(ceil(x / 7.0)) and int(x / 7) are exact for |x| < 2^50; the float duration is the double nearest "
    "to ms / 1000 (PyT.Millis); DurationStyle / DurationUnits / SECONDS_IN_* are read from the live module into the "
    "generated text",
]

CLOCK_FMT = "H HH h hh k kk K KK m mm s ss a"
DAY_FMT = "d dd D DD DDD M MM MMM MMMM EEE EEEE W ww F y yy yyyy G"
SUB_FMT = "S SS SSS SSSS SSSSS"
EPOCH = datetime(2001, 1, 1)


# ---------------------------------------------------------------------------------------------
# documented meaning of each directive (docs/api/datetime.rst), independent of the Lean model
# ---------------------------------------------------------------------------------------------
def _mondays_upto(d: date) -> int:
    j1 = date(d.year, 1, 1).toordinal()
    return sum(1 for o in range(j1, d.toordinal() + 1) if o % 7 == 1)   # ordinal 1 (0001-01-01) is a Monday


def documented(name: str, v: datetime) -> str:
    yday = (v.date() - date(v.year, 1, 1)).days + 1
    first_wd = date(v.year, v.month, 1).weekday()
    spec = {
        "a": "am" if v.hour < 12 else "pm",
        "EEEE": calendar.day_name[v.weekday()], "EEE": calendar.day_abbr[v.weekday()],
        "yyyy": str(v.year), "yy": f"{v.year % 100:02d}",
        "y": str(v.year),          # reference workbook date_formats.numbers: 'dd/MM/y' -> '22/01/2000' (docs say otherwise)
        "MMMM": calendar.month_name[v.month], "MMM": calendar.month_abbr[v.month],
        "MM": f"{v.month:02d}", "M": str(v.month), "d": str(v.day), "dd": f"{v.day:02d}",
        "DDD": f"{yday:03d}", "DD": f"{yday:02d}", "D": str(yday),
        "HH": f"{v.hour:02d}", "H": str(v.hour),
        "hh": f"{(v.hour % 12) or 12:02d}", "h": str((v.hour % 12) or 12),
        "k": str(v.hour or 24), "kk": f"{v.hour or 24:02d}",
        "K": str(v.hour % 12), "KK": f"{v.hour % 12:02d}",
        "mm": f"{v.minute:02d}", "m": str(v.minute), "ss": f"{v.second:02d}", "s": str(v.second),
        "W": str((v.day - 1 + first_wd) // 7),
        "ww": f"{_mondays_upto(v.date()):02d}",
        "G": "AD", "F": str((v.day - 1) // 7 + 1),
    }
    for n in range(1, 6):
        spec["S" * n] = f"{v.microsecond:06d}"[:n]
    return spec[name]


class _Impl:
    """Drives the real API on an in-memory document."""

    def __init__(self, ctx: Ctx):
        from numbers_parser import Document
        self.Document = Document
        self.ctx = ctx
        self.workaround = False
        self._new()

    def _new(self):
        self.doc = self.Document(num_header_rows=0, num_header_cols=0, num_rows=2, num_cols=2)
        self.table = self.doc.sheets[0].tables[0]
        self.n = 0

    def _cell(self, v):
        c = self.table.cell(0, 0)
        if self.workaround and c._seconds is None:
            c._seconds = (v - EPOCH).total_seconds()
        return c

    def render(self, v: datetime, fmt: str) -> str:
        """Table.write + Table.set_cell_formatting(datetime) + Cell.formatted_value."""
        self.n += 1
        if self.n > 20000:
            self._new()
        try:
            self.table.write(0, 0, v)
            self.table.set_cell_formatting(0, 0, "datetime", date_time_format=fmt)
            return "ok " + enc_text(self._cell(v).formatted_value)
        except Exception as e:  # noqa: BLE001
            return "err " + exc_name(e)

    def render_custom(self, items: list[tuple[datetime, str]]) -> list[str]:
        """custom-format route (no directive validation): all formats are created before the first read because
        _NumbersModel.custom_format_map() is memoised."""
        out = []
        for lo in range(0, len(items), 400):
            chunk = items[lo:lo + 400]
            doc = self.Document(num_header_rows=0, num_header_cols=0, num_rows=len(chunk), num_cols=1)
            table = doc.sheets[0].tables[0]
            cfs = {}
            for _, f in chunk:
                if f not in cfs:
                    cfs[f] = doc.add_custom_format(type="datetime", format=f)
            for r, (v, f) in enumerate(chunk):
                table.write(r, 0, v)
                table.set_cell_formatting(r, 0, "custom", format=cfs[f])
            for r, (v, f) in enumerate(chunk):
                try:
                    c = table.cell(r, 0)
                    if self.workaround and c._seconds is None:
                        c._seconds = (v - EPOCH).total_seconds()
                    out.append("ok " + enc_text(c.formatted_value))
                except Exception as e:  # noqa: BLE001
                    out.append("err " + exc_name(e))
        return out


def _req(op: str, v: datetime, fmt: str) -> str:
    return f"datefmt {op} {v.year} {v.month} {v.day} {v.hour} {v.minute} {v.second} {v.microsecond} {enc_text(fmt)}"


def _dec(o: str) -> str | None:
    if not o.startswith("ok "):
        return None
    w = o[3:]
    return "" if w == "-" else "".join(chr(int(p, 16)) for p in w.split(","))


def _check_fields(ctx: Ctx, v: datetime, fmt: str, out: str):
    """oracle: a space-separated list of directives renders as the documented values, field by field."""
    text = _dec(out)
    names = fmt.split(" ")
    if text is None:
        ctx.violation("datetime-format-raises", f"{fmt!r} on {v.isoformat()} -> {out}", {"value": v.isoformat(), "format": fmt})
        return
    got = text.split(" ")
    if len(got) != len(names):
        ctx.violation("datetime-format-field-count", f"{fmt!r} on {v.isoformat()} -> {text!r}", {"value": v.isoformat(), "format": fmt})
        return
    for n, g in zip(names, got):
        want = documented(n, v)
        if g != want:
            ctx.violation(f"directive-{n}", f"directive {n!r} on {v.isoformat()} displays {g!r}, documented meaning {want!r}",
                          {"value": v.isoformat(), "format": n})


# ---------------------------------------------------------------------------------------------
# durations
# ---------------------------------------------------------------------------------------------
UNITS = [(1, 604_800_000, "w", "week"), (2, 86_400_000, "d", "day"), (4, 3_600_000, "h", "hour"),
         (8, 60_000, "m", "minute"), (16, 1000, "s", "second"), (32, 1, "ms", "millisecond")]
UNIT_MS = {u: ms for u, ms, _, _ in UNITS}


class _DurStub:
    def __init__(self):
        self.fmt = None

    def table_format(self, _table_id, _key):
        return self.fmt


def _dur_cell(stub, ms: int):
    from numbers_parser.cell import DurationCell
    td = timedelta(milliseconds=ms)
    c = DurationCell(0, 0, td)
    c._double = float(td.total_seconds())          # what Cell._to_buffer stores and _from_storage reads back
    c._duration_format_id = 1
    c._table_id = 1
    c._model = stub
    return c


def _dur_render(stub, ms, style, largest, smallest, auto) -> str:
    from numbers_parser.generated import TSKArchives_pb2 as TSKArchives
    stub.fmt = TSKArchives.FormatStructArchive(format_type=268, duration_style=style, duration_unit_largest=largest,
                                               duration_unit_smallest=smallest, use_automatic_duration_units=auto)
    try:
        return "ok " + enc_text(_dur_cell(stub, ms).formatted_value)
    except Exception as e:  # noqa: BLE001
        return "err " + exc_name(e)


def _dur_oracle(ctx: Ctx, ms, style, largest, smallest, auto, out):
    inp = {"ms": ms, "style": style, "largest": largest, "smallest": smallest, "auto": auto}
    text = _dec(out)
    if text is None:
        ctx.violation("duration-format-raises", f"{inp} -> {out}", inp)
        return
    nums = [int(x) for x in re.findall(r"[0-9]+", text)]
    if not auto:
        units = [ms_ for u, ms_, _, _ in UNITS if largest <= u <= smallest]
        ok = len(nums) == len(units) and sum(a * b for a, b in zip(units, nums)) == ms - ms % UNIT_MS[smallest]
    elif style == 1:
        labels = re.findall(r"[0-9]+([a-z]+)", text)
        table = {ab: ms_ for _, ms_, ab, _ in UNITS}
        ok = len(labels) == len(nums) and all(l in table for l in labels) and \
            sum(table[l] * n for l, n in zip(labels, nums)) == ms - ms % table[labels[-1]] == ms
    elif style == 2:
        labels = re.findall(r"[0-9]+ ([a-z]+?)s?(?= |$)", text)
        table = {nm: ms_ for _, ms_, _, nm in UNITS}
        ok = len(labels) == len(nums) and all(l in table for l in labels) and \
            sum(table[l] * n for l, n in zip(labels, nums)) == ms - ms % table[labels[-1]] == ms
    else:   # compact + automatic: the units are not labelled; some contiguous window must read back exactly
        sizes = [m for _, m, _, _ in UNITS]
        ok = any(sum(a * b for a, b in zip(sizes[i:i + len(nums)], nums)) == ms
                 for i in range(0, len(sizes) - len(nums) + 1)) and len(nums) >= 1
    if not ok:
        ctx.violation("duration-readback" + ("-auto" if auto else ""),
                      f"{ms} ms, style {style}, largest {largest}, smallest {smallest}, auto {auto} displays {text!r}", inp)


def _duration_values(ctx: Ctx) -> list[int]:
    rng = ctx.rng
    ten_years = 10 * 365 * 86_400_000
    vals = {0, 1, 9, 10, 11, 99, 100, 101, 999, ten_years, ten_years - 1}
    mults = [1, 2, 6, 7, 9, 10, 11, 23, 24, 59, 60, 61, 99, 100, 101, 365, 520, 1000]
    for _, u, _, _ in UNITS[:-1]:
        for k in mults:
            for dlt in (-1, 0, 1):
                x = k * u + dlt
                if 0 <= x <= ten_years:
                    vals.add(x)
    # mixed boundaries: every unit at 0 / 1 / max
    for w in (0, 1, 3):
        for d in (0, 1, 6):
            for h in (0, 1, 23):
                for m in (0, 9, 59):
                    for s in (0, 10, 59):
                        for x in (0, 5, 999):
                            vals.add(((((w * 7 + d) * 24 + h) * 60 + m) * 60 + s) * 1000 + x)
    n = 300 if ctx.quick else 5000
    for _ in range(n):
        mag = rng.choice((10**3, 10**5, 10**7, 10**9, ten_years))
        vals.add(rng.randrange(0, mag + 1))
        vals.add(rng.randrange(0, mag // 1000 + 1) * 1000)
    return sorted(vals)


# ---------------------------------------------------------------------------------------------
def _random_format(rng, names, custom: bool) -> str:
    """a date format made of fields, literal punctuation, quoted text and '' — mostly well formed, sometimes not."""
    lits = [" ", "/", "-", ":", ".", ", ", " (", ") ", "#", "1", "07", " · ", "–", " ", "%", "\\", '"']
    words = ["at", "of", "Day", "o'clock", "h", "é", "ß", "日", "x1", "Week", "T", "Z"] if custom else names
    parts = []
    n = rng.randrange(1, 7)
    prev = None
    for _ in range(n):
        r = rng.random()
        if r < 0.45:
            kind = "f"
        elif r < 0.75:
            kind = "l"
        elif r < 0.92:
            kind = "q"
        else:
            kind = "a"
        wild = rng.random() < 0.08          # allow ill-formed adjacency now and then
        if not wild and ((kind == "f" and prev == "f") or (kind == "a" and prev in ("f", "q")) or (kind == "q" and prev == "q")):
            kind = "l"
        if kind == "f":
            parts.append(rng.choice(names) if rng.random() < 0.97 or not custom else rng.choice(("Q", "ddd", "hhh", "é", "dé")))
        elif kind == "l":
            parts.append(rng.choice(lits))
        elif kind == "q":
            w = rng.choice(words)
            if custom and rng.random() < 0.3:
                w = w + " " + rng.choice(words)
            parts.append("'" + w.replace("'", "''") + "'")
        else:
            parts.append("''")
        prev = kind
    s = "".join(parts)
    if rng.random() < 0.03:
        s += "'"
    return s


def _cap_violations(ctx: Ctx, per_signature: int = 3):
    """keep at most `per_signature` reports of one failure class so that a known finding cannot crowd out a new one
    (Ctx stores at most 200 violations)."""
    seen: dict[str, int] = {}
    orig = ctx.violation

    def violation(sig, what, inp):
        seen[sig] = seen.get(sig, 0) + 1
        if seen[sig] <= per_signature:
            orig(sig, what, inp)
    ctx.violation = violation


def run(ctx: Ctx):
    warnings.simplefilter("ignore")
    _cap_violations(ctx)
    from numbers_parser.constants import DATETIME_FIELD_MAP
    rng = ctx.rng
    names = list(DATETIME_FIELD_MAP.keys())
    impl = _Impl(ctx)

    # --- 0. is the format applied at all to a cell written in this session? -----------------------------
    probe = datetime(2024, 3, 5, 10, 7, 9)
    got = _dec(impl.render(probe, "yyyy"))
    if got != "2024":
        ctx.violation("datetime-format-ignored-in-memory",
                      f"write({probe.isoformat()}); set_cell_formatting('datetime', date_time_format='yyyy'); formatted_value == {got!r}",
                      {"value": probe.isoformat(), "format": "yyyy"})
        impl.workaround = True
        ctx.notes.append("formatted_value ignores the date format of cells written in this session; the harness set "
                         "cell._seconds by hand to reach the directive table for the remaining checks")

    # --- 1. own civil arithmetic vs CPython -----------------------------------------------------------------
    if ctx.quick:
        years = sorted(set(list(range(1, 6)) + [99, 100, 101, 399, 400, 401, 1582, 1583, 1699, 1700, 1899, 1900, 1901, 1999,
                                               2000, 2001, 2002, 2023, 2024, 2025, 2099, 2100, 2101, 2399, 2400, 9998, 9999]
                           + [rng.randrange(1, 10000) for _ in range(30)]))
        days = [date(y, 1, 1) + timedelta(days=k) for y in years for k in range(366 if calendar.isleap(y) else 365)]
        for y in range(1, 10000):
            days += [date(y, 1, 1), date(y, 2, 28), date(y, 3, 1), date(y, 12, 31), date(y, 12, 30)]
            if calendar.isleap(y):
                days.append(date(y, 2, 29))
    else:
        days = [date.fromordinal(o) for o in range(1, date(9999, 12, 31).toordinal() + 1)]
    req = [f"datefmt civil {d.year} {d.month} {d.day}" for d in days]
    out = [f"ok {d.weekday()} {d.timetuple().tm_yday} {d.toordinal()}" for d in days]
    ctx.correspond("civil arithmetic: weekday / day-of-year / ordinal vs CPython" + ("" if ctx.quick else " (every day 1..9999)"),
                   req, out, exhaustive=not ctx.quick)

    # --- 2. clock grid: every h:m:s ---------------------------------------------------------------------------
    req, out = [], []
    for h in range(24):
        for m in range(60):
            for s in range(60):
                v = datetime(2023 + (h % 2), 1 + (m % 12), 1 + (s % 28), h, m, s)
                o = impl.render(v, CLOCK_FMT)
                req.append(_req("write", v, CLOCK_FMT))
                out.append(o)
                _check_fields(ctx, v, CLOCK_FMT, o)
    ctx.correspond("clock directives: all 24 x 60 x 60 times", req, out, exhaustive=True)

    # --- 3. calendar grid: every day of a leap, a non-leap, a century non-leap and a century leap year -------------
    req, out = [], []
    for y in (2024, 2023, 1900, 2000):
        d = date(y, 1, 1)
        while d.year == y:
            v = datetime(d.year, d.month, d.day, 13, 5, 7)
            o = impl.render(v, DAY_FMT)
            req.append(_req("write", v, DAY_FMT))
            out.append(o)
            _check_fields(ctx, v, DAY_FMT, o)
            d += timedelta(days=1)
    ctx.correspond("calendar directives: every day of 2024, 2023, 1900, 2000 (366/365 days, 12 months, 7 weekdays)",
                   req, out, exhaustive=True)

    # --- 4. years ----------------------------------------------------------------------------------------------------
    req, out = [], []
    ys = sorted(set([1, 2, 9, 10, 99, 100, 101, 999, 1000, 1001, 9999] + list(range(1900, 2101))))
    for y in ys:
        for (mo, dd) in ((1, 1), (2, 28), (7, 4), (12, 31)):
            v = datetime(y, mo, dd, 0, 0, 0)
            o = impl.render(v, DAY_FMT)
            req.append(_req("write", v, DAY_FMT))
            out.append(o)
            _check_fields(ctx, v, DAY_FMT, o)
    ctx.correspond("year directives: years 1, 2, 9, 10, 99..101, 999..1001, 1900..2100, 9999", req, out, exhaustive=True)

    # --- 5. sub-seconds -------------------------------------------------------------------------------------------------
    req, out = [], []
    us = sorted(set([0, 1, 9, 10, 99, 100, 999, 1000, 9999, 10000, 99999, 100000, 123456, 500000, 999999, 999000, 900000, 90000]
                    + [rng.randrange(0, 1_000_000) for _ in range(2000 if ctx.quick else 50000)]
                    + [k * 1000 for k in range(1000)]))
    for u in us:
        v = datetime(2022, 5, 30, 23, 59, 59, u)
        o = impl.render(v, SUB_FMT)
        req.append(_req("write", v, SUB_FMT))
        out.append(o)
        _check_fields(ctx, v, SUB_FMT, o)
    ctx.correspond("sub-second directives: every whole millisecond + boundaries + seeded microseconds", req, out)

    # --- 6. every directive alone, and single-directive edge formats ---------------------------------------------------
    req, out = [], []
    samples = [datetime(2024, 2, 29, 0, 0, 0), datetime(1999, 12, 31, 23, 59, 59, 999999), datetime(2001, 1, 1, 12, 0, 0),
               datetime(1, 1, 1, 10, 0, 0), datetime(9999, 12, 31, 20, 0, 0, 5)]
    for v in samples:
        for n in names:
            o = impl.render(v, n)
            req.append(_req("write", v, n))
            out.append(o)
            _check_fields(ctx, v, n, o)
        for f in ("", " ", "XX", "d XX", "ddd", "yyyyy", "dé", "d'", "'", "''", "'d'", "d''d", "'a''a'", "d 'G' d", "h:mm a",
                  "EEEE, d MMMM yyyy", "yyyy-MM-dd'T'HH:mm:ss.SSS", "d M", "d\tM", "d\nM", "d1M", "dd/MM/yy", "'k'k"):
            req.append(_req("write", v, f))
            out.append(impl.render(v, f))
    ctx.correspond("each directive alone + edge formats (validation, unknown names, quotes) through the datetime route",
                   req, out, exhaustive=True)

    # --- 7. random compositions -----------------------------------------------------------------------------------------
    n = 6000 if ctx.quick else 50000
    req, out = [], []
    for _ in range(n):
        v = datetime(rng.choice((1, 999, 1970, 2000, 2001, 2024, 2038, 9999)), rng.randrange(1, 13), rng.randrange(1, 29),
                     rng.randrange(24), rng.randrange(60), rng.randrange(60), rng.choice((0, rng.randrange(1_000_000))))
        f = _random_format(rng, names, custom=False)
        o = impl.render(v, f)
        req.append(_req("write", v, f))
        out.append(o)
        _oracle_composition(ctx, v, f, o, names)
    ctx.correspond("random compositions through set_cell_formatting('datetime') (with directive validation)", req, out)
    reformat_sequences(ctx, names)

    items = []
    for _ in range(n):
        v = datetime(rng.choice((1, 999, 1970, 2000, 2001, 2024, 2038, 9999)), rng.randrange(1, 13), rng.randrange(1, 29),
                     rng.randrange(24), rng.randrange(60), rng.randrange(60), rng.choice((0, rng.randrange(1_000_000))))
        items.append((v, _random_format(rng, names, custom=True)))
    out = impl.render_custom(items)
    req = [_req("fmt", v, f) for v, f in items]
    for (v, f), o in zip(items, out):
        _oracle_composition(ctx, v, f, o, names)
    ctx.correspond("random compositions with free quoted text through custom date formats (no validation)", req, out,
                   translated=True)

    # --- 8. _expand_quotes ------------------------------------------------------------------------------------------------
    from numbers_parser.cell import _expand_quotes
    import itertools
    strs = [""]
    for k in range(1, 6 if ctx.quick else 8):
        strs += ["".join(t) for t in itertools.product("'ab ", repeat=k)]
    strs += ["'Day #'DDD' of 'yyyy", "aa ''bb'' cc''cc \"dd\" cc''", "it''s", "'it''s'", "'", "''", "'''", "''''", "é'é'"]
    req = ["datefmt expand " + enc_text(s) for s in strs]
    out = ["ok " + enc_text(_expand_quotes(s)) for s in strs]
    ctx.correspond("_expand_quotes: all strings of length <= 5 over {',a,b,space} + samples", req, out, exhaustive=True,
                   translated=True)
    for s in strs:
        if "'" not in s and _expand_quotes(s) != s:
            ctx.violation("expand-quotes-literal", f"_expand_quotes({s!r}) = {_expand_quotes(s)!r}", {"text": s})

    # --- 9. str.isalpha as generated ---------------------------------------------------------------------------------------
    cps = list(range(0, 0x3000)) + [rng.randrange(0x3000, 0x110000) for _ in range(3000)]
    cps = [c for c in cps if not 0xD800 <= c <= 0xDFFF]
    ctx.correspond("str.isalpha() table", [f"datefmt alpha {c}" for c in cps], [f"ok {int(chr(c).isalpha())}" for c in cps])

    # --- 10. durations ---------------------------------------------------------------------------------------------------------
    stub = _DurStub()
    vals = _duration_values(ctx)
    pairs = [(l, s) for l, *_ in UNITS for s, *_ in UNITS if l <= s]
    req, out = [], []
    for ms in vals:
        for style in (0, 1, 2):
            for (l, s) in pairs:
                o = _dur_render(stub, ms, style, l, s, False)
                req.append(f"dur fmt {ms} {style} {l} {s} 0")
                out.append(o)
                _dur_oracle(ctx, ms, style, l, s, False, o)
            l, s = rng.choice(pairs)
            o = _dur_render(stub, ms, style, l, s, True)
            req.append(f"dur fmt {ms} {style} {l} {s} 1")
            out.append(o)
            _dur_oracle(ctx, ms, style, l, s, True, o)
    ctx.correspond(f"durations: {len(vals)} values (unit boundaries +-1 ms up to 10 years, seeded) x 21 unit pairs x 3 styles + automatic",
                   req, out)

    # --- 10b. the functions py2lean translates, called directly ------------------------------------------------------------------
    translated_source_stream(ctx, vals)

    # --- 11. the reference workbooks of the suite (real files -> real model objects) ------------------------------------------
    _reference_workbooks(ctx)

    # --- 12. the format-selection glue: set_cell_formatting('datetime') / Formatting / formatted_value dispatch, date and duration
    #         cells of every fixture document ----------------------------------------------------------------------------------
    from checks import fmtglue
    fmtglue.run_c14(ctx)


def translated_source_stream(ctx: Ctx, dur_vals: list[int]):
    """_day_of_year / _week_of_month / _days_occurred_in_month / _decode_date_format / _unit_format / _auto_units called
    directly; the harness supplies the calendar parameters of the translated definitions (tm_yday, weekday of the 1st) from
    CPython.  Compared with the model driver where it has the op, and with the definitions translated from the source."""
    import types

    import common
    from numbers_parser import cell as cellmod
    from numbers_parser import constants as constmod
    rng = ctx.rng

    def call(f, *a):
        try:
            r = f(*a)
            if isinstance(r, tuple):
                return "ok " + " ".join(str(int(x)) for x in r)
            return "ok " + (enc_text(r) if isinstance(r, str) else str(int(r)))
        except Exception as e:  # noqa: BLE001
            return "err " + exc_name(e)

    # directive helpers on every day of a leap / non-leap / century year + seeded days of the whole range
    days = []
    for y in (2024, 2023, 1900, 2000, 1, 9999):
        d = date(y, 1, 1)
        while d.year == y:
            days.append(d)
            if d == date.max:
                break
            d += timedelta(days=1)
    days += [date.fromordinal(rng.randrange(1, date.max.toordinal() + 1)) for _ in range(2000 if ctx.quick else 100000)]
    req, out = [], []
    for d in days:
        v = datetime(d.year, d.month, d.day, rng.randrange(24), rng.randrange(60), rng.randrange(60), rng.randrange(1000000))
        first_wd = v.replace(day=1).weekday()
        if (v - v.replace(day=1)).days != v.day - 1:
            ctx.disagreements.append({"subspace": "assumption (value - value.replace(day=1)).days == value.day - 1",
                                      "request": v.isoformat(), "impl": str((v - v.replace(day=1)).days), "model": str(v.day - 1)})
        req += [f"datefmt doy {v.timetuple().tm_yday}", f"datefmt wom {v.day} {first_wd}", f"datefmt occ {v.day}"]
        o = [call(constmod._day_of_year, v), call(constmod._week_of_month, v), call(constmod._days_occurred_in_month, v)]
        out += o
        if o[1] != f"ok {(v.day - 1 + first_wd) // 7 + 1}":
            ctx.violation("directive-W", f"_week_of_month({v.isoformat()}) -> {o[1]}, documented week {(v.day - 1 + first_wd) // 7} + 1",
                          {"value": v.isoformat(), "format": "W"})
        if o[2] != "ok " + enc_text(str((v.day - 1) // 7 + 1)):
            ctx.violation("directive-F", f"_days_occurred_in_month({v.isoformat()}) -> {_dec(o[2])!r}, documented {(v.day - 1) // 7 + 1}",
                          {"value": v.isoformat(), "format": "F"})
        if o[0] != f"ok {(d - date(d.year, 1, 1)).days + 1}":
            ctx.violation("directive-D", f"_day_of_year({v.isoformat()}) -> {o[0]}", {"value": v.isoformat(), "format": "D"})
    # parameters outside what a calendar produces (the equivalence theorems hold for all naturals)
    for dd in range(0, 45):
        for wd in range(0, 9):
            req.append(f"datefmt wom {dd} {wd}")
            out.append(f"ok {-(-(dd + wd) // 7)}")      # int(ceil((dd + wd) / 7.0)) evaluated as written
        req.append(f"datefmt occ {dd}")
        out.append("ok " + enc_text(str(int((dd - 1) / 7) + 1)))
    # _decode_date_format called directly (no document): edge texts over the scanner alphabet
    import itertools
    texts = [""]
    for k in range(1, 5 if ctx.quick else 7):
        texts += ["".join(t) for t in itertools.product("'dM 1", repeat=k)]
    v = datetime(2024, 2, 29, 0, 7, 9, 123456)
    for t in texts:
        req.append(_req("fmt", v, t))
        out.append(call(cellmod._decode_date_format, t, v))
    # _unit_format
    for unit, ab in (("week", None), ("day", None), ("hour", None), ("minute", None), ("second", None), ("millisecond", "ms"),
                     ("", None), ("", "x"), ("é", None), ("日曜", "日")):
        for value in (0, 1, 2, 10, 11, 100):
            for style in (0, 1, 2, 3):
                req.append(f"dur unitfmt {enc_text(unit)} {value} {style} " + ("n" if ab is None else "s " + enc_text(ab)))
                out.append(call(cellmod._unit_format, unit, value, style, ab))
    name = "translated functions called directly (_day_of_year, _week_of_month, _days_occurred_in_month, _decode_date_format, _unit_format) vs the definitions translated from the source"
    sub = ctx.subspaces.setdefault(name, {"cases": 0, "exhaustive": False, "disagreements": 0})
    sub["cases"] += len(req)
    ctx.evaluations += len(req)
    if ctx.translated_available:
        tr = common.run_model(req, driver=common.TRDRIVER)
        sub["translated_source_cases"] = len(req)
        for r, a, b in zip(req, out, tr):
            if a != b:
                sub["disagreements"] += 1
                if len(ctx.disagreements) < 50:
                    ctx.disagreements.append({"subspace": name, "request": r, "impl": a, "model": b})
    else:
        sub["skipped_model"] = True

    # _auto_units: model driver (`dur units`) and translated definition
    req, out = [], []
    pairs = [(l, s) for l, *_ in UNITS for s, *_ in UNITS if l <= s]
    for ms in dur_vals:
        l, s = rng.choice(pairs)
        nf = types.SimpleNamespace(duration_unit_largest=l, duration_unit_smallest=s)
        o = call(cellmod._auto_units, float(timedelta(milliseconds=ms).total_seconds()), nf)
        req.append(f"dur units {ms} {l} {s}")
        out.append(o)
        if o.startswith("ok "):
            sm, lg = (int(x) for x in o[3:].split())
            ok = sm in UNIT_MS and lg in UNIT_MS and lg <= sm and ms % UNIT_MS[sm] == 0 and \
                (ms == 0 or (ms >= UNIT_MS[lg] and (lg == 1 or ms < UNIT_MS[lg // 2])))
            if not ok:
                ctx.violation("auto-units", f"_auto_units({ms} ms, largest {l}, smallest {s}) -> smallest {sm}, largest {lg}",
                              {"ms": ms, "style": 2, "largest": l, "smallest": s, "auto": True})
        else:
            ctx.violation("auto-units-raises", f"_auto_units({ms} ms) -> {o}", {"ms": ms, "style": 2, "largest": l, "smallest": s, "auto": True})
    ctx.correspond("_auto_units called directly on whole milliseconds (unit boundaries +-1 ms, seeded)", req, out, translated=True)
    common.python_operator_stream(ctx)


def _oracle_composition(ctx: Ctx, v: datetime, fmt: str, out: str, names):
    """For formats the documentation defines (fields separated by non-letters, balanced quotes without '' inside or
    right after a field / a quoted run): the display is the concatenation of the parts."""
    if out.startswith("err"):
        return   # rejected on write (validation) — nothing displayed
    toks = re.findall(r"'[^']+'(?!')|''|[A-Za-z]+|[^A-Za-z']+", fmt)
    if "".join(toks) != fmt or re.search(r"[^\x00-\x7f]", re.sub(r"'[^']*'", "", fmt)):
        return
    kinds = []
    for t in toks:
        if t == "''":
            kinds.append("a")
        elif t[0] == "'":
            kinds.append("q")
        elif t[0].isalpha():
            kinds.append("f")
        else:
            kinds.append("l")
    for a, b in zip(kinds, kinds[1:]):
        if (a == "f" and b in "fa") or (a == "q" and b in "qa"):
            return
    if any(k == "f" and t not in names for k, t in zip(kinds, toks)):
        return
    want = "".join(documented(t, v) if k == "f" else ("'" if k == "a" else (t[1:-1] if k == "q" else t))
                   for k, t in zip(kinds, toks))
    got = _dec(out)
    if got != want:
        ctx.violation("format-not-concatenation", f"{fmt!r} on {v.isoformat()} displays {got!r}, parts give {want!r}",
                      {"value": v.isoformat(), "format": fmt, "custom": True})


def _reference_workbooks(ctx: Ctx):
    from numbers_parser import Document
    from numbers_parser.cell import DateCell, DurationCell, EmptyCell
    from numbers_parser.numbers_uuid import NumbersUUID
    data = REPO / "tests" / "data"
    req, out = [], []
    f = data / "duration_112.numbers"
    if f.exists():
        doc = Document(str(f))
        for sheet in doc.sheets:
            for cells in sheet.tables[0].iter_rows(min_row=1):
                c = cells[6]
                if not isinstance(c, DurationCell) or c._duration_format_id is None:
                    continue
                a = c._model.table_format(c._table_id, c._duration_format_id)
                ms = round(c._double * 1000)
                if abs(c._double * 1000 - ms) > 1e-6 or ms < 0:
                    continue
                o = "ok " + enc_text(c.formatted_value)
                req.append(f"dur fmt {ms} {a.duration_style} {a.duration_unit_largest} {a.duration_unit_smallest} "
                           f"{int(a.use_automatic_duration_units)}")
                out.append(o)
                _dur_oracle(ctx, ms, a.duration_style, a.duration_unit_largest, a.duration_unit_smallest,
                            bool(a.use_automatic_duration_units), o)
                if not isinstance(cells[13], EmptyCell) and c.formatted_value != cells[13].formatted_value:
                    ctx.violation("duration-reference-workbook", f"{c.formatted_value!r} != Numbers' {cells[13].formatted_value!r}",
                                  {"ms": ms, "file": f.name})
    for name in ("date_formats.numbers", "test-custom-formats.numbers"):
        f = data / name
        if not f.exists():
            continue
        doc = Document(str(f))
        for sheet in doc.sheets:
            for table in sheet.tables:
                for cells in table.iter_rows():
                    for c in cells:
                        if not isinstance(c, DateCell) or c._date_format_id is None:
                            continue
                        a = c._model.table_format(c._table_id, c._date_format_id)
                        if a.HasField("custom_uid"):
                            fs = c._model.custom_format_map()[NumbersUUID(a.custom_uid).hex].default_format.custom_format_string
                        else:
                            fs = a.date_time_format
                        req.append(_req("fmt", c.value, fs))
                        out.append("ok " + enc_text(c.formatted_value))
    ctx.correspond("cells of the suite's reference workbooks (duration_112, date_formats, test-custom-formats) read from disk",
                   req, out, exhaustive=True, translated=True)


def reformat_sequences(ctx: Ctx, names):
    """a date cell whose format is changed again after its displayed text was read (same Cell object, no write in between)
    must display what a freshly written cell with that format displays: datetime formats set one after the other, custom
    date formats among them (all created before the first read: custom_format_map is memoised by design)."""
    from numbers_parser import Document
    rng = ctx.rng
    fresh = _Impl(ctx)
    n = 150 if ctx.quick else 3000
    for i in range(n):
        v = datetime(rng.choice((999, 1970, 2000, 2001, 2024, 2038)), rng.randrange(1, 13), rng.randrange(1, 29),
                     rng.randrange(24), rng.randrange(60), rng.randrange(60), rng.choice((0, rng.randrange(1_000_000))))
        fmts = [(_random_format(rng, names, custom=False) if rng.random() < 0.7 else rng.choice(names), rng.random() < 0.3)
                for _ in range(rng.randrange(2, 6))]
        doc = Document(num_header_rows=0, num_header_cols=0, num_rows=2, num_cols=2)
        table = doc.sheets[0].tables[0]
        cfs = {}
        for f, custom in fmts:
            if custom and f not in cfs:
                try:
                    cfs[f] = doc.add_custom_format(type="datetime", format=f)
                except Exception:  # noqa: BLE001
                    cfs[f] = None
        table.write(0, 0, v)
        seq = []
        for f, custom in fmts:
            custom = custom and cfs.get(f) is not None
            try:
                if custom:
                    table.set_cell_formatting(0, 0, "custom", format=cfs[f])
                else:
                    table.set_cell_formatting(0, 0, "datetime", date_time_format=f)
                got = "ok " + enc_text(table.cell(0, 0).formatted_value)
            except Exception as e:  # noqa: BLE001
                got = "err " + exc_name(e)
            want = fresh.render_custom([(v, f)])[0] if custom else fresh.render(v, f)
            seq.append([f, "custom" if custom else "datetime"])
            ctx.count("date format changed again on a cell whose displayed text was already read: text vs a freshly written cell", 1)
            if got.startswith("err") and want.startswith("err"):
                continue   # a refused format leaves the previous one in place on both sides
            if got != want:
                ctx.violation("display-depends-on-format-history",
                              f"{v.isoformat()}: formats applied in turn to one cell {seq}; after the last one the cell displays "
                              f"{_dec(got) if got.startswith('ok') else got!r}, a freshly written cell with that format "
                              f"{_dec(want) if want.startswith('ok') else want!r}",
                              {"value": v.isoformat(), "format_sequence": seq})
                break
        ctx.mark(("reformat", i))


def replay(data):
    warnings.simplefilter("ignore")
    i = data.get("input", {})
    if i.get("glue"):
        from checks import fmtglue
        return fmtglue.replay(i)
    res = {}
    if "format_sequence" in i:
        from numbers_parser import Document
        v = datetime.fromisoformat(i["value"])
        doc = Document(num_header_rows=0, num_header_cols=0, num_rows=2, num_cols=2)
        table = doc.sheets[0].tables[0]
        cfs = {f: doc.add_custom_format(type="datetime", format=f) for f, k in i["format_sequence"] if k == "custom"}
        table.write(0, 0, v)
        steps = []
        for f, k in i["format_sequence"]:
            if k == "custom":
                table.set_cell_formatting(0, 0, "custom", format=cfs[f])
            else:
                table.set_cell_formatting(0, 0, "datetime", date_time_format=f)
            steps.append([f, k, table.cell(0, 0).formatted_value])
        res["per step [format, route, the same cell displays]"] = steps
    elif "ms" in i and "style" in i:
        res["formatted_value"] = _dec(_dur_render(_DurStub(), i["ms"], i["style"], i["largest"], i["smallest"], i["auto"]))
    elif "format" in i:
        v = datetime.fromisoformat(i["value"])
        impl = _Impl(None)
        if i.get("custom"):
            res["formatted_value(custom format)"] = _dec(impl.render_custom([(v, i["format"])])[0])
        else:
            o = impl.render(v, i["format"])
            res["formatted_value"] = _dec(o) if o.startswith("ok") else o
            impl.workaround = True
            o = impl.render(v, i["format"])
            res["formatted_value(with cell._seconds set)"] = _dec(o) if o.startswith("ok") else o
        try:
            res["documented"] = " ".join(documented(n, v) for n in i["format"].split(" "))
        except KeyError:
            pass
    elif "text" in i:
        from numbers_parser.cell import _expand_quotes
        res["_expand_quotes"] = _expand_quotes(i["text"])
    return res
