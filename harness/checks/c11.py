"""C11 — A1 and row/column addressing reach the same cell in every call; bounds hold."""
from __future__ import annotations

import itertools

import common
from common import Ctx, enc_text, exc_name

PID = "C11"
PROPS_MODULE = "NumbersModel.Props.C11"
THEOREMS = [f"NumbersModel.Props.C11.{t}" for t in (
    "a1_rc_resolve", "a1_rc_agree_read", "a1_rc_agree_write", "read_bounds", "write_bounds", "write_limits_gen",
    "iter_rows_exact", "iter_cols_exact", "iter_defaults", "range_is_interval")] + [
    # the iterator clauses over the bounds prefixes py2lean regenerates from Table.iter_rows / iter_cols on every run
    "NumbersModel.Props.C11.Src.src_iter_rows_exact", "NumbersModel.Props.C11.Src.src_iter_cols_exact",
    "NumbersModel.Props.C11.Src.src_iter_defaults", "NumbersModel.Translated.iter_rows_eq_model",
    "NumbersModel.Translated.iter_cols_eq_model"]
TRANSLATED_GROUPS = ("Addr", "A1")
PARTIAL = {}
RULE = ("positions: rows {-3..3} u {n-2..n+2} u {999998..1000001}, cols {-3..3} u {m-2..m+2} u {998..1001}, in row/column "
        "form and every A1 spelling ('' '$' marks, plus 'A0', lower case, malformed) x methods {cell, write, set_cell_style, "
        "set_cell_formatting, set_cell_border} x table sizes {1x1, 3x2, 12x8, 300x5(read/write only)}, each on a fresh table; "
        "iter_rows/iter_cols: all (min,max) from {None,-1,0,1,last,last+1} on both axes. Growth to row 999999 is thorough-only. "
        "Non-trivial = every distinct (size, method, position) request")
ASSUMPTIONS = ["which stored cell an access reached is observed through sentinel values/styles/formats/borders on a fresh table",
               "growth itself (add_row/add_column) is property C03; here only the resulting dimensions are compared"]
MANIFEST = {
    "text": "Full: a1_rc_agree_* (every A1 spelling of (r,c) resolves to (r,c) in every position-taking method, via C10's "
            "round-trip theorem), read_bounds (IndexError exactly outside the table), write_bounds/write_limits_gen (IndexError "
            "for any negative or beyond-limit position; otherwise growth to exactly max(rows,r+1) x max(cols,c+1)), "
            "iter_rows_exact/iter_cols_exact (exactly the addressed rectangle in order; bounds raise before anything is yielded) "
            "are Lean theorems for all integers and all table sizes. The model of cell/_validate_cell_coords/iter_* is tied to "
            "the code by a correspondence that enumerates the quantifier's position grid for all five methods. The defaulting "
            "and bounds-checking prefixes of iter_rows / iter_cols are additionally TRANSLATED from document.py on every run "
            "(harness/py2lean.py -> Gen/TrAddr.lean), proved equal to the model (Lemmas/TrAddr.lean) and the iterator clauses "
            "restated over them (Props.C11.Src.src_iter_*); the translated prefixes are run against the real generators on the "
            "whole iterator grid.",
    "note": "the table is modelled by its dimensions and the index pair addressed; cell contents and growth are C03.",
    "technique": "Lean 4 proof (case analysis, omega; reuse of C10 theorems; iterator bounds proved equal to their translation from the Python source) + enumerated differential correspondence",
}

SIZES_ALL = [(1, 1), (3, 2), (12, 8)]


def a1_spellings(r, c):
    from numbers_parser.xrefs import xl_rowcol_to_cell
    return [xl_rowcol_to_cell(r, c, ra, ca) for ra in (False, True) for ca in (False, True)]


_CACHE: dict = {}
_STYLE_N = 0


def fresh(n, m, numeric=True):
    """A table whose cell (r, c) holds r*1000+c (float when `numeric`, else the text 'r,c' form as int-coded string).
    Tables that were not changed by the previous case are reused (per process)."""
    key = (n, m, numeric)
    if key in _CACHE:
        return _CACHE.pop(key)
    from numbers_parser import Document
    doc = Document(num_rows=n, num_cols=m, num_header_rows=0, num_header_cols=0)
    tb = doc.sheets[0].tables[0]
    for r in range(n):
        for c in range(m):
            tb.write(r, c, float(r * 1000 + c) if numeric else str(r * 1000 + c))
    return doc, tb


def keep(n, m, numeric, doc, tb):
    _CACHE[(n, m, numeric)] = (doc, tb)


def snapshot(tb):
    return (tb.num_rows, tb.num_cols, tb.rows(values_only=True))


def apply_method(doc, tb, method, posargs):
    """Call the real method; return the (row, col) of the one cell it affected, found by scanning."""
    from numbers_parser import RGB, Border
    if method == "write":
        tb.write(*posargs, "SENTINEL")
        hits = [(r, c) for r, row in enumerate(tb.rows(values_only=True)) for c, v in enumerate(row) if v == "SENTINEL"]
    elif method == "style":
        global _STYLE_N
        _STYLE_N += 1
        st = doc.add_style(name=f"VerifSentinel{_STYLE_N}")
        tb.set_cell_style(*posargs, st)
        hits = [(r, c) for r, row in enumerate(tb.rows()) for c, cell in enumerate(row) if cell._style is st]
    elif method == "format":
        tb.set_cell_formatting(*posargs, "number", decimal_places=5)
        hits = [(r, c) for r, row in enumerate(tb.rows()) for c, cell in enumerate(row)
                if cell.value is not None and str(cell.formatted_value).endswith(".00000")]
    elif method == "border":
        tb.set_cell_border(*posargs, "top", Border(7.0, RGB(1, 2, 3), "solid"))
        hits = [(r, c) for r, row in enumerate(tb.rows()) for c, cell in enumerate(row)
                if cell.border is not None and cell.border.top is not None and cell.border.top.width == 7.0]
    else:
        raise ValueError(method)
    return hits


def one_case(task):
    """(n, m, method, kind, payload) -> (request line, impl outcome, violations)"""
    import warnings
    warnings.simplefilter("ignore")
    n, m, method, pos = task
    viol = []
    posargs = (pos[1],) if pos[0] == "a" else (pos[1], pos[2])
    preq = f"a {enc_text(pos[1])}" if pos[0] == "a" else f"r {pos[1]} {pos[2]}"
    inp = {"rows": n, "cols": m, "method": method, "pos": list(pos)}
    numeric = method == "format"
    doc, tb = fresh(n, m, numeric)
    before = snapshot(tb)
    if method == "cell":
        req = f"addr read {n} {m} {preq}"
        try:
            v = tb.cell(*posargs).value
            out = f"ok {int(v) // 1000} {int(v) % 1000}"
        except Exception as e:  # noqa: BLE001
            out = "err " + exc_name(e)
        if snapshot(tb) != before:
            viol.append(("read-changes-table", f"cell{posargs} on {n}x{m} changed the table", inp))
        else:
            keep(n, m, numeric, doc, tb)
        if pos[0] == "r":
            r, c = pos[1], pos[2]
            exp = f"ok {r} {c}" if 0 <= r < n and 0 <= c < m else "err IndexError"
            if out != exp:
                viol.append(("read-bounds", f"cell({r},{c}) on {n}x{m}: {out}, expected {exp}", inp))
        return req, out, viol
    req = f"addr write {n} {m} {preq}"
    try:
        hits = apply_method(doc, tb, method, posargs)
        out = f"ok {tb.num_rows} {tb.num_cols} " + (f"{hits[0][0]} {hits[0][1]}" if len(hits) == 1 else f"hits={hits[:4]}")
    except Exception as e:  # noqa: BLE001
        out = "err " + exc_name(e)
        if snapshot(tb) != before:
            viol.append(("failed-setter-changes-table", f"{method}{posargs} on {n}x{m} raised {exc_name(e)} but changed the table "
                         f"({before[0]}x{before[1]} -> {tb.num_rows}x{tb.num_cols})", inp))
        else:
            keep(n, m, numeric, doc, tb)
    if pos[0] == "r":
        r, c = pos[1], pos[2]
        if 0 <= r < 1_000_000 and 0 <= c < 1000:
            exp = f"ok {max(n, r + 1)} {max(m, c + 1)} {r} {c}"
        else:
            exp = "err IndexError"
        if out != exp:
            viol.append((f"setter-bounds-{method}", f"{method}({r},{c}) on {n}x{m}: {out}, expected {exp}", inp))
        elif out.startswith("ok") and method == "write":
            after = tb.rows(values_only=True)
            for rr in range(n):
                for cc in range(m):
                    if (rr, cc) != (r, c) and after[rr][cc] != before[2][rr][cc]:
                        viol.append(("write-disturbs-other-cell", f"write({r},{c}) changed cell ({rr},{cc})", inp))
    return req, out, viol


def positions(n, m, quick):
    rows = sorted(set(range(-3, 4)) | set(range(n - 2, n + 3)))
    cols = sorted(set(range(-3, 4)) | set(range(m - 2, m + 3)))
    far_rows = [1_000_000, 1_000_001]  # growth to row 999999 itself is one dedicated thorough case (1M rows x 1 column)
    far_cols = [998, 999, 1000, 1001]
    pos = [("r", r, c) for r in rows for c in cols]
    pos += [("r", r, c) for r in far_rows for c in (0, m - 1, -1)]
    pos += [("r", r, c) for r in (0, n - 1, -1) for c in far_cols]
    a1 = []
    for (_, r, c) in pos:
        if r >= 0 and c >= 0:
            a1 += [("a", s) for s in (a1_spellings(r, c) if (r < 6 and c < 6) else a1_spellings(r, c)[:1])]
    extra = ["A0", "$A$0", "a1", "b2", "$b$2", "aA1", "Ab2", "A", "1", "", "AAAA1", "A1:B2", "A-1", "B1x", "ZZZ1", "ALL1", "ALM1"]
    return pos + a1 + [("a", s) for s in extra]


def run(ctx: Ctx):
    tasks = []
    for (n, m) in SIZES_ALL:
        for method in ("cell", "write", "style", "format", "border"):
            for pos in positions(n, m, ctx.quick):
                if method == "format":
                    # formatting an (empty) cell created by growth is a TypeError about the cell type, not about
                    # the position: only positions inside the table or invalid ones are in this method's domain
                    if pos[0] == "r" and not ((0 <= pos[1] < n and 0 <= pos[2] < m) or pos[1] < 0 or pos[2] < 0
                                              or pos[1] >= 1_000_000 or pos[2] >= 1000):
                        continue
                    if pos[0] == "a":
                        from numbers_parser.xrefs import xl_cell_to_rowcol
                        try:
                            r, c = xl_cell_to_rowcol(pos[1])
                            if not ((0 <= r < n and 0 <= c < m) or r < 0 or c < 0 or r >= 1_000_000 or c >= 1000):
                                continue
                        except IndexError:
                            pass
                if method in ("style", "border") and pos[0] == "r" and pos[1] in (999_998, 999_999):
                    continue
                tasks.append((n, m, method, pos))
    big = positions(300, 5, ctx.quick)
    if ctx.quick:
        # growing 300 rows to ~1000 columns costs seconds per case: thorough only
        big = [p for i, p in enumerate(big) if (p[0] == "r" and p[2] not in (998, 999)) or (p[0] == "a" and i % 5 == 0 and len(p[1]) < 5)]
    for pos in big:
        for method in ("cell", "write"):
            tasks.append((300, 5, method, pos))
    # error cases first within each size so that unchanged tables are reused
    tasks.sort(key=lambda t: (-t[0] * t[1], t[2] == "format"))  # heavy tables first, same-size cases adjacent
    req, out = [], []
    for r, o, viol in _pmap(one_case, tasks):
        req.append(r)
        out.append(o)
        for sig, what, inp in viol:
            ctx.violation(sig, what, inp)
    ctx.correspond("position grid x 5 methods x table sizes (fresh table per case)", req, out, exhaustive=True)

    # A1 vs row/column form must give the same outcome (oracle, independent of the model)
    by_key = {}
    for t, o in zip(tasks, out):
        n, m, method, pos = t
        if pos[0] == "r":
            by_key[(n, m, method, pos[1], pos[2])] = o
    from numbers_parser.xrefs import xl_cell_to_rowcol
    for t, o in zip(tasks, out):
        n, m, method, pos = t
        if pos[0] == "a":
            try:
                r, c = xl_cell_to_rowcol(pos[1])
            except IndexError:
                continue
            o2 = by_key.get((n, m, method, r, c))
            if o2 is not None and o2 != o and pos[1] not in ("", "A1:B2", "B1x"):
                ctx.violation("a1-rc-disagree", f"{method}({pos[1]!r}) -> {o} but {method}({r},{c}) -> {o2} on {n}x{m}",
                              {"rows": n, "cols": m, "method": method, "pos": list(pos)})

    # the meaning of an A1 text decided independently of the library's own decoder: a strict upper-case A1 text denotes
    # its (row, column); a text that differs from a valid one only in letter case may be refused (IndexError, nothing
    # changed) or read as that position - it must never reach another cell
    import re as _re

    def own_a1(sx):
        mm = _re.fullmatch(r"\$?([A-Z]{1,3})\$?([0-9]+)", sx)
        if not mm:
            return None
        col = 0
        for ch in mm.group(1):
            col = col * 26 + (ord(ch) - 64)
        return int(mm.group(2)) - 1, col - 1
    for t, o in zip(tasks, out):
        n, m, method, pos = t
        if pos[0] != "a":
            continue
        strict = own_a1(pos[1])
        folded = own_a1(pos[1].upper()) if strict is None and pos[1].isascii() else None
        target = strict or folded
        if target is None or target[0] < 0:
            continue
        o2 = by_key.get((n, m, method, target[0], target[1]))
        if o2 is None:
            continue
        allowed = {o2} if strict else {o2, "err IndexError"}
        if o not in allowed:
            ctx.violation("a1-reaches-other-cell", f"{method}({pos[1]!r}) -> {o}; the row/column form {method}{target} -> {o2} on {n}x{m}",
                          {"rows": n, "cols": m, "method": method, "pos": list(pos)})

    # iterators
    req, out = [], []
    for (n, m) in [(1, 1), (3, 2), (4, 3)]:
        doc, tb = fresh(n, m)
        rb = [None, -1, 0, 1, n - 1, n]
        cb = [None, -1, 0, 1, m - 1, m]
        for a, b, c, d in itertools.product(rb, rb, cb, cb):
            for name, fn in (("iterrows", lambda a, b, c, d, values_only: tb.iter_rows(min_row=a, max_row=b, min_col=c, max_col=d, values_only=values_only)),
                             ("itercols", lambda a, b, c, d, values_only: tb.iter_cols(min_row=a, max_row=b, min_col=c, max_col=d, values_only=values_only))):
                enc = " ".join("n" if x is None else str(x) for x in (a, b, c, d))
                req.append(f"addr {name} {n} {m} {enc}")
                try:
                    got = [[(int(v) // 1000, int(v) % 1000) for v in tup] for tup in fn(a, b, c, d, values_only=True)]
                    o = "ok " + "|".join(" ".join(f"{r},{cc}" for r, cc in tup) for tup in got)
                except Exception as e:  # noqa: BLE001
                    got = None
                    o = "err " + exc_name(e)
                out.append(o.rstrip() if o != "ok " else "ok ")
                lo_r, hi_r = (0 if a is None else a), (n - 1 if b is None else b)
                lo_c, hi_c = (0 if c is None else c), (m - 1 if d is None else d)
                valid = lo_r >= 0 and hi_r < n and lo_c >= 0 and hi_c < m
                if name == "iterrows":
                    exp = [[(r, cc) for cc in range(lo_c, hi_c + 1)] for r in range(lo_r, hi_r + 1)]
                else:
                    exp = [[(r, cc) for r in range(lo_r, hi_r + 1)] for cc in range(lo_c, hi_c + 1)]
                inp = {"rows": n, "cols": m, "iter": name, "bounds": [a, b, c, d]}
                if valid and got != exp:
                    ctx.violation(f"{name}-wrong-rectangle", f"{name}{(a, b, c, d)} on {n}x{m} yielded {got}, expected {exp}", inp)
                if not valid and o != "err IndexError":
                    ctx.violation(f"{name}-bounds-not-rejected", f"{name}{(a, b, c, d)} on {n}x{m}: {o[:60]}, expected IndexError", inp)
    ctx.correspond("iter_rows/iter_cols: all (min,max) from {None,-1,0,1,last,last+1} on both axes, 3 table sizes", req, out, exhaustive=True, translated=True)

    iter_after_edits(ctx)

    if not ctx.quick:
        # growth to the documented row limit (one single-column table)
        from numbers_parser import Document
        doc = Document(num_rows=1, num_cols=1, num_header_rows=0, num_header_cols=0)
        tb = doc.sheets[0].tables[0]
        tb.write(999_999, 0, "last")
        o = f"ok {tb.num_rows} {tb.num_cols} 999999 0" if tb.cell(999_999, 0).value == "last" else "ok wrong-cell"
        ctx.correspond("growth to the row limit", ["addr write 1 1 r 999999 0"], [o], exhaustive=True)
        if o != "ok 1000000 1 999999 0":
            ctx.violation("growth-to-limit", f"write(999999,0) on 1x1: {o}", {"rows": 1, "cols": 1, "method": "write", "pos": ["r", 999999, 0]})


def iter_after_edits(ctx: Ctx):
    """row and column iteration interleaved with edits of the same table (writes in both notations inside the table and
    beyond its edge, merges, structural edits): after every step both iterators must visit exactly the cells `cell(r, c)`
    returns for the addressed rectangle - the same objects, in order - and the same values with values_only."""
    from numbers_parser import Document
    rng = ctx.rng
    n_scripts = 40 if ctx.quick else 600
    for k in range(n_scripts):
        n, m = rng.randrange(2, 7), rng.randrange(2, 6)
        doc = Document(num_rows=n, num_cols=m, num_header_rows=0, num_header_cols=0)
        tb = doc.sheets[0].tables[0]
        for r in range(n):
            for c in range(m):
                tb.write(r, c, f"r{r}c{c}")
        script = []

        def check(step):
            nr, nc = tb.num_rows, tb.num_cols
            lo_r, hi_r = sorted((rng.randrange(nr), rng.randrange(nr)))
            lo_c, hi_c = sorted((rng.randrange(nc), rng.randrange(nc)))
            for full in (True, False):
                kw = {} if full else {"min_row": lo_r, "max_row": hi_r, "min_col": lo_c, "max_col": hi_c}
                a, b, c, d = (0, nr - 1, 0, nc - 1) if full else (lo_r, hi_r, lo_c, hi_c)
                for name in ("iter_rows", "iter_cols"):
                    try:
                        got = [list(t) for t in getattr(tb, name)(**kw)]
                        vals = [list(t) for t in getattr(tb, name)(values_only=True, **kw)]
                    except Exception as e:  # noqa: BLE001
                        ctx.violation(f"{name.replace('_', '')}-raises-after-edit", f"{name}({kw}) after {script}: {exc_name(e)}: {e}",
                                      {"rows": n, "cols": m, "script": script, "iter": name})
                        return False
                    if name == "iter_rows":
                        want = [[tb.cell(r, cc) for cc in range(c, d + 1)] for r in range(a, b + 1)]
                    else:
                        want = [[tb.cell(r, cc) for r in range(a, b + 1)] for cc in range(c, d + 1)]
                    same = len(got) == len(want) and all(len(g) == len(w) and all(x is y for x, y in zip(g, w)) for g, w in zip(got, want))
                    same_v = vals == [[x.value for x in w] for w in want]
                    ctx.count("iteration interleaved with edits: cells visited vs cell(r, c) of the addressed rectangle", 1)
                    if not (same and same_v):
                        bad = [(x.row, x.col, x.value, y.value) for g, w in zip(got, want) for x, y in zip(g, w) if x is not y][:3]
                        ctx.violation(f"{name.replace('_', '')}-visits-other-cells",
                                      f"{name}({kw}) after {script[-3:]} on {nr}x{nc}: visited cells are not the cells of the "
                                      f"rectangle (row, col, visited value, cell(r,c).value) {bad}"
                                      + ("" if same_v else "; values_only differs too"),
                                      {"rows": n, "cols": m, "script": script, "iter": name})
                        return False
            return True
        if not check(0):
            continue
        for step in range(rng.randrange(2, 7)):
            x = rng.random()
            nr, nc = tb.num_rows, tb.num_cols
            r, c = rng.randrange(nr), rng.randrange(nc)
            if x < 0.45:
                v = rng.choice([f"new{step}", step + 0.5, True])
                if rng.random() < 0.5:
                    tb.write(r, c, v)
                    script.append(["write", r, c, str(v)])
                else:
                    ref = a1_spellings(r, c)[0]
                    tb.write(ref, v)
                    script.append(["write", ref, str(v)])
            elif x < 0.55:
                tb.write(nr + rng.randrange(0, 2), c, "grow")
                script.append(["write-beyond", nr, c])
            elif x < 0.7 and r + 1 < nr and not any(cell.is_merged or type(cell).__name__ == "MergedCell" for row in tb.rows() for cell in row):
                tb.merge_cells(f"{a1_spellings(r, c)[0]}:{a1_spellings(r + 1, c)[0]}")
                script.append(["merge", r, c, r + 1, c])
            elif x < 0.8:
                tb.add_row(1, start_row=r)
                script.append(["add_row", r])
            elif x < 0.9:
                tb.add_column(1, start_col=c)
                script.append(["add_column", c])
            elif nr > 2:
                tb.delete_row(1, start_row=r)
                script.append(["delete_row", r])
            if not check(step + 1):
                break
            ctx.mark(("iter-after-edits", k, step))


def _pmap(fn, tasks):
    import multiprocessing as mp
    import os
    procs = min(int(os.environ.get("VERIF_PROCS", "14")), max(1, len(tasks)))
    with mp.get_context("fork").Pool(procs) as pool:
        return pool.map(fn, tasks, chunksize=1)


def replay(data):
    i = data["input"]
    if "iter" in i:
        doc, tb = fresh(i["rows"], i["cols"])
        fn = tb.iter_rows if i["iter"] == "iterrows" else tb.iter_cols
        a, b, c, d = i["bounds"]
        try:
            return {"yielded": [list(t) for t in fn(min_row=a, max_row=b, min_col=c, max_col=d, values_only=True)]}
        except Exception as e:  # noqa: BLE001
            return {"raised": exc_name(e)}
    req, out, viol = one_case((i["rows"], i["cols"], i["method"], tuple(i["pos"])))
    return {"request": req, "implementation": out, "violations": [v[:2] for v in viol]}
