"""C05 — IWA archive decoding and encoding are mutually inverse and chunking-independent."""
from __future__ import annotations

import contextlib
import itertools
import os
import struct
import tempfile
import zipfile
from pathlib import Path

import common
from common import REPO, Ctx, enc_bytes, exc_name

PID = "C05"
PROPS_MODULE = "NumbersModel.Props.C05"
THEOREMS = [f"NumbersModel.Props.C05.{t}" for t in (
    "varint_roundtrip", "varint_roundtrip_wide", "varint_length", "unframe_frame", "unframe_pieces",
    "chunking_independent", "chunking_independent_stored", "container_rules", "header_lengths_match",
    "is_iwa_file_of_encoded", "seg_decode_encode", "decode_encode", "encode_decode_stream",
    "length_field_truncates",
    # the chunk framing as py2lean regenerates it from iwafile.py on every run, proved equal to the model for all byte
    # strings, and the clauses restated over the translation
    "Src.src_framing_eq_model", "Src.src_archive_info_eq_model", "Src.src_unframe_frame", "Src.src_chunking_independent",
    "Src.src_chunking_independent_stored", "Src.src_container_rules", "Src.src_is_iwa_file_of_encoded")]
TRANSLATED_GROUPS = ("Iwa",)
PARTIAL: dict[str, str] = {}
RULE = ("a case is one protocol request (one byte string / one archive member / one synthetic archive / one re-chunking) "
        "run through the real codec and the model with the third-party answers recorded from that very call; it is "
        "non-trivial if its (operation, outcome class, size class) triple or its content is new; fixture members are "
        "counted once per distinct content")
MANIFEST = {
    "text": "Core proved, glue assumed: Lean theorems over a model of iwafile.py (chunk framing with the 0x00 marker and "
            "3-byte length, 65536-byte slicing, _decompress_all incl. the raw-chunk fallback, is_iwa_file, the protobuf "
            "varint codec, IWAArchiveSegment.from_buffer/to_buffer with per-message slicing, the should_merge/patch class "
            "choice and the length fix-up, IWAFile.from_buffer/to_buffer) for ALL byte strings and archives of any size: "
            "varint_roundtrip, unframe_frame, chunking_independent (compressed and stored chunks, arbitrary cut points), "
            "container_rules, header_lengths_match, is_iwa_file_of_encoded, decode_encode, encode_decode_stream. "
            "snappy and protobuf are parameters; the laws used (uncompress∘compress = id, compressed size < 2^24 for a "
            "64 KiB slice, parse∘serialise = id and serialise∘parse = id on well-formed input) are explicit hypotheses, "
            "exercised (not proved) on every fixture member. The model is tied to the code by differential runs on every "
            ".iwa member of every fixture (thorough; ~600 sampled in quick), synthetic archives around the 64 KiB "
            "boundaries, exhaustive small byte strings, and re-chunkings at random cut sets. Second tie: the chunk framing is "
            "additionally TRANSLATED from iwafile.py on every run (harness/py2lean.py group Iwa -> Gen/TrIwa.lean: is_iwa_file, "
            "the generator IWACompressedChunk._decompress_all incl. its try/except fallback, IWACompressedChunk.to_buffer from the "
            "joined archive bytes on, get_archive_info_and_remainder) and proved equal to the model for ALL byte strings and every "
            "behaviour of snappy / protobuf (Src.src_framing_eq_model, src_archive_info_eq_model: loops one iteration at a time, "
            "fuel len + 1 suffices); unframe_frame / chunking_independent(_stored) / container_rules / is_iwa_file_of_encoded are "
            "restated over the translation (Src.src_*); the un-framing, sniffing and framing streams also go through the "
            "translated definitions (trdriver).",
    "note": "the laws of snappy/protobuf (incl. retention of unknown fields) are assumptions; ByteSize() == "
            "len(SerializeToString()) is assumed and exercised",
    "technique": "Lean 4 proof (induction over fuel/lists, omega) + differential correspondence with recorded oracle tables",
}
ASSUMPTIONS = [
    "snappy: uncompress(compress(x)) == x; len(compress(x)) < 2^24 for len(x) <= 65536 (exercised on every slice seen)",
    "protobuf: FromString(SerializeToString(m)) == m and SerializeToString(FromString(b)) == b on the well-formed "
    "messages of the fixtures (exercised on every header/message seen; unknown fields retained)",
    "header.ByteSize() == len(header.SerializeToString()) (exercised on every header seen)",
    "`result |= (b & 0x7f) << shift` is modelled with + and * (bits are disjoint); exercised exhaustively on short inputs",
    "translated definitions: the semantics py2lean / Py/Trans.lean give to the Python subset (bytes slicing, unpack('<I') / "
    "struct.pack('<I') as PyT.unpackU32LE / packU32LE, a generator consumed as a whole as the list of what it yields, "
    "try/except as a match on the outcome); _DecodeVarint32 (protobuf's) is the hand model varintDec32, compared on every run",
]


# ---------------------------------------------------------------------------------------------------
# recording the third-party answers during a call of the real code
# ---------------------------------------------------------------------------------------------------

class Recorder:
    """Patches `numbers_parser.iwafile` so that every snappy / protobuf call made by the real codec is
    recorded as (argument -> result).  The recorded graph is sent to the model as its oracle tables."""

    def __init__(self):
        from numbers_parser import iwafile
        self.iwafile = iwafile
        self.unc: dict[bytes, object] = {}
        self.cmp: dict[bytes, bytes] = {}
        self.pinfo: dict[bytes, object] = {}
        self.headers: list = []          # hid -> (real header, description at parse time)
        self.hid_of: dict[int, int] = {}
        self.known: set[int] = set()
        self.pmsg: dict[tuple, object] = {}
        self.msgs: list = []             # mid -> (object, is_patch)
        self.mid_of: dict[int, int] = {}
        self.in_patch = False
        self.extra_si: dict[tuple, object] = {}
        self.keep: list = []
        self.real_patch = iwafile.ProtobufPatch

    # -- registration --------------------------------------------------------------
    def add_header(self, h) -> int:
        hid = len(self.headers)
        desc = (not repr(h), bool(h.should_merge),
                [(mi.type, mi.length, mi.base_message_index) for mi in h.message_infos])
        self.headers.append((h, desc))
        self.hid_of[id(h)] = hid
        self.snapshot_si(hid)
        return hid

    def snapshot_si(self, hid):
        h = self.headers[hid][0]
        lens = tuple(mi.length for mi in h.message_infos)
        try:
            b = h.SerializeToString()
            if h.ByteSize() != len(b):
                b = "!ByteSizeMismatch"
        except Exception as e:  # noqa: BLE001
            b = "!" + exc_name(e)
        self.extra_si[(hid, lens)] = b

    def add_msg(self, m, is_patch) -> int:
        mid = len(self.msgs)
        self.msgs.append((m, is_patch))
        self.mid_of[id(m)] = mid
        return mid

    def alias_header(self, h, hid):
        self.hid_of[id(h)] = hid
        self.keep.append(h)

    def mid(self, obj) -> int:
        inner = obj.data if isinstance(obj, self.real_patch) else obj
        if id(inner) not in self.mid_of:
            return self.add_msg(inner, isinstance(obj, self.real_patch))
        return self.mid_of[id(inner)]

    def hid(self, h) -> int:
        if id(h) not in self.hid_of:
            return self.add_header(h)
        return self.hid_of[id(h)]

    # -- patching ------------------------------------------------------------------
    @contextlib.contextmanager
    def active(self, compress=None):
        iw = self.iwafile
        rec = self
        real_snappy, real_info, real_map, real_patch = iw.snappy, iw.ArchiveInfo, iw.ID_NAME_MAP, iw.ProtobufPatch

        class Snappy:
            @staticmethod
            def compress(b):
                b = bytes(b)
                r = (compress or real_snappy.compress)(b)
                rec.cmp[b] = r
                return r

            @staticmethod
            def uncompress(b):
                b = bytes(b)
                try:
                    r = real_snappy.uncompress(b)
                except Exception as e:  # noqa: BLE001
                    rec.unc[b] = "!" + exc_name(e)
                    raise
                rec.unc[b] = r
                return r

        class Info:
            @staticmethod
            def FromString(b):  # noqa: N802
                b = bytes(b)
                try:
                    h = real_info.FromString(b)
                except Exception as e:  # noqa: BLE001
                    rec.pinfo[b] = "!" + exc_name(e)
                    raise
                if b in rec.pinfo and not isinstance(rec.pinfo[b], str):
                    rec.alias_header(h, rec.pinfo[b])   # same bytes parsed again: same table row
                else:
                    rec.pinfo[b] = rec.add_header(h)
                return h

        class Klass:
            def __init__(self, ty, real):
                self.ty, self.real = ty, real

            def FromString(self, b):  # noqa: N802
                b = bytes(b)
                key = (self.ty, rec.in_patch, b)
                try:
                    m = self.real.FromString(b)
                except Exception as e:  # noqa: BLE001
                    rec.pmsg[key] = "!" + exc_name(e)
                    raise
                if key in rec.pmsg and not isinstance(rec.pmsg[key], str):
                    rec.mid_of[id(m)] = rec.pmsg[key]
                    rec.keep.append(m)
                else:
                    rec.pmsg[key] = rec.add_msg(m, rec.in_patch)
                return m

            def __repr__(self):
                return repr(self.real)

        class Map(dict):
            def __getitem__(self, ty):
                real = real_map[ty]
                rec.known.add(ty)
                return Klass(ty, real)

        class Patch(real_patch):
            @classmethod
            def FromString(cls, message_info, proto_klass, data):  # noqa: N802
                rec.in_patch = True
                try:
                    return real_patch(proto_klass.FromString(data))
                finally:
                    rec.in_patch = False

        iw.snappy, iw.ArchiveInfo, iw.ID_NAME_MAP, iw.ProtobufPatch = Snappy, Info, Map(), Patch
        try:
            yield self
        finally:
            iw.snappy, iw.ArchiveInfo, iw.ID_NAME_MAP, iw.ProtobufPatch = real_snappy, real_info, real_map, real_patch

    # -- serialisation of the tables ---------------------------------------------------
    def tables(self) -> str:
        w = ["T"]
        for b, r in self.unc.items():
            w += ["u", enc_bytes(b), r if isinstance(r, str) else enc_bytes(r)]
        for b, r in self.cmp.items():
            w += ["c", enc_bytes(b), enc_bytes(r)]
        for b, r in self.pinfo.items():
            w += ["pi", enc_bytes(b), r if isinstance(r, str) else str(r)]
        for hid, (_h, (re_, sm, infos)) in enumerate(self.headers):
            w += ["h", str(hid), str(int(re_)), str(int(sm)), str(len(infos))]
            for t, l, bi in infos:
                w += [str(t), str(l), str(bi)]
        for hid in range(len(self.headers)):
            self.snapshot_si(hid)
        for (hid, lens), r in self.extra_si.items():
            w += ["si", str(hid), str(len(lens)), *map(str, lens), r if isinstance(r, str) else enc_bytes(r)]
        for ty in sorted(self.known):
            w += ["k", str(ty)]
        for (ty, p, b), r in self.pmsg.items():
            w += ["pm", str(ty), str(int(p)), enc_bytes(b), r if isinstance(r, str) else str(r)]
        for mid, (m, is_patch) in enumerate(self.msgs):
            try:
                b = enc_bytes(m.SerializePartialToString() if is_patch else m.SerializeToString())
            except Exception as e:  # noqa: BLE001
                b = "!" + exc_name(e)
            w += ["sm", str(mid), b]
        return " ".join(w)

    def show_segs(self, segs) -> str:
        out = [str(len(segs))]
        for s in segs:
            out += [str(self.hid(s.header)), str(len(s.objects))] + [str(self.mid(o)) for o in s.objects]
        return " ".join(out)


# ---------------------------------------------------------------------------------------------------
# independent reference (the property oracle; shares no code with the library or the model)
# ---------------------------------------------------------------------------------------------------

def ref_chunks(buf: bytes):
    """strict parse of the chunk container: [(marker, declared length, payload)]; raises AssertionError"""
    out, i = [], 0
    while i < len(buf):
        assert len(buf) - i >= 4, "dangling chunk header"
        n = buf[i + 1] | buf[i + 2] << 8 | buf[i + 3] << 16
        payload = buf[i + 4:i + 4 + n]
        out.append((buf[i], n, payload))
        assert len(payload) == n, "length field exceeds the data"
        i += 4 + n
    return out


def ref_stream(buf: bytes, stored=False) -> bytes:
    import snappy
    parts = []
    for marker, _n, payload in ref_chunks(buf):
        assert marker == 0
        if stored:
            try:
                parts.append(snappy.uncompress(payload))
            except Exception:  # noqa: BLE001
                parts.append(payload)
        else:
            parts.append(snappy.uncompress(payload))
    return b"".join(parts)


def ref_varint(buf: bytes, i: int):
    v, s = 0, 0
    while True:
        b = buf[i]
        i += 1
        v |= (b & 0x7F) << s
        s += 7
        if b < 0x80:
            return v, i


def ref_segments(stream: bytes):
    """[(header bytes, [message bytes])] by the documented layout, strict."""
    from numbers_parser.generated.TSPArchiveMessages_pb2 import ArchiveInfo
    out, i = [], 0
    while i < len(stream):
        n, j = ref_varint(stream, i)
        hb = stream[j:j + n]
        assert len(hb) == n, "header cut short"
        info = ArchiveInfo.FromString(hb)
        k = j + n
        msgs = []
        for mi in info.message_infos:
            m = stream[k:k + mi.length]
            assert len(m) == mi.length, "message cut short"
            msgs.append(m)
            k += mi.length
        out.append((hb, msgs))
        i = k
    return out


def check_container_rules(ctx: Ctx, buf: bytes, what: str, inp) -> bytes | None:
    """every emitted chunk: marker 0, length == payload length, <= 65536 bytes of data; returns the stream"""
    import snappy
    try:
        chunks = ref_chunks(buf)
    except AssertionError as e:
        ctx.violation("container-length-mismatch", f"{what}: {e}", inp)
        return None
    parts = []
    for marker, n, payload in chunks:
        if marker != 0:
            ctx.violation("container-marker", f"{what}: chunk marker {marker:#x}", inp)
            return None
        try:
            d = snappy.uncompress(payload)
        except Exception as e:  # noqa: BLE001
            ctx.violation("container-payload-undecodable", f"{what}: {exc_name(e)}", inp)
            return None
        if len(d) > 65536 or len(d) == 0:
            ctx.violation("container-chunk-size", f"{what}: chunk holds {len(d)} bytes", inp)
        if n != len(payload):
            ctx.violation("container-length-mismatch", f"{what}: length field {n} != {len(payload)}", inp)
        parts.append(d)
    return b"".join(parts)


def check_header_lengths(ctx: Ctx, stream: bytes, what: str, inp):
    try:
        ref_segments(stream)
    except (AssertionError, IndexError) as e:
        ctx.violation("header-length-mismatch", f"{what}: {e}", inp)
    except Exception as e:  # noqa: BLE001
        ctx.violation("header-undecodable", f"{what}: {exc_name(e)}", inp)


# ---------------------------------------------------------------------------------------------------
# fixtures
# ---------------------------------------------------------------------------------------------------

def fixture_members():
    """yield (document name, member name, bytes) for every .iwa member of every fixture + the template"""
    roots = sorted((REPO / "tests" / "data").glob("*.numbers")) + \
        sorted((REPO / "src" / "numbers_parser" / "data").glob("*.numbers"))
    for p in roots:
        zips = []
        if p.is_dir():
            zips += sorted(p.rglob("Index.zip"))
            for f in sorted(p.rglob("*.iwa")):
                yield p.name, str(f.relative_to(p)), f.read_bytes()
        else:
            zips.append(p)
        for zp in zips:
            try:
                with zipfile.ZipFile(zp) as z:
                    for info in z.infolist():
                        if info.filename.endswith(".iwa"):
                            try:
                                yield p.name, info.filename, z.read(info)
                            except Exception:  # noqa: BLE001
                                continue
            except (zipfile.BadZipFile, OSError):
                continue


def _call(fn, fmt):
    try:
        return "ok " + fmt(fn())
    except Exception as e:  # noqa: BLE001
        return "err " + exc_name(e)


def file_case(data: bytes, filename: str | None):
    """run the real IWAFile.from_buffer -> to_buffer with recording; returns (request, impl line, file|None, out|None)"""
    from numbers_parser.iwafile import IWAFile
    rec = Recorder()
    f = out = None
    with rec.active():
        try:
            f = IWAFile.from_buffer(data, filename)
            line = f"ok {len(f.chunks)}" + "".join(" " + rec.show_segs(c.archives) for c in f.chunks)
        except Exception as e:  # noqa: BLE001
            line = "err " + exc_name(e)
        if f is not None:
            try:
                out = f.to_buffer()
                line += " | ok " + enc_bytes(out)
            except Exception as e:  # noqa: BLE001
                line += " | err " + exc_name(e)
    req = f"iwa file {int(filename is not None)} {enc_bytes(data)} " + rec.tables()
    return req, line, f, out, rec


def seg_bytes(f):
    """observable content of a decoded file: per segment (header bytes, [message bytes])"""
    res = []
    for c in f.chunks:
        for a in c.archives:
            res.append((a.header.SerializeToString(), [o.SerializeToString() for o in a.objects]))
    return res


# ---------------------------------------------------------------------------------------------------
# synthetic archives
# ---------------------------------------------------------------------------------------------------

def make_msg(rng, size: int, unknown: bool) -> bytes:
    """serialised TSWP.TextualAttachmentArchive (type 2004) of about `size` bytes, optionally with an
    unknown field (number 1000, length-delimited) the schema does not know"""
    from numbers_parser.generated.mapping import ID_NAME_MAP
    m = ID_NAME_MAP[2004]()
    m.string_equivalent = "".join(rng.choice("abcdefghij é中") for _ in range(min(size, 50))) + "x" * max(0, size - 50)
    b = m.SerializeToString()
    if unknown:
        extra = bytes(rng.randrange(256) for _ in range(rng.randrange(1, 12)))
        b += bytes([0xC2, 0x3E, len(extra)]) + extra
    return b


def ref_varint_bytes(n: int) -> bytes:
    """protobuf varint, written here so that harness-built archives do not depend on the library's encoder"""
    out = bytearray()
    while True:
        b = n & 0x7F
        n >>= 7
        if n:
            out.append(b | 0x80)
        else:
            out.append(b)
            return bytes(out)


def make_segment(rng, ident: int, sizes: list[int], unknown=False, merge=False, pad_versions: int = 0) -> bytes:
    from numbers_parser.generated.TSPArchiveMessages_pb2 import ArchiveInfo
    _VarintBytes = ref_varint_bytes  # noqa: N806
    h = ArchiveInfo()
    h.identifier = ident
    msgs = []
    for i, s in enumerate(sizes):
        b = make_msg(rng, s, unknown and rng.random() < 0.5)
        mi = h.message_infos.add()
        mi.type = 0 if (merge and i > 0) else 2004
        if merge and i > 0:
            mi.base_message_index = 0
        mi.version.extend([1, 0, 5] + ([1] * pad_versions if i == 0 else []))
        mi.length = len(b)
        msgs.append(b)
    if merge:
        h.should_merge = True
    hb = h.SerializeToString()
    return _VarintBytes(len(hb)) + hb + b"".join(msgs)


def segments_by_header_length(rng, targets: set[int]) -> dict[int, bytes]:
    """segments whose serialised ArchiveInfo header has exactly the wanted lengths (varint width boundaries)"""
    from numbers_parser.generated.TSPArchiveMessages_pb2 import ArchiveInfo
    found: dict[int, bytes] = {}
    for k in sorted({1, 2, 5, 8, 9, 10, 11, 12} | {t // 12 + d for t in targets for d in range(-3, 2) if t // 12 + d > 0}):
        for pad in range(0, 30):
            seg = make_segment(rng, 5, [1] * k, pad_versions=pad)
            # header length is the first varint of the segment
            n, shift, i = 0, 0, 0
            while True:
                b = seg[i]
                n |= (b & 0x7F) << shift
                i += 1
                shift += 7
                if not b & 0x80:
                    break
            if n in targets and n not in found:
                found[n] = seg
        if len(found) == len(targets):
            break
    return found


def frame_mixed(pieces: list[bytes], stored_mask: list[bool]) -> bytes:
    import snappy
    out = b""
    for p, st in zip(pieces, stored_mask):
        c = p if st else snappy.compress(p)
        out += b"\x00" + struct.pack("<I", len(c))[:3] + c
    return out


def frame_compressed(pieces: list[bytes]) -> bytes:
    import snappy
    out = b""
    for p in pieces:
        c = snappy.compress(p)
        out += b"\x00" + struct.pack("<I", len(c))[:3] + c
    return out


def frame_stored(pieces: list[bytes]) -> bytes:
    return b"".join(b"\x00" + struct.pack("<I", len(p))[:3] + p for p in pieces)


def cut(stream: bytes, cuts: list[int]) -> list[bytes]:
    pts = [0, *sorted(cuts), len(stream)]
    return [stream[a:b] for a, b in zip(pts, pts[1:])]


def is_stored_safe(piece: bytes) -> bool:
    import snappy
    try:
        snappy.uncompress(piece)
        return False
    except Exception:  # noqa: BLE001
        return True


# ---------------------------------------------------------------------------------------------------
# the check
# ---------------------------------------------------------------------------------------------------

class _FakeArchive:
    def __init__(self, b):
        self.b = b

    def to_buffer(self):
        return self.b


def run(ctx: Ctx):
    from numbers_parser import iwafile as IW
    import time
    rng = ctx.rng
    timing = ctx.extra.setdefault("section_seconds", {})
    t0 = time.time()

    def lap(name):
        nonlocal t0
        timing[name] = round(time.time() - t0, 1)
        t0 = time.time()

    # --- 1. varints ---------------------------------------------------------------------------
    ns = set(range(0, 20_000 if ctx.quick else 300_000))
    for k in range(1, 71):
        ns |= {2**k - 2, 2**k - 1, 2**k, 2**k + 1}
    ns |= {rng.randrange(2**rng.randrange(1, 70)) for _ in range(5000)}
    ns = sorted(n for n in ns if n >= 0)
    req, out = [], []
    venc = getattr(IW, "_VarintBytes", None)
    vdec = getattr(IW, "_DecodeVarint32", None)
    if venc is None or vdec is None:
        ctx.notes.append("iwafile no longer exposes _VarintBytes/_DecodeVarint32: varint unit cases skipped; varints are "
                         "covered through segment encode/decode (header-length sweep) only")
        ns = []
    for n in ns:
        req.append(f"iwa varenc {n}")
        b = IW._VarintBytes(n)
        out.append("ok " + enc_bytes(b))
        # property oracle: decode(encode(n)) == n below 2^32, n mod 2^32 up to 10 bytes
        tail = bytes([rng.randrange(256)]) * rng.randrange(0, 3)
        if len(b) <= 10:
            v, pos = IW._DecodeVarint32(b + tail, 0)
            if v != n % 2**32 or pos != len(b):
                ctx.violation("varint-roundtrip", f"decode(encode({n})) = {(v, pos)}", {"n": n})
        req.append(f"iwa vardec {enc_bytes(b + tail)} 0")
        out.append(_call(lambda: IW._DecodeVarint32(b + tail, 0), lambda t: f"{t[0]} {t[1]}"))  # noqa: B023
    ctx.correspond("varint encode 0..20000 (thorough 0..300000), around every 2^k (k<=70), seeded; decode of the encodings", req, out,
                   exhaustive=False)
    alphabet = [0x00, 0x01, 0x7F, 0x80, 0x81, 0xFF]
    req, out = [], []
    strs = [bytes(t) for n in range(0, 5 if ctx.quick else 6) for t in itertools.product(alphabet, repeat=n)]
    strs += [bytes([0x80] * k + [1]) for k in range(0, 13)] + [bytes([0xFF] * k + [0x7F]) for k in range(0, 13)]
    strs += [bytes([0x80] * k) for k in range(0, 13)]
    strs += [bytes(rng.randrange(256) for _ in range(rng.randrange(1, 14))) for _ in range(3000)]
    for s in (strs if vdec is not None else []):
        for pos in (0, 1, len(s)):
            req.append(f"iwa vardec {enc_bytes(s)} {pos}")
            out.append(_call(lambda: IW._DecodeVarint32(s, pos), lambda t: f"{t[0]} {t[1]}"))  # noqa: B023
    ctx.correspond("varint decode: all strings of length <= 4 over {00,01,7f,80,81,ff} x pos, long runs, seeded", req, out,
                   exhaustive=True)

    lap("varint")
    # --- 2. un-framing and sniffing on arbitrary bytes -----------------------------------------
    req, out = [], []
    alpha2 = [0x00, 0x01, 0x02, 0x05, 0xFF]
    small = [bytes(t) for n in range(0, 6 if ctx.quick else 7) for t in itertools.product(alpha2, repeat=n)]
    import snappy
    for k in (0, 1, 2, 5):
        c = snappy.compress(bytes(range(k)))
        fr = b"\x00" + struct.pack("<I", len(c))[:3] + c
        small += [fr, fr + fr, fr[:-1], fr + b"\x00", fr + b"\x01", fr + b"\x00\x00\x00", b"\x00\x05\x00\x00abc",
                  b"\x00\xff\xff\xff" + fr, fr + b"\x00\x03\x00\x00abc"]
    for _ in range(1500):
        n = rng.randrange(0, 5)
        parts = []
        for _ in range(n):
            p = bytes(rng.randrange(256) for _ in range(rng.randrange(0, 9)))
            body = snappy.compress(p) if rng.random() < 0.6 else p
            ln = len(body) + rng.choice((0, 0, 0, 1, -1, 3))
            parts.append(bytes([0 if rng.random() < 0.9 else rng.randrange(256)]) +
                         struct.pack("<I", max(ln, 0))[:3] + body)
        small.append(b"".join(parts))
    # the un-framer is a private generator of the chunk class: when a refactoring renamed or replaced it, only what is
    # reachable through public entry points (is_iwa_file, to_buffer, IWAFile.from_buffer below) is compared
    unframe = getattr(IW.IWACompressedChunk, "_decompress_all", None)
    if unframe is None:
        ctx.notes.append("IWACompressedChunk._decompress_all is not available (renamed / replaced): the un-framing stream is "
                         "skipped; framing is still checked through to_buffer, is_iwa_file and IWAFile.from_buffer")
    for d in small:
        if unframe is not None:
            rec = Recorder()
            with rec.active():
                o = _call(lambda: b"".join(unframe(d)), enc_bytes)  # noqa: B023
            req.append(f"iwa decompress {enc_bytes(d)} " + rec.tables())
            out.append(o)
        req.append(f"iwa isiwa {enc_bytes(d)}")
        out.append(_call(lambda: IW.is_iwa_file(d), lambda b: str(int(b))))  # noqa: B023
    ctx.correspond("_decompress_all / is_iwa_file: all strings of length <= 5 over {00,01,02,05,ff}, framed edge cases, seeded",
                   req, out, exhaustive=True, translated=True)

    lap("unframe")
    # --- 3. framing: real IWACompressedChunk.to_buffer driven with arbitrary streams -------------
    sizes = list(range(0, 40)) + [255, 256, 257, 65535, 65536, 65537, 131071, 131072, 131073, 196608, 200_000]
    if not ctx.quick:
        sizes += [1 << 20, (1 << 20) + 1, 3 * 65536 - 1]
    req, out = [], []
    for n in sizes:
        for kind in ("zero", "rand", "text"):
            if kind == "zero":
                s = bytes(n)
            elif kind == "rand":
                s = rng.randbytes(n)
            else:
                s = (b"numbers-parser " * (n // 15 + 1))[:n]
            inp = {"op": "frame", "size": n, "kind": kind, "seed": ctx.seed}
            rec = Recorder()
            with rec.active():
                o = _call(lambda: IW.IWACompressedChunk([_FakeArchive(s[:7]), _FakeArchive(s[7:])]).to_buffer(), enc_bytes)  # noqa: B023
            req.append(f"iwa framestream {enc_bytes(s)} " + rec.tables())
            out.append(o)
            ctx.mark(("frame", n, kind))
            if o.startswith("ok"):
                buf = bytes.fromhex(o[3:]) if o != "ok -" else b""
                st = check_container_rules(ctx, buf, f"to_buffer of a {n}-byte {kind} stream", inp)
                if st is not None and st != s:
                    ctx.violation("frame-unframe-stream", f"{n}-byte {kind} stream not reproduced by an independent unframer", inp)
                back = _call(lambda: b"".join(unframe(buf)), enc_bytes) if unframe is not None else "ok " + enc_bytes(s)  # noqa: B023
                if back != "ok " + enc_bytes(s):
                    ctx.violation("unframe-frame", f"_decompress_all(to_buffer(s)) != s for a {n}-byte {kind} stream", inp)
                if IW.is_iwa_file(buf) is not True:
                    ctx.violation("sniff-own-output", f"is_iwa_file(to_buffer(s)) false for a {n}-byte {kind} stream", inp)
                # law H2 exercised
                for c in rec.cmp.values():
                    if len(c) >= 1 << 24:
                        ctx.violation("snappy-size-law", "compressed slice >= 2^24", inp)
            else:
                ctx.violation("frame-raises", f"to_buffer raised {o} on a {n}-byte stream", inp)
    ctx.correspond("to_buffer framing: stream sizes 0..39, 255..257, 65535..65537, 131071..131073, 196608, 200000 x 3 contents",
                   req, out, exhaustive=False, translated=True)
    # frames of given payloads with a fake compressor (payload sizes the real snappy never produces)
    req, out = [], []
    for plen in (0, 1, 255, 256, 65535, 65536, 70000, (1 << 24) - 1 if not ctx.quick else 300_000):
        payload = bytes([plen % 251]) * plen
        rec = Recorder()
        with rec.active(compress=lambda b, p=payload: p):
            o = _call(lambda: IW.IWACompressedChunk([_FakeArchive(b"ab")]).to_buffer(), enc_bytes)
        req.append(f"iwa frameall {enc_bytes(payload)}")
        out.append(o)
        req.append(f"iwa le24 {plen}")
        out.append("ok " + enc_bytes(struct.pack("<I", plen)[:3]))
    ctx.correspond("frame header for payload sizes up to 2^24-1 (fake compressor)", req, out)

    lap("frame")
    # --- 4. segments on synthetic buffers (incl. damaged ones) ------------------------------------
    req, out = [], []
    seg_inputs = []
    for _ in range(300 if ctx.quick else 2000):
        k = rng.choice((1, 1, 2, 3, 5))
        sizes_ = [rng.choice((0, 1, 2, 10, 100, 127, 128, 300)) for _ in range(k)]
        b = make_segment(rng, rng.randrange(1, 2**40), sizes_, unknown=rng.random() < 0.5, merge=rng.random() < 0.3)
        seg_inputs.append(b + bytes(rng.randrange(256) for _ in range(rng.choice((0, 0, 3)))))
        mode = rng.randrange(6)
        if mode == 0:
            seg_inputs.append(b[:rng.randrange(0, len(b))])
        elif mode == 1:
            i = rng.randrange(len(b))
            seg_inputs.append(b[:i] + bytes([b[i] ^ (1 << rng.randrange(8))]) + b[i + 1:])
        elif mode == 2:
            seg_inputs.append(bytes(rng.randrange(256) for _ in range(rng.randrange(0, 12))))
    seg_inputs += [b"", b"\x00", b"\x80", b"\x02\x12\x00", b"\x04\x12\x02\x08\x00", b"\x06\x12\x04\x08\x07\x18\x00",
                   b"\x0c\x12\x04\x08\x01\x18\x00\x12\x04\x08\x00\x18\x00", b"\x0e\x12\x04\x08\x01\x18\x00\x12\x04\x08\x00\x18\x00\x18\x01",
                   b"\x10\x12\x04\x08\x01\x18\x00\x12\x06\x08\x00\x18\x00\x38\x09\x18\x01"]
    for b in seg_inputs:
        rec = Recorder()
        with rec.active():
            try:
                sg, rest = IW.IWAArchiveSegment.from_buffer(b)
                o = "ok " + rec.show_segs([sg])[2:] + f" rest {len(rest)}"
            except Exception as e:  # noqa: BLE001
                o = "err " + exc_name(e)
        req.append(f"iwa segfrom {enc_bytes(b)} " + rec.tables())
        out.append(o)
    ctx.correspond("IWAArchiveSegment.from_buffer on synthetic, truncated, bit-flipped and hand-made segments", req, out)
    # get_archive_info_and_remainder on the same buffers vs the definition translated from the source
    gair = getattr(IW, "get_archive_info_and_remainder", None)
    req, out = [], []
    for b in (seg_inputs if gair is not None else []):
        rec = Recorder()
        with rec.active():
            try:
                h, rest = gair(b)
                o = f"ok {rec.hid(h)} {len(rest)}"
            except Exception as e:  # noqa: BLE001
                o = "err " + exc_name(e)
        req.append(f"iwa archinfo {enc_bytes(b)} " + rec.tables())
        out.append(o)
    common.translated_only_stream(ctx, "get_archive_info_and_remainder on the segment buffers vs the definition translated from "
                                       "the source", req, out)

    lap("segments")
    # --- 5. whole files: fixtures ----------------------------------------------------------------
    members = list(fixture_members())
    seen, uniq = set(), []
    not_iwa = 0
    for doc, name, data in members:
        if data not in seen:
            seen.add(data)
            try:
                wf = all(m == 0 for m, _n, _p in ref_chunks(data))
            except AssertionError:
                wf = False
            if not wf:      # members of the encrypted fixture: not IWA containers at all
                not_iwa += 1
                continue
            uniq.append((doc, name, data))
    ctx.extra["fixture_members_not_iwa_containers"] = not_iwa
    ctx.extra["fixture_members"] = len(members)
    ctx.extra["fixture_members_distinct"] = len(uniq)
    if ctx.quick:
        big = [m for m in uniq if len(m[2]) > 30_000]
        rest = [m for m in uniq if len(m[2]) <= 30_000]
        rng.shuffle(rest)
        chosen = big[:12] + rest[:600 - min(len(big), 12)]
    else:
        chosen = uniq
    ctx.extra["fixture_members_checked"] = len(chosen)
    rechunk_pool = []
    batch_req, batch_out = [], []

    def flush():
        if batch_req:
            ctx.correspond("IWAFile.from_buffer -> to_buffer on fixture .iwa members (recorded snappy/protobuf tables)",
                           list(batch_req), list(batch_out), exhaustive=not ctx.quick)
            batch_req.clear()
            batch_out.clear()

    law_stats = {"headers": 0, "messages": 0, "slices": 0, "ser_parse_mismatch": 0}
    malformed: list[str] = []
    for doc, name, data in chosen:
        inp = {"op": "member", "document": doc, "member": name}
        req_, line, f, outb, rec = file_case(data, name)
        batch_req.append(req_)
        batch_out.append(line)
        if sum(len(r) for r in batch_req) > 40_000_000:
            flush()
        ctx.mark(("member", len(data) // 4096, line.split(" ")[0]))
        if not IW.is_iwa_file(data):
            ctx.violation("fixture-not-sniffed", f"is_iwa_file false for {doc}:{name}", inp)
        # "well-formed IWA file" decided independently of the library: strict container + strict stream layout
        try:
            ref_segments(ref_stream(data, stored=True))
        except Exception as e:  # noqa: BLE001
            malformed.append(f"{doc}:{name} ({exc_name(e)})")   # e.g. the deliberately corrupted fixture member
            continue
        if f is None:
            ctx.violation("fixture-decode-fails", f"{doc}:{name}: from_buffer -> {line}", inp)
            continue
        if outb is None:
            ctx.violation("fixture-encode-fails", f"{doc}:{name}: to_buffer -> {line[-40:]}", inp)
            continue
        try:
            s_in = ref_stream(data, stored=True)
        except Exception as e:  # noqa: BLE001
            ctx.notes.append(f"reference unframer rejects fixture member {doc}:{name}: {exc_name(e)}")
            continue
        s_out = check_container_rules(ctx, outb, f"{doc}:{name}", inp)
        if s_out is None:
            continue
        if s_out != s_in:
            i = next((i for i, (a, b) in enumerate(zip(s_in, s_out)) if a != b), min(len(s_in), len(s_out)))
            ctx.violation("stream-not-reproduced",
                          f"{doc}:{name}: uncompressed stream differs at byte {i} (in {len(s_in)} / out {len(s_out)} bytes)", inp)
        check_header_lengths(ctx, s_out, f"{doc}:{name}", inp)
        # assumed laws, exercised
        law_stats["headers"] += len(rec.pinfo)
        law_stats["messages"] += len(rec.pmsg)
        law_stats["slices"] += len(rec.cmp)
        for b, hid in rec.pinfo.items():
            if not isinstance(hid, str) and rec.headers[hid][0].SerializeToString() != b:
                law_stats["ser_parse_mismatch"] += 1
        for (_t, _p, b), mid in rec.pmsg.items():
            if not isinstance(mid, str):
                m, isp = rec.msgs[mid]
                if (m.SerializePartialToString() if isp else m.SerializeToString()) != b:
                    law_stats["ser_parse_mismatch"] += 1
        if len(s_in) > 0 and len(rechunk_pool) < (40 if ctx.quick else 400) and (len(s_in) > 3000 or rng.random() < 0.05):
            rechunk_pool.append((doc, name, s_in, seg_bytes(f)))
    flush()
    ctx.extra["assumed_laws_exercised"] = law_stats
    ctx.extra["fixture_members_with_malformed_stream"] = malformed   # correspondence only, property not applicable

    lap("fixtures")
    # --- 6. synthetic archives + re-chunking -------------------------------------------------------
    synth = []
    plans = [[0], [1], [65535 - 40], [65536 - 33], [65536], [65537], [131072 - 30], [131073], [200_000],
             [10] * 400, [100, 0, 7, 300], [30_000, 30_000, 30_000], [1] * 50]
    if not ctx.quick:
        plans += [[1 << 20], [70_000] * 8, [5] * 3000]
    for pi, plan in enumerate(plans):
        multi = pi % 2 == 1
        stream = b""
        ident = 1
        i = 0
        while i < len(plan):
            k = rng.choice((1, 2, 3)) if multi else 1
            stream += make_segment(rng, ident, plan[i:i + k], unknown=pi % 3 == 0, merge=multi and k > 1 and rng.random() < 0.5)
            ident += 1
            i += k
        synth.append((f"synthetic plan {pi}", stream))
    # exact-boundary streams: pad the last message so that the stream length hits the boundary exactly
    for target in (65535, 65536, 65537, 131071, 131072, 131073):
        base = make_segment(rng, 7, [10])
        pad = target - len(base) - 12
        st = base + make_segment(rng, 8, [pad])
        adj = target - len(st)
        st = base + make_segment(rng, 8, [pad + adj])
        if len(st) != target:
            st = base + make_segment(rng, 8, [pad + adj + (target - len(st))])
        synth.append((f"synthetic exact {target} ({len(st)})", st))
    # header lengths across the 1/2-byte and 2/3-byte varint boundaries (127/128, 16383/16384)
    targets = set(range(120, 136)) | ({16380, 16383, 16384, 16385, 16390} if not ctx.quick else {16383, 16384})
    hl = segments_by_header_length(rng, targets)
    ctx.extra["header_lengths_covered"] = sorted(hl)
    for n_, seg in sorted(hl.items()):
        synth.append((f"synthetic header length {n_}", seg + make_segment(rng, 6, [3])))
    pool = [(n, "", s, None) for n, s in synth] + rechunk_pool
    req, out = [], []
    ncuts = 0
    for doc, name, stream, segs0 in pool:
        base_inp = {"op": "rechunk", "document": doc, "member": name, "stream_len": len(stream), "seed": ctx.seed}
        # reference decode (single chunk)
        from numbers_parser.iwafile import IWAFile
        try:
            f0 = IWAFile.from_buffer(frame_compressed([stream]) if stream else b"")
            ref = seg_bytes(f0)
        except Exception as e:  # noqa: BLE001
            ctx.violation("single-chunk-decode-fails", f"{doc}:{name}: {exc_name(e)}", base_inp)
            continue
        if segs0 is not None and segs0 != ref:
            ctx.violation("decode-depends-on-chunking", f"{doc}:{name}: original chunking vs one chunk", base_inp)
        n = len(stream)
        cutsets = [[], list(range(1, min(n, 6)))]
        for b in (65535, 65536, 65537):
            if n > b:
                cutsets.append([b])
        for _ in range(6 if ctx.quick else 20):
            cutsets.append(sorted({rng.randrange(0, n + 1) for _ in range(rng.choice((1, 2, 3, 8, 30)))}) if n else [])
        if n:
            cutsets.append([0, 0, n, n])      # empty pieces
        for ci, cuts in enumerate(cutsets):
            pieces = cut(stream, cuts)
            for stored in (False, True, "mixed"):
                if stored == "mixed":
                    safe = [len(p) < 1 << 24 and is_stored_safe(p) for p in pieces]
                    mask = [sf and (i % 2 == 0) for i, sf in enumerate(safe)]  # stored, compressed, stored, ...
                    if len(pieces) < 2 or not any(mask) or all(mask):
                        continue
                    data = frame_mixed(pieces, mask)
                elif stored and not all(len(p) < 1 << 24 and is_stored_safe(p) for p in pieces):
                    continue
                else:
                    data = (frame_stored if stored else frame_compressed)(pieces)
                if not data:
                    continue
                inp = {**base_inp, "cuts": cuts, "stored": stored}
                ncuts += 1
                ctx.mark(("rechunk", doc, name, ci, stored))
                if len(stream) < 20_000 or ci in (0, len(cutsets) - 2) or (not ctx.quick and ci < 6):
                    req_, line, f, outb, _ = file_case(data, None)
                    req.append(req_)
                    out.append(line)
                else:
                    try:
                        f = IWAFile.from_buffer(data)
                        outb = f.to_buffer()
                    except Exception as e:  # noqa: BLE001
                        f, outb, line = None, None, "err " + exc_name(e)
                if f is None or outb is None:
                    ctx.violation("rechunked-decode-fails", f"{doc}:{name} cuts={cuts[:8]} stored={stored}: {line[:60]}", inp)
                    continue
                if seg_bytes(f) != ref:
                    ctx.violation("decode-depends-on-chunking", f"{doc}:{name} cuts={cuts[:8]} stored={stored}", inp)
                s_out = check_container_rules(ctx, outb, f"{doc}:{name} re-encoded", inp)
                if s_out is not None and s_out != stream:
                    ctx.violation("stream-not-reproduced", f"{doc}:{name} cuts={cuts[:8]} stored={stored}", inp)
                if sum(len(r) for r in req) > 40_000_000:
                    ctx.correspond("re-chunked archives (random cut sets, compressed and stored chunks)", req, out)
                    req, out = [], []
    if req:
        ctx.correspond("re-chunked archives (random cut sets, compressed and stored chunks)", req, out)
    ctx.extra["rechunkings"] = ncuts

    lap("rechunk")
    # --- 7. documents produced by the editing API ----------------------------------------------------
    api_docs(ctx)
    lap("api")


def api_docs(ctx: Ctx):
    """archives generated by the API: every IWAFile in the file store is encoded by the real code and by the
    model (segments described by tables), then decoded again"""
    import numbers_parser
    from numbers_parser.iwafile import IWAFile
    rng = ctx.rng
    req, out = [], []
    for variant in range(3 if ctx.quick else 8):
        try:
            doc = numbers_parser.Document(num_rows=2 + variant, num_cols=2 + variant)
        except Exception as e:  # noqa: BLE001  (the template no longer decodes: already reported by the fixture part)
            ctx.notes.append(f"API documents skipped: Document() raised {exc_name(e)}")
            return
        t = doc.sheets[0].tables[0]
        for r in range(t.num_rows):
            for c in range(t.num_cols):
                t.write(r, c, rng.choice((1, 2.5, "text", "longer text " * rng.randrange(1, 30), True)))
        if variant >= 1:
            doc.add_sheet(f"S{variant}", "T", num_rows=200 * variant, num_cols=12)
            t2 = doc.sheets[-1].tables[0]
            for r in range(t2.num_rows):
                for c in range(t2.num_cols):
                    t2.write(r, c, f"cell {r} {c} " + "x" * rng.randrange(0, 40))
        tmp = Path(tempfile.mkdtemp(prefix="c05-"))
        path = tmp / "doc.numbers"
        try:
            doc.save(path)
            with zipfile.ZipFile(path) as z:
                members = [(i.filename, z.read(i)) for i in z.infolist() if i.filename.endswith(".iwa")]
        finally:
            for p in tmp.glob("*"):
                p.unlink()
            tmp.rmdir()
        # (a) encode side with described segments
        store = doc._model.objects.file_store
        for name, blob in store.items():
            if not isinstance(blob, IWAFile):
                continue
            inp = {"op": "api-encode", "variant": variant, "member": name, "seed": ctx.seed}
            rec = Recorder()
            segs = blob.chunks[0].archives
            with rec.active():
                desc = rec.show_segs(segs)  # registers headers/messages with their lengths *before* encoding
                try:
                    b = blob.chunks[0].to_buffer()
                    lens = "".join(f" {mi.length}" for s in segs for mi in s.header.message_infos)
                    o = "ok ok " + enc_bytes(b) + " lens" + lens
                except Exception as e:  # noqa: BLE001
                    b, o = None, "err " + exc_name(e)
            req.append(f"iwa tobuf {desc} " + rec.tables())
            out.append(o)
            ctx.mark(("api-encode", variant, name))
            if b is None:
                ctx.violation("api-encode-fails", f"{name}: {o}", inp)
                continue
            st = check_container_rules(ctx, b, f"API document {variant} {name}", inp)
            if st is not None:
                check_header_lengths(ctx, st, f"API document {variant} {name}", inp)
        # (b) saved members decode/encode like fixtures
        for name, data in members:
            inp = {"op": "api-member", "variant": variant, "member": name, "seed": ctx.seed}
            req_, line, f, outb, _ = file_case(data, name)
            req.append(req_)
            out.append(line)
            if f is None or outb is None:
                ctx.violation("api-member-roundtrip-fails", f"{name}: {line[:60]}", inp)
                continue
            s_out = check_container_rules(ctx, outb, f"API document {variant} {name}", inp)
            if s_out is not None and s_out != ref_stream(data):
                ctx.violation("stream-not-reproduced", f"API document {variant} {name}", inp)
    ctx.correspond("archives of API-generated documents: to_buffer of the file store + saved members round trip", req, out)


def replay(data):
    """re-run one stored input against the implementation"""
    from numbers_parser.iwafile import IWAFile
    i = data.get("input", {})
    res = {}
    if i.get("op") == "member":
        for doc, name, blob in fixture_members():
            if doc == i["document"] and name == i["member"]:
                f = IWAFile.from_buffer(blob, name)
                out = f.to_buffer()
                a, b = ref_stream(blob, stored=True), ref_stream(out)
                res = {"stream_in": len(a), "stream_out": len(b), "equal": a == b}
                break
    elif "n" in i:
        from numbers_parser import iwafile as IW
        b = IW._VarintBytes(i["n"])
        res = {"encoded": b.hex(), "decoded": IW._DecodeVarint32(b, 0)}
    else:
        res = {"note": "synthetic input: re-run the check with VERIF_SEED=%s" % i.get("seed"), "input": i}
    return res
