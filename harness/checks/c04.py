"""C04 — cell storage records decode to exactly what was encoded, field by field."""
from __future__ import annotations

import itertools
import struct
import warnings
from datetime import datetime, timedelta

from common import REPO, Ctx, enc_bytes, exc_name

PID = "C04"
PROPS_MODULE = "NumbersModel.Props.C04"
THEOREMS = [f"NumbersModel.Props.C04.{t}" for t in (
    "decode_encode", "decode_specEncode", "uninterpreted_fields_do_not_matter", "encode_is_spec_layout",
    "encode_length_aligned", "flags_word_matches_fields", "extras_byte_spec", "encode_none_iff",
    "pinned_richtext_shifts_fields", "pinned_late_skip_misreads_formula",
    # the flags-driven field walk of Cell._from_storage as py2lean regenerates it from cell.py on every run, proved equal to
    # the model for every buffer, and decode_encode / decode_specEncode restated over the translation
    "Src.src_from_storage_fields_eq_model", "Src.src_from_storage_eq_model", "Src.src_decode_encode",
    "Src.src_decode_specEncode")]
TRANSLATED_GROUPS = ("CellRec",)
PARTIAL: dict = {}
RULE = ("exhaustive: 8 encodable kinds x all 2^12 subsets of the optional reference ids x string-id present/absent "
        "(65 536 cells, distinct sentinel ids) through the real Cell._to_buffer and Cell._from_storage with a stub "
        "model, bytes and decoded attributes compared with the Lean encode/decode; records from an independent "
        "layout encoder: quick = all 2^5 subsets of the uninterpreted flag bits x 2048 seeded subsets of the other 16, "
        "thorough = all 2^21 flag subsets; truncations of records at every length; a case is non-trivial if it is a "
        "distinct (kind, flag subset) pair")
MANIFEST = {
    "text": "Full: decode_encode (for every encodable cell kind, every subset of the 12 optional ids at once, arbitrary "
            "payload bytes and every int32 id value: decode(encode c) returns the same kind, payload and ids), "
            "decode_specEncode (for every record laid out per docs/Numbers.md + SheetJS flag order over all 21 flag bits, "
            "any field values, any trailing bytes: decode returns exactly the interpreted fields; uninterpreted fields are "
            "skipped in place - corollary uninterpreted_fields_do_not_matter), encode_is_spec_layout (the encoder's output IS "
            "a layout-conformant record), encode_length_aligned, flags_word_matches_fields, extras_byte_spec. The model is "
            "tied to Cell._to_buffer/_from_storage by exhaustive correspondence over kinds x 2^13 attribute subsets and "
            "(thorough) all 2^21 flag subsets of spec-encoded records. Second tie: the field walk of Cell._from_storage "
            "(version check, flags, the nineteen `if flags & mask:` blocks up to `cell_type = buffer[1]`) is additionally "
            "TRANSLATED from cell.py on every run (harness/py2lean.py group CellRec -> Gen/TrCellRec.lean) and proved equal to "
            "the model's walk for EVERY buffer, one block at a time (Src.src_from_storage_fields_eq_model; `flags & mask` on the "
            "signed int32 is the bit of its unsigned view: flag_eq); the model's decode is that walk followed by the dispatch "
            "(Src.src_from_storage_eq_model), so decode_encode / decode_specEncode hold with the walk of the source as it is now "
            "(Src.src_decode_encode, Src.src_decode_specEncode); every _from_storage request also goes through the translated "
            "walk (trdriver). Cell._to_buffer and the class dispatch are not translated (hand model only).",
    "note": "payload interpretation (_unpack_decimal128, struct '<d', timedelta) and string / rich-text table look-ups are "
            "parameters of the model (C01/C06); the style-object look-ups at the top of _to_buffer are outside the model. "
            "The independent layout encoder exists twice (Lean specEncode, Python spec_encode) and the two are compared.",
    "technique": "Lean 4 proof (one induction over the field-descriptor list; the unrolled mirror of the Python walk is "
                 "shown equal to the fold by simp) + exhaustive differential correspondence",
}
ASSUMPTIONS = [
    "payload bytes are opaque: _pack_decimal128 / struct.pack('<d') produce 16 / 8 bytes (checked on every case)",
    "the flag order of the published layout is the one in the SheetJS IWA notes, which docs/Numbers.md defers to",
]

KINDS = ("number", "currency", "text", "date", "bool", "duration", "empty", "rich")
ID_ATTRS = ("_rich_id", "_cell_style_id", "_text_style_id", "_formula_id", "_control_id", "_suggest_id",
            "_num_format_id", "_currency_format_id", "_date_format_id", "_duration_format_id", "_text_format_id",
            "_bool_format_id")
# flag bit of each id attribute, in ID_ATTRS order
ID_BITS = (4, 5, 6, 9, 10, 12, 13, 14, 15, 16, 17, 18)
UNINTERPRETED = (7, 8, 11, 19, 20)
WIDTH = [16, 8, 8] + [4] * 18
CTYPE = {"empty": 0, "number": 2, "text": 3, "date": 5, "bool": 6, "duration": 7, "error": 8, "rich": 9, "currency": 10}
CTYPE_INV = {v: k for k, v in CTYPE.items()}
RICH = {"text": "r", "bullets": [], "hyperlinks": None, "bulleted": False, "bullet_chars": []}


class _Stub:
    """Stands in for _NumbersModel: only what _to_buffer / _from_storage touch."""

    def table_string_key(self, _tid, value):
        return self.key

    def table_string(self, _tid, key):
        return f"s{key}"

    def table_rich_text(self, _tid, _key):
        return dict(RICH)

    def merge_cells(self, _tid):
        return {}

    def table_name(self, _tid):
        return "T"


class _RawFloat(float):
    raw = b""


def d128_bytes(sign: int, coeff: int, exp: int) -> bytes:
    """reference decimal128 (BID) layout used by Numbers: 113-bit coefficient, 14-bit biased exponent, sign."""
    b = bytearray(coeff.to_bytes(15, "little") + b"\0")
    e = exp + 0x1820
    b[14] |= (e & 0x7F) << 1
    b[15] |= (e >> 7) | (0x80 if sign else 0)
    return bytes(b)


def opt(v):
    return "n" if v is None else str(v)


def optb(v):
    return "n" if v is None else enc_bytes(v)


def spec_encode(ctype: int, unused: bytes, extras: bytes, fields: list) -> bytes:
    """Independent encoder written from the published layout (not from cell.py)."""
    flags = sum(1 << i for i, f in enumerate(fields) if f is not None)
    return bytes([5, ctype]) + unused + extras + struct.pack("<I", flags) + b"".join(f for f in fields if f is not None)


def spec_decode(buf: bytes) -> dict:
    """Independent decoder from the published layout: {bit: bytes} for every documented flag bit."""
    flags = struct.unpack("<I", buf[8:12])[0]
    off, out = 12, {}
    for bit in range(21):
        if flags >> bit & 1:
            out[bit] = bytes(buf[off:off + WIDTH[bit]])
            off += WIDTH[bit]
    return out


class Impl:
    def __init__(self):
        from numbers_parser import cell as C
        self.C = C
        self.stub = _Stub()
        self.cls = {"number": C.NumberCell, "currency": C.NumberCell, "text": C.TextCell, "date": C.DateCell,
                    "bool": C.BoolCell, "duration": C.DurationCell, "empty": C.EmptyCell, "rich": C.RichTextCell,
                    "merged": C.MergedCell, "other": C.ErrorCell}
        self._orig_unpack = C._unpack_decimal128

    def __enter__(self):
        orig = self._orig_unpack

        def recording_unpack(buf):
            v = _RawFloat(orig(buf))
            v.raw = bytes(buf)
            return v

        self.C._unpack_decimal128 = recording_unpack     # in-process wrapping only: records the raw slice
        return self

    def __exit__(self, *a):
        self.C._unpack_decimal128 = self._orig_unpack

    def make(self, kind, value, key, sid, ids):
        C = self.C
        if kind in ("number", "currency"):
            cell = C.NumberCell(0, 0, value, cell_type=C.CellType.CURRENCY if kind == "currency" else C.CellType.NUMBER)
        elif kind == "rich":
            cell = C.RichTextCell(0, 0, dict(RICH))
        elif kind in ("empty", "merged", "other"):
            cell = self.cls[kind](0, 0)
        else:
            cell = self.cls[kind](0, 0, value)
        cell._model = self.stub
        cell._table_id = 1
        self.stub.key = key
        cell._string_id = sid
        for a, v in zip(ID_ATTRS, ids):
            setattr(cell, a, v)
        return cell

    def encode(self, cell):
        with warnings.catch_warnings():
            warnings.simplefilter("ignore")
            try:
                b = cell._to_buffer()
            except Exception as e:  # noqa: BLE001
                return None, "err " + exc_name(e)
        return b, "ok " + ("none" if b is None else enc_bytes(bytes(b)))

    def decode(self, buf):
        C = self.C
        try:
            cell = C.Cell._from_storage(1, 0, 0, bytearray(buf), self.stub)
        except Exception as e:  # noqa: BLE001
            return None, "err " + exc_name(e)
        return cell, "ok " + self.show(cell)

    def kind_of(self, cell):
        C = self.C
        n = type(cell).__name__
        if n == "NumberCell":
            return "currency" if cell._type == C.CellType.CURRENCY else "number"
        return {"EmptyCell": "empty", "TextCell": "text", "DateCell": "date", "BoolCell": "bool",
                "DurationCell": "duration", "ErrorCell": "error", "RichTextCell": "rich"}[n]

    def observed(self, cell) -> dict:
        d = {"kind": self.kind_of(cell),
             "d128": None if cell._d128 is None else getattr(cell._d128, "raw", b"?"),
             "double": None if cell._double is None else struct.pack("<d", cell._double),
             "seconds": None if cell._seconds is None else struct.pack("<d", cell._seconds),
             "string": cell._string_id}
        for a in ID_ATTRS:
            d[a] = getattr(cell, a)
        return d

    def show(self, cell) -> str:
        o = self.observed(cell)
        return " ".join([o["kind"], optb(o["d128"]), optb(o["double"]), optb(o["seconds"]), opt(o["string"])]
                        + [opt(o[a]) for a in ID_ATTRS] + [str(cell._extras), str(cell._flags)])


def enc_line(kind, payload, key, sid, ids, op="enc"):
    return " ".join(["cell", op, kind, enc_bytes(payload), str(key), opt(sid)] + [opt(v) for v in ids])


def pools(rng):
    """payload value pools (shared with C01's domains)."""
    nums = [0, 1, 12, 50, 52, -7, 7890, 78.9, 0.12, 1.234, -123.45, 1e15 - 1, 846400000000.0, 1e-7, 12345.678901234]
    nums += [rng.randrange(-10**9, 10**9) for _ in range(10)] + [round(rng.uniform(-1e6, 1e6), 4) for _ in range(10)]
    dates = [datetime(2001, 1, 1), datetime(1999, 12, 31, 23, 59, 59), datetime(2024, 2, 29, 12, 0, 1),
             datetime(1, 1, 1), datetime(9999, 12, 31, 23, 59, 59)]
    durs = [timedelta(0), timedelta(seconds=1), timedelta(days=-3, seconds=17), timedelta(days=36500),
            timedelta(microseconds=250000)]
    return nums, dates, durs


def sentinel(i, variant):
    """distinct, recognisable int32 ids; variant changes magnitude/sign."""
    base = (0x0101 * (i + 1), 0x01020304 + 0x01010101 * i, -(1000 + i), 2**31 - 1 - i, -(2**31) + i, i + 1,
            i, 0)[variant % 8]          # variants 6/7: ids 0..11 and all-zero ids (0 is a valid id, not "absent")
    return base


def run(ctx: Ctx):
    rng = ctx.rng
    # keep at most 3 reports per signature so that a frequent failure class cannot crowd out a rarer one
    seen: dict = {}
    orig = ctx.violation

    def limited(sig, what, inp):
        seen[sig] = seen.get(sig, 0) + 1
        if seen[sig] <= 3:
            orig(sig, what, inp)

    ctx.violation = limited
    try:
        with Impl() as im:
            _run(ctx, im, rng)
    finally:
        ctx.violation = orig
        ctx.extra["oracle_failures_by_signature"] = dict(seen)


def _payload_for(im, kind, nums, dates, durs, i):
    """(python value, payload bytes as the real packers produce them)"""
    C = im.C
    if kind in ("number", "currency"):
        v = nums[i % len(nums)]
        return v, bytes(C._pack_decimal128(v))
    if kind == "date":
        v = dates[i % len(dates)]
        return v, struct.pack("<d", float((v - datetime(2001, 1, 1)).total_seconds()))
    if kind == "bool":
        v = bool(i & 1)
        return v, struct.pack("<d", float(v))
    if kind == "duration":
        v = durs[i % len(durs)]
        return v, struct.pack("<d", float(v.total_seconds()))
    if kind == "text":
        return "x", b""
    return None, b""


def _check_roundtrip(ctx, im, kind, value, payload, key, sid, ids, buf):
    """the property itself on the implementation: decode(encode(cell)) has the same kind, payload, ids."""
    inp = {"kind": kind, "payload": payload.hex(), "string_key": key, "string_id": sid,
           "ids": dict(zip(ID_ATTRS, ids)), "value": repr(value)}
    cell, shown = im.decode(buf)
    if cell is None:
        ctx.violation("encode-decode-raises", f"_from_storage(_to_buffer({kind} cell)) raised: {shown}", inp)
        return
    o = im.observed(cell)
    bad = []
    if o["kind"] != kind:
        bad.append(f"kind {o['kind']} != {kind}")
    for a, v in zip(ID_ATTRS, ids):
        if o[a] != v:
            bad.append(f"{a}: wrote {v}, read {o[a]}")
    want = {"d128": None, "double": None, "seconds": None}
    if kind in ("number", "currency"):
        want["d128"] = payload
    elif kind in ("bool", "duration"):
        want["double"] = payload
    elif kind == "date":
        want["seconds"] = payload
    for k, v in want.items():
        if o[k] != v:
            bad.append(f"{k}: wrote {optb(v)}, read {optb(o[k])}")
    if o["string"] != (key if kind == "text" else None):
        bad.append(f"_string_id: expected {key if kind == 'text' else None}, read {o['string']}")
    if len(buf) % 4 or len(buf) > 12 + 16 + 48:
        bad.append(f"record length {len(buf)}")
    # byte 6 as tabulated in docs/Numbers.md
    exp6 = ((1 if ids[6] is not None else 0) | (2 if ids[7] is not None else 0) | (8 if ids[8] is not None else 0)
            | (4 if ids[9] is not None else 0) | (0x20 if ids[11] is not None else 0) | (0x80 if sid is not None else 0))
    if buf[6] != exp6:
        ctx.violation("extras-byte-differs-from-doc-table", f"{kind} cell: byte 6 is {buf[6]:#x}, docs/Numbers.md table gives {exp6:#x}", inp)
    flags = struct.unpack("<I", buf[8:12])[0]
    laid = spec_decode(buf)
    if sum(len(v) for v in laid.values()) + 12 != len(buf):
        bad.append(f"flags word {flags:#x} announces {sum(len(v) for v in laid.values())} field bytes, record has {len(buf) - 12}")
    if bad:
        sig = "richtext-roundtrip-field-mismatch" if kind == "rich" else "encode-decode-field-mismatch"
        ctx.violation(sig, f"{kind} cell: " + "; ".join(bad[:4]), inp)


def _run(ctx: Ctx, im: Impl, rng):
    nums, dates, durs = pools(rng)

    # ---- 1. exhaustive: kinds x 2^12 id subsets x string-id present/absent ------------------------------
    req_e, out_e, req_d, out_d = [], [], [], []
    n = 0
    for kind in KINDS:
        for mask in range(1 << 13):
            variant = (mask * 7 + len(kind)) % 8
            ids = [sentinel(i, variant) if mask >> i & 1 else None for i in range(12)]
            sid = 4242 if mask >> 12 & 1 else None
            key = 77 + (mask % 5) * 1000
            value, payload = _payload_for(im, kind, nums, dates, durs, mask)
            cell = im.make(kind, value, key, sid, ids)
            buf, shown = im.encode(cell)
            req_e.append(enc_line(kind, payload, key, sid, ids))
            out_e.append(shown)
            ctx.mark((kind, mask))
            n += 1
            if buf is None:
                if kind == "rich" and ids[0] is None:
                    continue        # a rich-text cell without a rich-text id is not a cell the library can hold
                ctx.violation("encode-raises", f"_to_buffer of a {kind} cell: {shown}",
                              {"kind": kind, "ids": dict(zip(ID_ATTRS, ids)), "string_id": sid})
                continue
            req_d.append("cell dec " + enc_bytes(bytes(buf)))
            out_d.append(im.decode(buf)[1])
            if kind == "rich" and ids[0] is None:
                continue
            _check_roundtrip(ctx, im, kind, value, payload, key, sid, ids, bytes(buf))
    ctx.correspond("_to_buffer: 8 kinds x 2^12 id subsets x string-id on/off", req_e, out_e, exhaustive=True)
    ctx.correspond("_from_storage on every record produced above", req_d, out_d, exhaustive=True, translated=True)

    # ---- 2. not-stored kinds, out-of-range ids, None key -------------------------------------------------
    req, out = [], []
    for kind in ("merged", "other"):
        for mask in (0, 1, 0xFFF):
            ids = [sentinel(i, 0) if mask >> i & 1 else None for i in range(12)]
            cell = im.make(kind, None, 1, None, ids)
            req.append(enc_line(kind, b"", 1, None, ids))
            out.append(im.encode(cell)[1])
    for kind, pos, v in itertools.product(("number", "text", "empty", "rich"), range(12), (2**31, -(2**31) - 1, 2**40)):
        ids = [5 if i == 0 else None for i in range(12)]
        ids[pos] = v
        value, payload = _payload_for(im, kind, nums, dates, durs, pos)
        cell = im.make(kind, value, 9, None, ids)
        req.append(enc_line(kind, payload, 9, None, ids))
        out.append(im.encode(cell)[1])
    for key in (2**31, -(2**31) - 1, -1, 2**31 - 1, -(2**31)):
        cell = im.make("text", "x", key, None, [None] * 12)
        req.append(enc_line("text", b"", key, None, [None] * 12))
        out.append(im.encode(cell)[1])
    ctx.correspond("_to_buffer: merged / unsupported classes, ids and keys outside int32", req, out, exhaustive=True)

    # ---- 3. records from the independent layout encoder ---------------------------------------------------
    d128_pool = [d128_bytes(s, c, e) for s, c, e in
                 [(0, 0, 0), (0, 12, 0), (1, 5, -1), (0, 10**15 - 1, -5), (1, 123456789012345, 3), (0, 2**112, -20)]]
    dbl_pool = [struct.pack("<d", v) for v in (0.0, 1.0, -1.0, 86400.0, 0.25, 725846400.0, -31622400.0, 1e9)]
    other = [b for b in range(21) if b not in UNINTERPRETED]
    if ctx.quick:
        rest_subsets = {0, (1 << 16) - 1} | {1 << k for k in range(16)}
        while len(rest_subsets) < 2048:
            rest_subsets.add(rng.getrandbits(16))
        rest_subsets = sorted(rest_subsets)
    else:
        rest_subsets = range(1 << 16)
    req_s, out_s, req_d, out_d = [], [], [], []
    cnt = 0
    ctypes = list(CTYPE_INV)
    for rs in rest_subsets:
        for us in range(32):
            present = {other[k] for k in range(16) if rs >> k & 1} | {UNINTERPRETED[k] for k in range(5) if us >> k & 1}
            cnt += 1
            fields = []
            for bit in range(21):
                if bit not in present:
                    fields.append(None)
                elif bit == 0:
                    fields.append(d128_pool[(cnt + rs) % len(d128_pool)])
                elif bit in (1, 2):
                    fields.append(dbl_pool[(cnt + bit) % len(dbl_pool)])
                else:
                    fields.append(struct.pack("<i", sentinel(bit, cnt % 6)))
            ctype = ctypes[cnt % len(ctypes)]
            # most of the time give the kind the payload it needs (else the constructor raises TypeError)
            need = {5: 2, 6: 1, 7: 1}.get(ctype)
            if need is not None and fields[need] is None and cnt % 7:
                fields[need] = dbl_pool[cnt % len(dbl_pool)]
                present.add(need)
            unused = bytes([(cnt * 3) & 0xFF, 0, cnt & 0xFF, 0]) if cnt % 3 == 0 else b"\0\0\0\0"
            extras = bytes([(cnt * 5) & 0xFF, 0x80 if cnt % 11 == 0 else 0])
            trailing = b"" if cnt % 4 else bytes([0xEE] * (cnt % 9))
            buf = spec_encode(ctype, unused, extras, fields) + trailing
            if cnt % 16 == 0 or not ctx.quick and cnt % 64 == 0:
                req_s.append(" ".join(["cell", "spec", str(ctype), enc_bytes(unused), enc_bytes(extras)] + [optb(f) for f in fields]))
                out_s.append("ok " + enc_bytes(buf[:len(buf) - len(trailing)]))
            req_d.append("cell dec " + enc_bytes(buf))
            cell, shown = im.decode(buf)
            out_d.append(shown)
            ctx.mark(("spec", ctype, tuple(sorted(present))))
            # oracle: what the layout says vs. what the decoder returned
            inp = {"record": buf.hex(), "ctype": ctype, "fields": {str(b): f.hex() for b, f in enumerate(fields) if f is not None}}
            if cell is None:
                if shown == "err TypeError" and need is not None and fields[need] is None:
                    continue
                ctx.violation("layout-record-rejected", f"_from_storage raised {shown} on a layout-conformant record", inp)
                continue
            o = im.observed(cell)
            bad = []
            if o["kind"] != CTYPE_INV[ctype]:
                bad.append(f"kind {o['kind']}")
            for name, bit in (("d128", 0), ("double", 1), ("seconds", 2)):
                if o[name] != fields[bit]:
                    bad.append(f"{name}: record has {optb(fields[bit])}, read {optb(o[name])}")
            for a, bit in zip(("string",) + ID_ATTRS, (3,) + ID_BITS):
                want = None if fields[bit] is None else struct.unpack("<i", fields[bit])[0]
                if o[a] != want:
                    bad.append(f"{a} (flag {1 << bit:#x}): record has {want}, read {o[a]}")
            if bad:
                late = present & {8, 11}
                sig = "layout-decode-mismatch-with-0x100-or-0x800-present" if late else "layout-decode-field-mismatch"
                ctx.violation(sig, "; ".join(bad[:4]) + f" (flags {sum(1 << b for b in present):#x})", inp)
            elif cnt % 3 == 0:
                # the decoded cell is encoded again (as a save does) and the new record is read with the independent layout
                # decoder: every attribute the cell carries sits at ITS OWN flag bit with its own value - also when the record
                # it came from carried fields the library does not interpret (whatever the encoder chooses to do with those)
                self_buf, _shown = im.encode(cell)
                if self_buf is not None:
                    try:
                        back = spec_decode(bytes(self_buf))
                    except Exception:  # noqa: BLE001
                        back = None
                    bad2 = []
                    if back is None:
                        bad2.append("re-encoded record does not follow the layout")
                    else:
                        for a, bit in zip(("string",) + ID_ATTRS, (3,) + ID_BITS):
                            if o[a] is not None and a != "string":
                                got = back.get(bit)
                                if got is None or struct.unpack("<i", got)[0] != o[a]:
                                    bad2.append(f"{a} (flag {1 << bit:#x}) = {o[a]} is written as "
                                                f"{None if got is None else struct.unpack('<i', got)[0]}")
                    if bad2:
                        ctx.violation("decode-reencode-field-mismatch", "; ".join(bad2[:4]) +
                                      f" (record flags {sum(1 << b for b in present):#x}, re-encoded by Cell._to_buffer)", inp)
    ctx.correspond("spec encoder: Python layout encoder vs Lean specEncode (sampled 1/16)", req_s, out_s)
    ctx.correspond("_from_storage on layout-encoded records: " +
                   ("all 2^21 flag subsets" if not ctx.quick else "2^5 uninterpreted x 2048 subsets of the rest"),
                   req_d, out_d, exhaustive=not ctx.quick, translated=True)

    # ---- 4. malformed: every prefix of some records, versions, unknown types, sign bit in flags ----------
    req, out = [], []
    full = spec_encode(2, b"\0" * 4, b"\0\0", [d128_pool[1], dbl_pool[1], dbl_pool[2]] + [struct.pack("<i", 100 + b) for b in range(3, 21)])
    some = spec_encode(9, b"\0" * 4, b"\1\0", [None] * 4 + [struct.pack("<i", 5), None, struct.pack("<i", 6)] + [None] * 14)
    for rec in (full, some):
        for k in range(len(rec) + 1):
            req.append("cell dec " + enc_bytes(rec[:k]))
            out.append(im.decode(rec[:k])[1])
    for v, t in itertools.product((0, 1, 4, 5, 6, 255), range(0, 14)):
        rec = bytes([v, t]) + b"\0" * 6 + struct.pack("<I", 0x6) + dbl_pool[1] + dbl_pool[2]
        req.append("cell dec " + enc_bytes(rec))
        out.append(im.decode(rec)[1])
    for fl in (0x80000000, 0xFFFFFFFF & ~0x7, 0x80000008, 0xFFF80000, 0x00200000, 0x7FE00000):
        nf = sum(4 for b in range(3, 19) if fl >> b & 1)
        rec = bytes([5, 0]) + b"\0" * 6 + struct.pack("<I", fl) + bytes(range(1, nf + 1))
        req.append("cell dec " + enc_bytes(rec))
        out.append(im.decode(rec)[1])
    ctx.correspond("_from_storage: every prefix of two records, version/type grid, high flag bits", req, out, exhaustive=True,
                   translated=True)

    # ---- 5. records Numbers itself wrote: decoder vs the published layout on fixture documents ------------
    _fixtures(ctx, im)


def _fixtures(ctx: Ctx, im: Impl):
    """Every stored record of some fixture documents: the attributes `_from_storage` produced at load time
    must equal what an independent reading of the record per the published layout gives."""
    import numbers_parser
    files = sorted((REPO / "tests" / "data").glob("*.numbers"))      # all of them: ~95 k records, ~5 s
    n = bad = with100 = 0
    for f in files:
        try:
            with warnings.catch_warnings():
                warnings.simplefilter("ignore")
                doc = numbers_parser.Document(f)
                tables = [t for s in doc.sheets for t in s.tables]
        except Exception:  # noqa: BLE001  (unsupported / encrypted fixtures are not this property's business)
            continue
        for t in tables:
            for row in t._data:
                for cell in row:
                    buf = getattr(cell, "_buffer", None)
                    if buf is None:
                        continue
                    n += 1
                    spec = spec_decode(bytes(buf))
                    with100 += 1 if (8 in spec or 11 in spec) else 0
                    for a, bit in zip(("_string_id",) + ID_ATTRS, (3,) + ID_BITS):
                        want = struct.unpack("<i", spec[bit])[0] if bit in spec else None
                        if getattr(cell, a) != want:
                            bad += 1
                            ctx.violation("layout-decode-mismatch-with-0x100-or-0x800-present" if (8 in spec or 11 in spec)
                                          else "fixture-record-field-mismatch",
                                          f"{f.name} table {t.name!r} cell ({cell.row},{cell.col}): {a} read {getattr(cell, a)}, "
                                          f"record (flags {struct.unpack('<I', bytes(buf[8:12]))[0]:#x}) has {want} in that field",
                                          {"record": bytes(buf).hex(), "file": f.name})
                            break
    ctx.count("fixture records re-read per the published layout", n, exhaustive=False)
    ctx.extra["fixture_records"] = {"records": n, "with_flag_0x100_or_0x800": with100, "mismatching": bad}


def replay(data):
    inp = data.get("input", {})
    res = {}
    with Impl() as im:
        if "record" in inp:
            buf = bytes.fromhex(inp["record"])
            cell, shown = im.decode(buf)
            res["_from_storage"] = shown
            res["layout_reading"] = {f"{1 << b:#x}": (struct.unpack("<i", v)[0] if len(v) == 4 else v.hex())
                                     for b, v in spec_decode(buf).items()}
            if cell is not None:
                res["attributes"] = {a: getattr(cell, a) for a in ("_string_id",) + ID_ATTRS if getattr(cell, a) is not None}
        elif "kind" in inp:
            kind = inp["kind"]
            ids = [inp["ids"].get(a) for a in ID_ATTRS]
            value = {"number": 12, "currency": 12, "text": "x", "date": datetime(2001, 1, 2), "bool": True,
                     "duration": timedelta(seconds=5)}.get(kind)
            cell = im.make(kind, value, inp.get("string_key", 1), inp.get("string_id"), ids)
            buf, shown = im.encode(cell)
            res["_to_buffer"] = shown
            if buf is not None:
                back, shown2 = im.decode(buf)
                res["_from_storage"] = shown2
                if back is not None:
                    res["written"] = {a: v for a, v in zip(ID_ATTRS, ids) if v is not None}
                    res["read_back"] = {a: getattr(back, a) for a in ID_ATTRS if getattr(back, a) is not None}
    return res
