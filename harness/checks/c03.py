"""C03 — any edit history leaves each table equal to a plain grid, before and after save."""
from __future__ import annotations

import itertools
import multiprocessing as mp
import os
import random
import tempfile
from collections import Counter

import common
from common import Ctx, exc_name
from gridsim import RefGrid, Tokens, apply_op, enc_op, observe, show_obs, well_formed

PID = "C03"
PROPS_MODULE = "NumbersModel.Props.C03"
THEOREMS = [f"NumbersModel.Props.C03.{t}" for t in (
    "wf_init", "abs_init", "wf_step", "refines", "ok_only_if_valid", "invalid_raises_IndexError", "valid_succeeds",
    "wf_reachable", "wf_reachable_from", "refines_history", "isolation", "structural_ops_pure", "save_pure",
    "saved_grid_reopens", "wf_doc_step", "cache_key_injective", "memo_transparent")] + [
    # the argument checks of the four structural edits as py2lean regenerates them from document.py on every run
    f"NumbersModel.Props.C03.Src.{t}" for t in ("src_add_row_args", "src_add_column_args", "src_delete_row_args",
                                                 "src_delete_column_args", "src_edit_refused_early", "src_memo_call", "src_memo_hit")] + [
    f"NumbersModel.Translated.{t}" for t in ("add_row_args_eq_model", "add_column_args_eq_model", "delete_row_args_eq_model",
                                              "delete_column_args_eq_model", "cache_inner_eq_model")]
TRANSLATED_GROUPS = ("Edit", "Cache")
PARTIAL = {
    "memo_transparent": "proved for integer key arguments and pure methods (Model/Cache.lean); that the decorated methods "
    "of model.py are pure between invalidations is exercised by the interleaved multi-table histories, not proved",
    "save_pure": "the document-level `save` step of the grid model is the identity on the open grids (that is all this "
    "theorem says). What the saved file contains is `saved_grid_reopens`: for every well-formed state (hence every "
    "reachable one) whose cells are storable, saveTable (recalculate_table_data) followed by loadTable (Table.__init__) "
    "returns the plain grid `abs s` cell by cell with num_rows x num_cols cells - a theorem over Model/TablePipeline "
    "(C01 table_roundtrip). Still only exercised (save/reopen steps of the lock-step histories): that the value token of "
    "the grid model corresponds to the storage-level cell (Cell._from_value / Cell.value, C01's oracle), and the "
    "zip / IWA / protobuf layers (C05)",
}
RULE = ("one case = one history (request line). Exhaustive part: every sequence of length <= 2 (quick) / <= 3 (thorough) "
        "over the 27-operation menu on new 1x1, 2x2 and 2x3 tables (quick adds a seeded sample of length-3 sequences); "
        "seeded part: long histories (20..200 steps) over several tables / sheets / documents with save, reopen and "
        "repeat-save steps, including documents loaded with content. All distinct histories are counted as "
        "non-trivial (every one contains at least one accepted edit or one rejected edit whose atomicity is checked).")
MANIFEST = {
    "text": "Full for the in-memory part: Lean theorems over an executable model of Table.write/_validate_cell_coords/"
            "add_row/add_column/delete_row/delete_column (slice semantics, renumbering loops, default fills transcribed "
            "statement by statement) prove, for ALL arguments and ALL histories (no bound): wf_step (a step raises or "
            "keeps `num_rows/num_cols == shape of _data` and `cell.row/col == position`), refines (a successful step is "
            "the plain-list operation), invalid_raises_IndexError / valid_succeeds (exact acceptance domain), "
            "wf_reachable, refines_history, isolation. Tied to the code by lock-step histories on the real API "
            "(bounded-exhaustive + seeded long histories with save/reopen across tables, sheets and documents) compared "
            "step by step with the compiled model and with an independent plain-grid oracle. Persisting: "
            "saved_grid_reopens - for every well-formed table state with >= 1 row inside the library's limits whose cells are "
            "storable, the table written by recalculate_table_data and rebuilt by Table.__init__ (Model/TablePipeline, C01 "
            "table_roundtrip) is the plain grid abs s, cell by cell, with exactly num_rows x num_cols cells; together with "
            "refines_history: open, edit by any accepted history, save, reopen = the plain-grid fold of the history. The "
            "file layers below the TST objects (protobuf / IWA / zip) and value <-> cell conversion are checked by the "
            "histories' save/reopen steps, not proved (C05, C01). The argument checks of add_row / add_column / delete_row / "
            "delete_column (everything before the first mutation) are additionally TRANSLATED from document.py on every run "
            "(harness/py2lean.py -> Gen/TrEdit.lean); each model operation is proved to be the translated prefix followed by "
            "the rest of the operation (Lemmas/TrEdit.lean), their acceptance domain is stated in closed form over the "
            "translation (Props.C03.Src.src_*_args, src_edit_refused_early), and the translated checks are run against the "
            "real methods for every count and start in -2..size+2 (trdriver). The memoising wrapper of numbers_cache.py "
            "(cache.cache_decorator.inner_multi_args, the instance dict threaded as a state variable) is translated as well "
            "(Gen/TrCache.lean) and proved to return what the model's memoCall returns and to leave the same store content "
            "(Lemmas/TrCache.lean; Props.C03.Src.src_memo_call, src_memo_hit).",
    "note": "fixes/C03-edit-counts.patch and fixes/C03-negative-coords.patch repair genuine defects found by the check "
            "(out-of-range counts corrupt num_rows/num_cols vs data; write(-1, 0, v) stores a cell that reports row -1).",
    "technique": "Lean 4 proof (loop invariants, induction over histories, refinement to a list-of-lists spec; argument "
                 "checks of the four structural edits proved equal to their translation from the Python source) + "
                 "lock-step differential correspondence + reference-grid oracle",
}
ASSUMPTIONS = [
    "every Cell object in Table._data is created for exactly one position (no aliasing), so `cell.row = r` is modelled "
    "as an update of the cell stored at that index",
    "Cell._from_value / cell.value are modelled as an opaque value token (values used survive unchanged; C01)",
    "the document-level model treats Document.save / Document(path) as the identity on grids (checked on every save/reopen "
    "step); the table-level content of the file is Model/TablePipeline (saved_grid_reopens; its correspondence lives in "
    "checks/c01.py and checks/c02.py)",
]

MENU_SIZE = 27
CORPUS = [("dr", 2, 2), ("dr", 0, None), ("dc", 0, None), ("ar", -1, None, None), ("dr", 5, None), ("dr", 3, None),
          ("dc", 3, None), ("dc", 5, None), ("dc", 2, 2), ("dr", -1, None), ("dr", -1, 1), ("dc", -1, None),
          ("ac", -1, None, None), ("ar", 2, 1, 9), ("ac", 2, 1, 9), ("w", -1, 0, 5), ("w", 0, -1, 5), ("w", 3, 3, 5),
          ("ar", 1, 3, None), ("ac", 1, -1, None), ("dr", 1, 2), ("dc", 2, 1)]


def menu(nr: int, nc: int):
    """27 operations, parameters relative to the *initial* shape (so later in a history the same
    operation is at the end / in the middle / past the end depending on what happened before)."""
    lr, lc = nr - 1, nc - 1
    return [
        ("w", 0, 0, 1), ("w", lr, lc, 2), ("w", nr, nc, 3), ("w", nr, 0, 4), ("w", -1, 0, 5),
        ("ar", 1, None, None), ("ar", 2, 0, None), ("ar", 1, lr, 6), ("ar", 1, nr, None), ("ar", 0, None, None),
        ("ar", -1, None, None),
        ("ac", 1, None, None), ("ac", 2, 0, 7), ("ac", 1, lc, None), ("ac", -1, 0, None), ("ac", 1, -1, None),
        ("dr", 1, None), ("dr", 1, 0), ("dr", 2, lr), ("dr", 0, None), ("dr", nr, None), ("dr", nr + 2, None),
        ("dc", 1, None), ("dc", 1, 0), ("dc", 2, lc), ("dc", 0, None), ("dc", -1, None),
    ]


# ---------------------------------------------------------------------------------------------
# scenario executor (runs in worker processes; returns plain data)
# ---------------------------------------------------------------------------------------------

class Runner:
    """Executes a scenario on the real API in lock-step with the reference grids."""

    def __init__(self, init, replay_prefix=None):
        # init: list of documents; a document = {"shape": (nr, nc), "prefill": [(r, c, tok)...]}
        from numbers_parser import Document
        self.Document = Document
        self.tokens = Tokens()
        self.docs = []          # {"doc": Document, "closed": [(Document, obs list)]}
        self.tables = []        # global index -> (doc_id, sheet_idx, table_idx)
        self.refs: list[RefGrid] = []
        self.violations = []
        self.steps_out = []
        self.words = []
        self.history = []       # JSON-able ops so far (for replays)
        self.hist = Counter()   # (operation, plain-grid class, outcome) -> count
        self.init = init
        self.tmpdir = tempfile.mkdtemp(prefix="c03_")
        self.nfile = 0
        self.names = 0
        header = []
        for d, spec in enumerate(init):
            nr, nc = spec["shape"]
            doc = Document(num_rows=nr, num_cols=nc)
            pre = spec.get("prefill") or []
            if pre:
                t = doc.sheets[0].tables[0]
                for r, c, tok in pre:
                    t.write(r, c, Tokens.value(tok))
                path = self.path()
                doc.save(path)
                doc = Document(path)          # a *loaded* document with content
                os.remove(path)
            self.docs.append({"doc": doc, "closed": []})
            self.tables.append((d, 0, 0))
            o = observe(self.table(len(self.tables) - 1), self.tokens)
            self.refs.append(RefGrid(o[0], o[1], [[t for t, _, _ in row] for row in o[2]]))
            if pre:
                header.append(f"{o[0]} {o[1]} 1 " + " ".join(str(t) for row in o[2] for t, _, _ in row))
            else:
                header.append(f"{o[0]} {o[1]} 0")
        self.header = f"grid hist {len(init)} " + " ".join(header)

    def path(self):
        self.nfile += 1
        return os.path.join(self.tmpdir, f"d{self.nfile}.numbers")

    def table(self, g):
        d, si, ti = self.tables[g]
        return self.docs[d]["doc"].sheets[si].tables[ti]

    def obs_all(self):
        return [observe(self.table(g), self.tokens) for g in range(len(self.tables))]

    def viol(self, sig, what):
        self.violations.append({"signature": sig, "what": what,
                                "input": {"init": self.init, "ops": list(self.history)}})

    def emit(self, status, post):
        self.steps_out.append(status + "=" + ";".join(show_obs(o) for o in post))

    def check_others(self, pre, post, g, label):
        for j, (a, b) in enumerate(zip(pre, post)):
            if j != g and a != b:
                self.viol("isolation", f"{label} on table {g} changed table {j}: {show_obs(a)} -> {show_obs(b)}")

    # -- one step -------------------------------------------------------------------------------
    def step(self, sop):
        self.history.append(list(sop))
        kind = sop[0]
        pre = self.obs_all()
        if kind == "edit":
            _, g, op = sop
            op = tuple(op)
            self.words.append(enc_op(op, g))
            ref = self.refs[g]
            cls = ref.classify(op)
            label = f"{op}"
            try:
                apply_op(self.table(g), op)
                status = "ok"
            except Exception as e:  # noqa: BLE001
                status = "err:" + exc_name(e)
            post = self.obs_all()
            self.hist[f"{op[0]}:{cls}:{status}"] += 1
            self.check_others(pre, post, g, label)
            bad = well_formed(post[g])
            if bad:
                self.viol(f"wf:{op[0]}", f"after {label} ({status}) on {ref.show()}: {bad}; table is {show_obs(post[g])}")
            if status == "ok":
                if cls == "invalid":
                    # no plain-grid meaning: only well-formedness can be demanded; resynchronise
                    self.refs[g] = RefGrid(post[g][0], post[g][1], [[t for t, _, _ in row] for row in post[g][2]])
                else:
                    ref.apply(op)
                    if not ref.matches(post[g]) and not bad:
                        self.viol(f"grid:{op[0]}", f"after {label}: table {show_obs(post[g])} != plain grid {ref.show()}")
                        self.refs[g] = RefGrid(post[g][0], post[g][1], [[t for t, _, _ in row] for row in post[g][2]])
            else:
                if post[g] != pre[g]:
                    self.viol(f"error-mutates:{op[0]}",
                              f"{label} raised {status[4:]} but changed the table: {show_obs(pre[g])} -> {show_obs(post[g])}")
                    self.refs[g] = RefGrid(post[g][0], post[g][1], [[t for t, _, _ in row] for row in post[g][2]])
                elif cls == "valid":
                    self.viol(f"raise:{op[0]}", f"{label} on {ref.show()} raised {status[4:]}")
            self.emit(status, post)
        elif kind in ("at", "as"):
            nr, nc = sop[-2], sop[-1]
            self.words.append(f"at {nr} {nc}")
            self.names += 1
            try:
                if kind == "at":
                    _, d, si, _, _ = sop
                    self.docs[d]["doc"].sheets[si].add_table(f"NewTable{self.names}", num_rows=nr, num_cols=nc)
                    entry = (d, si, len(self.docs[d]["doc"].sheets[si].tables) - 1)
                else:
                    _, d, _, _ = sop
                    self.docs[d]["doc"].add_sheet(f"NewSheet{self.names}", num_rows=nr, num_cols=nc)
                    entry = (d, len(self.docs[d]["doc"].sheets) - 1, 0)
            except Exception as e:  # noqa: BLE001
                self.viol(f"structure-raises:{kind}", f"adding a {nr}x{nc} table raised {exc_name(e)}: {e}")
                self.emit("err:" + exc_name(e), self.obs_all())
                return
            self.tables.append(entry)
            self.refs.append(RefGrid(nr, nc))
            post = self.obs_all()
            self.check_others(pre, post[:-1], -1, kind)
            if well_formed(post[-1]) or not self.refs[-1].matches(post[-1]):
                self.viol(f"new-table:{kind}", f"new {nr}x{nc} table is {show_obs(post[-1])}")
            self.emit("ok", post)
        elif kind in ("rn", "rs"):
            self.names += 1
            self.words.append(f"rn {sop[1]}" if kind == "rn" else "rn 0")
            try:
                if kind == "rn":
                    self.table(sop[1]).name = f"Renamed{self.names}"
                else:
                    self.docs[sop[1]]["doc"].sheets[sop[2]].name = f"RenamedSheet{self.names}"
            except Exception as e:  # noqa: BLE001
                self.viol(f"structure-raises:{kind}", f"rename raised {exc_name(e)}: {e}")
            post = self.obs_all()
            self.check_others(pre, post, -1, kind)
            self.emit("ok", post)
        elif kind == "sv":
            _, d, reopen, twice = sop
            self.words.append("sv")
            doc = self.docs[d]["doc"]
            mine = [g for g, (dd, _, _) in enumerate(self.tables) if dd == d]
            paths = [self.path()] + ([self.path()] if twice else [])
            try:
                for p in paths:
                    doc.save(p)
                    mid = self.obs_all()
                    if mid != pre:
                        self.viol("save-mutates", "Document.save changed the open document(s): " +
                                  "; ".join(f"{show_obs(a)} -> {show_obs(b)}" for a, b in zip(pre, mid) if a != b))
                for p in paths:
                    new = self.Document(p)
                    got = []
                    for g in mine:
                        _, si, ti = self.tables[g]
                        try:
                            got.append(observe(new.sheets[si].tables[ti], self.tokens))
                        except IndexError:
                            got.append(None)
                    want = [pre[g] for g in mine]
                    if got != want:
                        self.viol("reload", "reopened file differs from the open document: " + "; ".join(
                            f"table {g}: open {show_obs(a)} reopened {show_obs(b) if b else 'missing'}"
                            for g, a, b in zip(mine, want, got) if a != b))
                    elif reopen and p == paths[-1]:
                        self.docs[d]["closed"].append((doc, [pre[g] for g in mine], mine))
                        self.docs[d]["doc"] = new
            except Exception as e:  # noqa: BLE001
                self.viol("save-raises", f"save/reopen raised {exc_name(e)}: {e}")
            finally:
                for p in paths:
                    if os.path.exists(p):
                        os.remove(p)
            self.emit("ok", self.obs_all())
        else:
            raise AssertionError(sop)

    def finish(self):
        # documents left behind by a reopen must not have been touched by later edits
        for d in self.docs:
            for old, obs, mine in d["closed"]:
                now = []
                for g in mine:
                    _, si, ti = self.tables[g]
                    now.append(observe(old.sheets[si].tables[ti], self.tokens))
                if now != obs:
                    self.viol("isolation-documents", "edits on a reopened copy changed the document still open")
        try:
            os.rmdir(self.tmpdir)
        except OSError:
            pass
        return {"request": self.header + " " + " ".join(self.words), "impl": "ok " + "|".join(self.steps_out),
                "violations": self.violations, "hist": dict(self.hist)}


def run_scenario(job):
    init, ops = job
    r = Runner(init)
    for sop in ops:
        r.step(sop)
    return r.finish()


def gen_edit(rng: random.Random, ref: RefGrid):
    nr, nc = ref.nr, ref.nc
    x = rng.random()
    big_r, big_c = nr > 11, nc > 9
    if x < 0.34:
        r = rng.choice([rng.randrange(0, max(nr, 1)), nr, nr + 1] if rng.random() < 0.25 and not big_r else [rng.randrange(0, max(nr, 1))])
        c = rng.choice([rng.randrange(0, max(nc, 1)), nc, nc + 1] if rng.random() < 0.25 and not big_c else [rng.randrange(0, max(nc, 1))])
        y = rng.random()
        if y < 0.03:
            r = -rng.randrange(1, 3)
        elif y < 0.05:
            c = -1
        elif y < 0.06:
            r = 1_000_000
        elif y < 0.07:
            c = 1_000
        return ("w", r, c, rng.randrange(1, 13))
    kind = rng.choice(["ar", "ac", "dr", "dc"])
    if kind == "ar" and big_r:
        kind = "dr"
    if kind == "ac" and big_c:
        kind = "dc"
    if kind == "dr" and nr < 2 and rng.random() < 0.7:
        kind = "ar"
    if kind == "dc" and nc < 2 and rng.random() < 0.7:
        kind = "ac"
    dim = nr if kind in ("ar", "dr") else nc
    n = rng.choice([1, 1, 1, 1, 2, 2, 3, 0, -1] + ([dim, dim + 1, dim - 1] if kind[0] == "d" else []))
    y = rng.random()
    if y < 0.4:
        start = None
    elif y < 0.9 and dim > 0:
        start = rng.choice([0, dim - 1, rng.randrange(0, dim)])
    else:
        start = rng.choice([dim, -1, dim + 2])
    if kind[0] == "a":
        return (kind, n, start, rng.randrange(1, 13) if rng.random() < 0.4 else None)
    return (kind, n, start)


def gen_long(seed: int, length: int):
    """A seeded long scenario: plan the steps against reference grids only (no library call)."""
    rng = random.Random(seed)
    ndocs = rng.choice([1, 1, 2, 3])
    init = []
    for _ in range(ndocs):
        nr, nc = rng.choice([(1, 1), (2, 2), (2, 3), (3, 3), (5, 4), (12, 8), (1, 6), (7, 1)])
        spec = {"shape": [nr, nc]}
        if rng.random() < 0.4:
            spec["prefill"] = [[rng.randrange(nr), rng.randrange(nc), rng.randrange(1, 13)] for _ in range(rng.randrange(1, 8))]
        init.append(spec)
    # planning mirror (reference grids only; used to pick plausible arguments)
    refs = []
    for spec in init:
        g = RefGrid(*spec["shape"])
        for r, c, t in spec.get("prefill") or []:
            g.cells[r][c] = t
        refs.append(g)
    sheets = [1] * ndocs
    ops = []
    for _ in range(length):
        x = rng.random()
        if x < 0.86:
            g = rng.randrange(len(refs))
            op = gen_edit(rng, refs[g])
            if refs[g].classify(op) == "valid":   # boundary edits: the fixed library refuses or does nothing
                refs[g].apply(op)
            ops.append(["edit", g, list(op)])
        elif x < 0.89 and len(refs) < 7:
            d = rng.randrange(ndocs)
            nr, nc = rng.choice([(1, 1), (2, 2), (3, 2), (4, 5)])
            if rng.random() < 0.6:
                ops.append(["at", d, rng.randrange(sheets[d]), nr, nc])
            else:
                ops.append(["as", d, nr, nc])
                sheets[d] += 1
            refs.append(RefGrid(nr, nc))
        elif x < 0.92:
            ops.append(["rn", rng.randrange(len(refs))] if rng.random() < 0.6 else
                       ["rs", (d := rng.randrange(ndocs)), rng.randrange(sheets[d])])
        else:
            ops.append(["sv", rng.randrange(ndocs), rng.random() < 0.6, rng.random() < 0.25])
    return init, ops


def _pool():
    n = max(1, min(12, (os.cpu_count() or 2) - 2))
    return mp.get_context("fork").Pool(n)


def _collect(ctx: Ctx, name: str, results, exhaustive: bool):
    req = [r["request"] for r in results]
    out = [r["impl"] for r in results]
    per_sig = Counter(v["signature"] for v in ctx.violations)
    for r in results:
        for v in r["violations"]:
            per_sig[v["signature"]] += 1
            if per_sig[v["signature"]] <= 3:          # a few replays per failure class are enough
                ctx.violation(v["signature"], v["what"], v["input"])
        for k, n in r["hist"].items():
            ctx.histogram["step " + k] += n
    ctx.correspond(name, req, out, exhaustive=exhaustive, keep=2)



def cache_correspondence(ctx: Ctx):
    """numbers_cache.cache on a real Cacheable instance vs Model/Cache.lean (keys, results, number of misses)."""
    from numbers_parser.numbers_cache import Cacheable, cache
    rng = ctx.rng
    req, out = [], []
    # argument tuples whose decimal texts run into each other unless the key keeps them apart (1|12 vs 11|2, -1|2 vs -12, ...)
    fixed = [[(1, 12), (11, 2), (1, 12)], [(11, 2), (1, 12)], [(1, 23, 4), (12, 3, 4), (1, 2, 34)], [(10, 0), (1, 0), (100, 0)],
             [(1, -1), (1, 1)], [(0, 0), (0,) * 2, (0, 10), (1, 0)], [(12,), (1,), (2,)]]
    for it in range((400 if ctx.quick else 20000) + len(fixed)):
        if it < len(fixed):
            calls = fixed[it]
            n = len(calls[0])
        else:
            n = rng.randrange(1, 4)
            pool = [rng.choice([0, 1, -1, 2, 10, 12, -3, 100, 65536, -65536, 10**9]) for _ in range(4)]
            calls = [tuple(rng.choice(pool) for _ in range(n)) for _ in range(rng.randrange(1, 9))]
        misses = []

        class T(Cacheable):
            @cache(num_args=n)
            def m(self, *a):
                misses.append(a)
                return sum(x * x + i for i, x in enumerate(a))

        t = T()
        vals = [t.m(*a) for a in calls]
        req.append(f"cache calls {n} " + " ".join(str(x) for a in calls for x in a))
        out.append("ok " + " ".join(map(str, vals)) + f" | {len(misses)}")
        for a, v in zip(calls, vals):
            if v != sum(x * x + i for i, x in enumerate(a)):
                ctx.violation("memo-returns-other-call's-value", f"cached method called with {a} returned {v}", {"calls": calls, "n": n})
        for a in set(calls):
            req.append("cache key " + " ".join(map(str, a)))
            k = ".".join(str(x) for x in a)
            out.append(("ok " + common.enc_text(k)) if k in t._cache["m"] else "ok <missing>")
    ctx.correspond("numbers_cache: memo keys, results and miss counts on a real Cacheable", req, out, translated=True)


def translated_source_stream(ctx: Ctx):
    """add_row / add_column / delete_row / delete_column on real tables filled with distinct values, every count and start
    in -2 .. size+2 (and None), vs the argument checks py2lean translated from document.py.  The start row / column an
    accepted add used is read off the table (position of the first new empty cell)."""
    import common
    from numbers_parser import Document
    req, out = [], []
    for nr, nc in ((1, 1), (2, 3), (3, 2)):
        for op in ("addrow", "addcol", "delrow", "delcol"):
            size = nr if op.endswith("row") else nc
            for n in range(-2, size + 3):
                for st in [None] + list(range(-2, size + 3)):
                    doc = Document(num_header_rows=0, num_header_cols=0, num_rows=nr, num_cols=nc)
                    t = doc.sheets[0].tables[0]
                    for r in range(nr):
                        for c in range(nc):
                            t.write(r, c, 1 + r * nc + c)
                    before = [[cell.value for cell in row] for row in t.rows()]
                    req.append(f"edit {op} {size} {n} {'n' if st is None else st}")
                    try:
                        getattr(t, {"addrow": "add_row", "addcol": "add_column", "delrow": "delete_row", "delcol": "delete_column"}[op])(n, st)
                    except Exception as e:  # noqa: BLE001
                        out.append("err " + exc_name(e))
                        after = [[cell.value for cell in row] for row in t.rows()]
                        if after != before or (t.num_rows, t.num_cols) != (nr, nc):
                            ctx.violation("refused-edit-changed-table", f"{op}({n}, {st}) on {nr}x{nc} raised {exc_name(e)} and left {after}",
                                          {"shape": [nr, nc], "op": op, "n": n, "start": st})
                        continue
                    vals = [[cell.value for cell in row] for row in t.rows()]
                    if op == "addrow":
                        new = [i for i, row in enumerate(vals) if all(v is None for v in row)]
                        out.append(f"ok {new[0] if new else (nr if st is None else st)}")
                    elif op == "addcol":
                        new = [j for j in range(len(vals[0])) if all(row[j] is None for row in vals)]
                        out.append(f"ok {new[0] if new else (nc if st is None else st)}")
                    else:
                        out.append("ok ")
    common.translated_only_stream(ctx, "add_row / add_column / delete_row / delete_column: every count and start in -2..size+2 "
                                       "on 1x1, 2x3, 3x2 tables vs the argument checks translated from the source", req, out,
                                  exhaustive=True)


def run(ctx: Ctx):
    rng = ctx.rng
    translated_source_stream(ctx)
    shapes = [(1, 1), (2, 2), (2, 3)]
    with _pool() as pool:
        # --- corpus: the out-of-range counts of DESIGN.md section 6 / C03 on a 3x3 table, and past minimised failures
        res = pool.map(run_scenario, [([{"shape": [3, 3], "prefill": [[r, c, 1 + 3 * r + c] for r in range(3) for c in range(3)]}],
                                       [["edit", 0, list(op)]] + [["sv", 0, True, False]]) for op in CORPUS], chunksize=1)
        _collect(ctx, "corpus: out-of-range counts / negative coordinates on a filled 3x3 table, then save + reopen", res,
                 exhaustive=True)
        # --- bounded-exhaustive short histories -------------------------------------------------
        full_len = 2 if ctx.quick else 3
        jobs = []
        for nr, nc in shapes:
            m = menu(nr, nc)
            init = [{"shape": [nr, nc]}]
            for n in range(1, full_len + 1):
                for seq in itertools.product(m, repeat=n):
                    jobs.append((init, [["edit", 0, list(op)] for op in seq]))
        res = pool.map(run_scenario, jobs, chunksize=64)
        _collect(ctx, f"all histories of length <= {full_len} over the {MENU_SIZE}-operation menu on 1x1, 2x2, 2x3 tables",
                 res, exhaustive=True)
        if ctx.quick:
            jobs = []
            for nr, nc in shapes:
                m = menu(nr, nc)
                init = [{"shape": [nr, nc]}]
                for _ in range(1500):
                    seq = [rng.choice(m) for _ in range(3)]
                    jobs.append((init, [["edit", 0, list(op)] for op in seq]))
            res = pool.map(run_scenario, jobs, chunksize=64)
            _collect(ctx, "seeded sample of length-3 histories over the menu", res, exhaustive=False)

        # --- tall, sparse tables: whole 256-row storage blocks that were never written ------------
        SV = ["sv", 0, True, False]
        tall = [
            ([{"shape": [2, 3]}], [["edit", 0, ["w", 300, 2, 5]], SV, ["edit", 0, ["w", 600, 0, 6]], SV]),
            ([{"shape": [400, 2]}], [["edit", 0, ["w", 399, 1, 3]], ["edit", 0, ["w", 256, 0, 4]], SV, ["sv", 0, False, True]]),
            ([{"shape": [3, 2], "prefill": [[0, 0, 1], [1, 1, 2], [2, 0, 3]]}], [["edit", 0, ["ar", 256, 0, None]], SV,
                                                                              ["edit", 0, ["ar", 300, 1, None]], SV]),
            ([{"shape": [600, 1]}], [["edit", 0, ["w", 0, 0, 7]], ["edit", 0, ["w", 599, 0, 8]], SV]),
            ([{"shape": [513, 2]}], [["edit", 0, ["w", 512, 1, 9]], SV, ["edit", 0, ["dr", 1, 0]], SV]),
            ([{"shape": [2, 2]}], [["edit", 0, ["w", 255, 0, 1]], ["edit", 0, ["w", 256, 1, 2]], SV,
                                   ["edit", 0, ["w", 1023, 0, 3]], SV, ["edit", 0, ["dr", 200, 300]], SV]),
            ([{"shape": [2, 2]}], [["at", 0, 0, 300, 2], ["edit", 1, ["w", 299, 1, 4]], SV, ["edit", 1, ["w", 700, 0, 5]], SV]),
            ([{"shape": [1, 1]}], [["edit", 0, ["w", 768, 0, 2]], SV, ["edit", 0, ["w", 10, 0, 3]], SV]),
        ]
        res = pool.map(run_scenario, tall, chunksize=1)
        _collect(ctx, "tall sparse tables: 256-row blocks never written, rows inserted above data, second table; save + reopen",
                 res, exhaustive=True)

        # --- seeded long histories ---------------------------------------------------------------
        nlong = 16 if ctx.quick else 120
        jobs = []
        for i in range(nlong):
            length = rng.choice([20, 40, 60, 100, 200]) if i % 4 else 200
            jobs.append(gen_long(rng.randrange(1 << 30), length))
        res = pool.map(run_scenario, jobs, chunksize=1)
        _collect(ctx, "seeded long histories (20..200 steps; several tables, sheets, documents; save / reopen / repeat-save)",
                 res, exhaustive=False)
        ctx.extra["long_history_steps"] = sum(len(j[1]) for j in jobs)
    cache_correspondence(ctx)


def replay(data):
    i = data.get("input", {})
    r = Runner(i["init"])
    for sop in i["ops"]:
        r.step(sop)
    out = r.finish()
    return {"steps": out["impl"][3:].split("|"), "violations": [{k: v[k] for k in ("signature", "what")} for v in out["violations"]]}
