"""C02 — Re-saving an unmodified document preserves everything the library reads."""
from __future__ import annotations

import os
import shutil
import tempfile
import warnings

import common
from common import REPO, Ctx, enc_text, exc_name

PID = "C02"
PROPS_MODULE = "NumbersModel.Props.C02"
THEOREMS = [f"NumbersModel.Props.C02.{t}" for t in (
    "record_resave", "record_resave_twice", "strings_resave", "strings_keys_faithful", "rows_resave", "tiles_resave",
    "table_resave_idempotent", "table_resave_stable",
    "document_resave_identity", "document_resave_stable", "document_resave_any_number", "opened_after_load",
    "table_state_resave", "merge_state_resave", "hypotheses_satisfiable")]
PARTIAL = {
    "rich_text_opaque": "bullets / hyperlinks / the text of a rich-text cell are ONE opaque token per rich-text id in Model/Document.lean "
                        "(`TableSt.rich`), carried unchanged through saveDoc / loadDoc: `table_rich_text` has no component model or "
                        "reload theorem, so document_resave_identity says 'the cell names the same rich-text payload', and that the "
                        "payload reads the same is the dump comparison (exploration) and the `doc` correspondence stream",
    "lists_not_rewritten_assumed": "the formula list, the format list and the rich-text list are modelled as handed on unchanged by a "
                                   "save of an unmodified document (the archives stay in the object store); this is tied to the code by "
                                   "the `doc resave` stream and by the self-test mutations, not proved from a model of the protobuf / "
                                   "IWA / zip layers (C05, C07), which saveDoc / loadDoc do not compose",
    "value_interpretation_assumed": "`repr(cell.value)` is compared through the payload bytes and the text: that equal bytes decode to "
                                    "equal Python values, and that re-packing the interpreted value returns the bytes read (payloads in "
                                    "the packers' canonical form), are third-party laws (C01 d128_roundtrip / struct), parameters "
                                    "`Env.interp` / `Env.refText` of `dump`",
    "accessor_modes_by_oracle_only": "the quantifier 'whether or not read-only accessors were called before saving' is covered by the "
                                     "whole-document oracle (cycle(), both modes); the model has no accessor-dependent state, style ids "
                                     "travel in the cell record but `dump` does not read styles / borders / row heights (C15, C17)"}
RULE = ("every readable fixture under tests/data (quick: a fixed sample of 20 chosen to cover all cell kinds, formulas, bullets, "
        "hyperlinks, merges, custom formats, packages), the bundled template, the corpus and API-generated documents: dump -> save -> "
        "open -> dump -> save -> open -> dump, with and without calling read-only accessors (formula, formatted_value, style, border, "
        "row_height) before saving; for each of these documents the composed model (Model/Document.lean) on the state read from the "
        "REAL open document by the harness's own readers: `doc dump` vs the real dump, `doc resave` vs the real dump of the re-opened "
        "copy, `doc resave2` vs the real dump after the second cycle (cells outside fmtglue's display domain / formulas with nodes the "
        "encoder does not know are printed `U` on both sides, tables over the tier's cell budget `P`; both counted in "
        "coverage.document_model); plus string-table histories (init + lookup_key sequences on a real document vs the model) and, "
        "for every table of opened fixtures / generated documents, the TST objects of the re-saved file vs saveTable on the cells "
        "as read, and the re-opened grid vs loadTable (Model/TablePipeline). "
        "A case is non-trivial if the document has at least one non-empty cell; distinct by (document, accessor mode)")
ASSUMPTIONS = ["the dump is what 'the library reads': sheet/table names and order and, per cell, class, repr(value), formula, "
               "formatted_value, bullets, hyperlinks, merge state; cells of class ErrorCell and pivot tables are excluded as the "
               "property says (Model/Document.lean: `Writable`, `TableSt.pivot`)",
               "documents that do not open (encrypted, invalid, unsupported version) are outside the domain",
               "Opened (Lemmas/Document.lean) is what an open document satisfies: TreeOK (distinct identifiers, table infos listed by "
               "their sheet, file segments = store), per table C01 table_roundtrip's hypotheses, MergeAgrees and MergeOK; "
               "opened_after_load proves Document(path) re-establishes it after a save, the first open is assumed to"]
MANIFEST = {
    "text": "Core proved by composition, glue assumed: document_resave_identity (for an Opened and Writable document, open -> save -> "
            "open shows the same sheets in the same order, per sheet the same tables in the same order and, per table, the same "
            "dimensions, merge ranges and cell by cell the same class, value bytes / text, formula text, formatted value, rich-text "
            "token and merge flag / placeholder range), document_resave_stable and document_resave_any_number (a second, and any "
            "further, cycle changes nothing), opened_after_load (Document(path) re-establishes Opened and Writable, so later cycles "
            "need no extra hypothesis) over Model/Document.lean, which COMPOSES the component models: DocTree (C19 order_after_reload "
            "machinery: tableIds_perm, serialise_perm), TablePipeline (C01 table_roundtrip: load_save_rel, reread_valid), Merge (C12 "
            "get_load_pack), Formula.formulaText (C08) and FormatDispatch.formattedValue (C13/C14) as the readers of the formula and "
            "format lists. hypotheses_satisfiable: a two-sheet, three-table document with a merge, a shared formula, a currency "
            "format, strings, a rich cell and a date is Opened and Writable. The layer theorems stay: table_resave_idempotent / "
            "table_resave_stable, record_resave(_twice), strings_resave, strings_keys_faithful, rows_resave, tiles_resave.",
    "note": "glue assumed (PARTIAL): rich text is an opaque token per id; the formula / format / rich-text lists are taken as not "
            "rewritten by a save (tied by the `doc resave` stream); the interpretation of payload bytes and of reference nodes are "
            "parameters of dump; protobuf / IWA / zip layers are not composed (C05, C07). "
            "recell (the in-memory cell after a reopen) keeps the payload bytes that were read: the real re-save re-packs the "
            "interpreted value, which gives the same bytes for payloads in the packers' canonical form (those this library "
            "wrote: C01 d128_roundtrip / struct) - for other encodings of the same number the value is preserved, the bytes need "
            "not be. The extras byte may gain bit 0x80 once (a text cell built by the API has no _string_id, a reopened one has).",
    "technique": "Lean 4 composition theorems (document = DocTree + per table TablePipeline / Merge / formula, format, rich lists; "
                 "C04/C01 layers + string table) + differential correspondence of the composed model against real opened documents "
                 "(`doc dump / resave / resave2`: state read by independent readers), of the string table and of re-saved tables "
                 "(real TST objects vs saveTable / loadTable) + whole-document dump comparison (oracle)",
}

QUICK_DOCS = ["test-1.numbers", "test-2.numbers", "test-3.numbers", "test-formats.numbers", "test-bullets.numbers", "test-hlinks.numbers",
              "test-issue-74.numbers", "test-custom-formats.numbers", "test-save-1.numbers", "issue-43.numbers", "issue-51.numbers",
              "test-empty-rows.numbers", "test-new-formulas.numbers", "date_formats.numbers", "duration_112.numbers", "test-package.numbers",
              "issue-17.numbers", "issue-18.numbers", "issue-7.numbers", "create-formulas.numbers"]


ACCESSOR_ERRORS: set = set()


CORPUS = common.VERIF / "harness" / "corpus" / "C02"


def dump(doc, touch=False):
    """Everything the library reads, as plain data."""
    from numbers_parser import ErrorCell, MergedCell
    out = []
    for sheet in doc.sheets:
        tabs = []
        for table in sheet.tables:
            if doc._model.is_a_pivot_table(table._table_id):
                tabs.append((table.name, "PIVOT"))
                continue
            rows = []
            for r, row in enumerate(table.rows()):
                cells = []
                for c, cell in enumerate(row):
                    if isinstance(cell, ErrorCell):
                        cells.append("ERRORCELL")
                        continue
                    item = [type(cell).__name__, repr(cell.value)]
                    item.append(cell.formula if cell.is_formula else None)
                    try:
                        item.append(cell.formatted_value)
                    except Exception as e:  # noqa: BLE001  (a formatting failure is compared as such, C13/C14 own it)
                        item.append("EXC:" + exc_name(e))
                    item.append(list(cell.bullets) if cell.is_bulleted else None)
                    item.append(repr(getattr(cell, "hyperlinks", None)))
                    if isinstance(cell, MergedCell):
                        item.append(("placeholder", cell.merge_range))
                    else:
                        item.append(("merged", cell.size) if cell.is_merged else None)
                    if touch:
                        try:
                            _ = cell.style
                            _ = cell.border
                        except Exception as e:  # noqa: BLE001  an accessor failing to read is C15's business, not a re-save effect
                            ACCESSOR_ERRORS.add(exc_name(e) + ": " + str(e)[:60])
                    cells.append(tuple(item))
                if touch:
                    try:
                        _ = table.row_height(r)
                    except Exception as e:  # noqa: BLE001
                        ACCESSOR_ERRORS.add(exc_name(e) + ": " + str(e)[:60])
                rows.append(cells)
            tabs.append((table.name, table.num_rows, table.num_cols, tuple(table.merge_ranges), rows))
        out.append((sheet.name, tabs))
    return out


def first_diff(a, b):
    if len(a) != len(b):
        return f"sheet count {len(a)} -> {len(b)}"
    for sa, sb in zip(a, b):
        if sa[0] != sb[0]:
            return f"sheet name {sa[0]!r} -> {sb[0]!r}"
        if len(sa[1]) != len(sb[1]):
            return f"sheet {sa[0]!r}: table count {len(sa[1])} -> {len(sb[1])}"
        for ta, tb in zip(sa[1], sb[1]):
            if ta[:4] != tb[:4]:
                return f"sheet {sa[0]!r}: table header {ta[:4]!r} -> {tb[:4]!r}"
            if len(ta) > 4:
                for r, (ra, rb) in enumerate(zip(ta[4], tb[4])):
                    for c, (ca, cb) in enumerate(zip(ra, rb)):
                        if "ERRORCELL" in (ca, cb):
                            continue  # formula-error cells are the stated exception: the library warns it cannot write them
                        if ca != cb:
                            return f"sheet {sa[0]!r} table {ta[0]!r} cell ({r},{c}): {ca!r} -> {cb!r}"
    return None


def cycle(task):
    warnings.simplefilter("ignore")
    kind, name, touch = task
    sub = Ctx(PID, "quick", 0)
    from numbers_parser import Document
    inp = {"document": name, "kind": kind, "touch_accessors": touch}
    tmp = tempfile.mkdtemp()
    try:
        try:
            if kind == "generated":
                # the property quantifies over documents that are *opened*: produce with the API, save, then open
                p0 = os.path.join(tmp, "zero.numbers")
                build_generated(name).save(p0)
                doc = Document(p0)
            elif kind == "corpus":
                # documents written by the library on a tree where the checks were silent, kept as files (harness/corpus/C02)
                doc = Document(str(CORPUS / name))
            else:
                doc = Document(str(REPO / "tests/data" / name) if kind == "fixture" else None)
        except Exception as e:  # noqa: BLE001  not a readable document: outside the domain
            sub.notes.append(f"{name}: not readable ({exc_name(e)})")
            return common.sub_result(sub, None)
        d0 = dump(doc, touch)
        nonempty = any(cell != "ERRORCELL" and cell[1] != "None" for s in d0 for t in s[1] if len(t) > 4 for row in t[4] for cell in row)
        p1 = os.path.join(tmp, "one.numbers")
        p2 = os.path.join(tmp, "two.numbers")
        try:
            doc.save(p1)
            d_after_save = dump(doc, False)
            # the same opened Document saved a second time without edits (backup copy / autosave / retry after a failed save)
            p1b = os.path.join(tmp, "one-b.numbers")
            doc.save(p1b)
            d1b = dump(Document(p1b), touch)
            doc1 = Document(p1)
            d1 = dump(doc1, touch)
            doc1.save(p2)
            d2 = dump(Document(p2), False)
        except Exception as e:  # noqa: BLE001
            sub.violation(f"resave-raises-{exc_name(e)}:{name}", f"{name}: open/save cycle raised {exc_name(e)}: {str(e)[:160]}", inp)
            return common.sub_result(sub, None)
        for label, a, b, sig in (("first save/open", d0, d1, "resave-changes-what-is-read"),
                                 ("second save of the same opened document", d0, d1b, "second-save-of-same-document-changes-what-is-read"),
                                 ("second save/open", d1, d2, "second-cycle-changes-what-is-read"),
                                 ("open document after save", d0, d_after_save, "save-changes-open-document")):
            diff = first_diff(a, b)
            if diff:
                sub.violation(sig, f"{name} ({'touching accessors' if touch else 'plain'}), {label}: {diff}", inp)
        for a in sorted(ACCESSOR_ERRORS):
            sub.notes.append(f"{name}: read-only accessor raised {a}")
        ACCESSOR_ERRORS.clear()
        sub.count("documents through two open/save cycles", 1)
        if nonempty:
            sub.mark((name, touch))
        if kind == "template" or name == QUICK_DOCS[0]:
            sub.sample({"document": name, "touch": touch, "sheets": [(s[0], [t[0] for t in s[1]]) for s in d0]})
        return common.sub_result(sub, None)
    finally:
        shutil.rmtree(tmp, ignore_errors=True)


def build_generated(name):
    """API-generated documents (every value type, merges, formats, several tables, tile boundary)."""
    import random
    from datetime import datetime, timedelta

    from numbers_parser import Document
    rng = random.Random(name)
    doc = Document(num_rows=4, num_cols=4)
    tb = doc.sheets[0].tables[0]
    vals = ["text", "", "multi\nline", "𝔘ni😀", True, False, 0, 12, -92, 0.1, 363487.11970321, 1e22, 1.5e-7,
            datetime(2020, 2, 29, 13, 5, 7), datetime(1999, 12, 31, 23, 59, 59), timedelta(days=1, seconds=3), timedelta(seconds=-90.5)]
    n = {"gen-small": 6, "gen-wide": 8, "gen-tall": 300, "gen-multi": 10}.get(name, 6)
    m = 300 if name == "gen-wide" else 6
    for r in range(n):
        for c in range(min(m, 8) if name != "gen-wide" else m):
            if rng.random() < 0.7:
                tb.write(r, c, rng.choice(vals))
    if name in ("gen-multi", "gen-small"):
        tb.merge_cells("B2:C3")
        tb.write(0, 0, 1234.5)
        tb.set_cell_formatting(0, 0, "currency", currency_code="EUR", decimal_places=2)
        t2 = doc.sheets[0].add_table("Second", num_rows=3, num_cols=3)
        t2.write(1, 1, "x")
        if name == "gen-multi":
            t2.merge_cells("A1:B1")   # a merge in a table that is not the first one of its sheet
        doc.add_sheet("Other", "T")
        doc.sheets[1].tables[0].write(0, 0, datetime(2021, 1, 1))
    return doc


def string_table_correspondence(ctx: Ctx):
    """`DataLists.init` + `lookup_key` histories on a real document vs Model/StringTable."""
    from numbers_parser import Document
    rng = ctx.rng
    doc = Document()
    model = doc._model
    tid = doc.sheets[0].tables[0]._table_id
    pool = ["a", "b", "", "A", "a ", "ä", "ä", "😀", "x" * 50, "1", "1.0", "None", "\n", "tab\t"]
    req, out = [], []
    for h in range(300 if ctx.quick else 5000):
        texts = [rng.choice(pool) for _ in range(rng.randrange(0, 14))]
        model.init_table_strings(tid)
        keys = [model.table_string_key(tid, s) for s in texts]
        try:
            back = [model._table_strings.lookup_value(tid, k).string for k in keys]  # table_string() itself is memoised
        except Exception as e:  # noqa: BLE001  a key handed out for a text that is not in the list the save is about to write
            ctx.violation("string-key-does-not-read-back", f"after init_table_strings, table_string_key gave keys {keys} for {texts!r} "
                          f"but looking a key up raises {exc_name(e)}: {e} (history {h} of one model: keys of earlier saves leak)",
                          {"texts": texts, "history": h})
            break
        try:
            entries = [(e.key, e.string) for e in model._table_strings._datalists[tid]["datalist"].entries]
        except Exception:  # noqa: BLE001  (internal shape of DataLists: the model line is only compared while it is there)
            continue
        req.append("strtab intern " + str(len(texts)) + " " + " ".join(enc_text(s) for s in texts))
        out.append("ok " + " ".join(map(str, keys)) + " | " + " ".join(f"{k}:{enc_text(s)}" for k, s in entries))
        if back != texts:
            ctx.violation("string-table-reads-back-other-text", f"interned {texts!r}, keys {keys}, read back {back!r}", {"texts": texts})
    ctx.correspond("string table: init + lookup_key histories on a real document", req, out)


TABLE_DOCS_QUICK = ["test-1.numbers", "test-formats.numbers", "test-bullets.numbers", "test-hlinks.numbers", "issue-43.numbers",
                    "test-empty-rows.numbers", "test-new-formulas.numbers", "duration_112.numbers", "issue-80.numbers",
                    "test-styles.numbers"]


def table_resave_correspondence(ctx: Ctx):
    """open a document, save it, reopen: for every (non-pivot) table the TST objects of the re-saved file vs the model's
    `saveTable` on the in-memory cells *as read* (string ids, formula / format / style ids of the file), and the re-opened
    grid vs `loadTable` on those objects (Model/TablePipeline; helpers shared with checks/c01.py)."""
    import numbers_parser

    from checks import c01
    data = REPO / "tests" / "data"
    names = [n for n in TABLE_DOCS_QUICK if (data / n).exists()] if ctx.quick else sorted(p.name for p in data.glob("*.numbers"))
    req_s, out_s, dsc_s, req_l, out_l, dsc_l = [], [], [], [], [], []
    limit = 6000 if ctx.quick else 60000
    for name in names + ["gen-small", "gen-multi", "gen-tall", "gen-wide"]:
        tmp = tempfile.mkdtemp(prefix="c02t-")
        try:
            try:
                if name.startswith("gen-"):
                    p0 = os.path.join(tmp, "zero.numbers")
                    build_generated(name).save(p0)
                    doc = numbers_parser.Document(p0)
                else:
                    doc = numbers_parser.Document(str(data / name))
                tables = [(si, ti, t) for si, sh in enumerate(doc.sheets) for ti, t in enumerate(sh.tables)
                          if not doc._model.is_a_pivot_table(t._table_id) and t.num_rows * t.num_cols <= limit]
                before = [c01.wide_rows_flag(doc._model, t._table_id) for _, _, t in tables]
                p1 = os.path.join(tmp, "one.numbers")
                doc.save(p1)
                doc1 = numbers_parser.Document(p1)
            except Exception:  # noqa: BLE001  unreadable documents are outside the domain; a failing re-save is reported by cycle()
                continue
            for (si, ti, t), wb in zip(tables, before):
                t1 = doc1.sheets[si].tables[ti]
                objs = c01.saved_objects(doc1._model, t1._table_id)
                req_s.append(c01.save_request(t, wb))
                out_s.append(c01.saved_line(objs))
                dsc_s.append(f"table save <{name} sheet {si} table {ti}: cells as read, {t.num_rows}x{t.num_cols}>")
                mc = doc1._model.merge_cells(t1._table_id)
                refs = sorted(rc for rc in mc._references if mc.is_merge_reference(rc))
                req_l.append(c01.load_request(objs, refs))
                out_l.append(c01.grid_line_impl(t1))
                dsc_l.append(f"table load <{name} sheet {si} table {ti}: TST objects of the re-saved file>")
                ctx.mark(("table-resave", name, si, ti))
        finally:
            shutil.rmtree(tmp, ignore_errors=True)
    c01.correspond_long(ctx, "re-save of an opened document: TST objects of the saved file vs saveTable on the cells as read",
                        req_s, out_s, describe=dsc_s)
    c01.correspond_long(ctx, "re-opened grid vs loadTable on the TST objects of the re-saved file",
                        req_l, out_l, fmap=c01.grid_line_model, describe=dsc_l)


def doc_model_task(task):
    """one document for the document-level model (Model/Document.lean): the state of the REAL open document read by the
    harness's own readers (harness/docstate.py), and the real dumps before the save, after one and after two save / open
    cycles, in the driver's reply format.  Returned as protocol lines; the parent pipes them through `nmdriver`."""
    warnings.simplefilter("ignore")
    kind, name, budget = task
    sub = Ctx(PID, "quick", 0)
    import docstate
    from numbers_parser import Document
    tmp = tempfile.mkdtemp(prefix="c02d-")
    try:
        try:
            if kind == "generated":
                p0 = os.path.join(tmp, "zero.numbers")
                build_generated(name).save(p0)
                doc = Document(p0)
            elif kind == "corpus":
                doc = Document(str(CORPUS / name))
            else:
                doc = Document(str(REPO / "tests/data" / name) if kind == "fixture" else None)
        except Exception:  # noqa: BLE001  unreadable documents are outside the domain
            return common.sub_result(sub, None)
        stats: dict = {}
        # the state is read from the open document BEFORE its save (a save that rewrote one of the lists, or the open
        # document, would otherwise go unnoticed by this stream); the style ids `_to_buffer` assigns during the save are
        # not part of the dump
        body, flags, interner = docstate.state_request("", doc, budget, stats, doc_budget=2 * budget)
        lines = [(f"doc dump {body}", docstate.dump_line(doc, flags, interner), f"doc dump <{kind} {name}>")]
        try:
            p1, p2 = os.path.join(tmp, "one.numbers"), os.path.join(tmp, "two.numbers")
            doc.save(p1)
            doc1 = Document(p1)
            doc1.save(p2)
            doc2 = Document(p2)
            for op, d in (("resave", doc1), ("resave2", doc2)):
                lines.append((f"doc {op} {body}", docstate.dump_line(d, flags, interner), f"doc {op} <{kind} {name}>"))
        except Exception:  # noqa: BLE001  a failing re-save is reported by cycle(); the `doc dump` line is still compared
            stats["documents whose re-save raises (dump line only)"] = 1
        cells = sum(len(r) for fl in flags if fl is not None for r in fl)
        stats["tables modelled"] = sum(1 for fl in flags if fl is not None)
        stats["cells modelled"] = cells
        stats["documents"] = 1
        return common.sub_result(sub, {"lines": lines, "stats": stats, "nontrivial": cells > 0, "name": name})
    finally:
        shutil.rmtree(tmp, ignore_errors=True)


def document_model_correspondence(ctx: Ctx, tasks):
    """real documents vs the composed model: `dump d` on the state read from the open document vs the real dump (ties the
    readers and `dump`), `dump (loadDoc (saveDoc d))` vs the real dump of the re-opened copy, and the same after a second
    cycle — document by document."""
    from checks import c01
    # quick: at most `budget` cells per table are modelled, larger tables are stand-ins printed `P` on both sides (counted)
    budget = 1500 if ctx.quick else 60000
    payloads = common.run_parallel(ctx, doc_model_task, [(k, n, budget) for k, n in tasks])
    req, out, dsc = [], [], []
    totals: dict = {}
    for p in payloads:
        if not p:
            continue
        for r, o, d in p["lines"]:
            req.append(r)
            out.append(o)
            dsc.append(d)
        for k, v in p["stats"].items():
            totals[k] = totals.get(k, 0) + v
        if p["nontrivial"]:
            ctx.mark(("doc-model", p["name"]))
    c01.correspond_long(ctx, "whole document: model dump / resave / resave2 on the state read from the real open document vs the "
                             "real dumps before the save, after one and after two save/open cycles", req, out, describe=dsc)
    ctx.extra["document_model"] = totals


def run(ctx: Ctx):
    warnings.simplefilter("ignore")
    data = REPO / "tests" / "data"
    if ctx.quick:
        fixtures = [d for d in QUICK_DOCS if (data / d).exists()]
    else:
        fixtures = sorted(p.name for p in data.glob("*.numbers"))
    tasks = [("fixture", f, t) for f in fixtures for t in (False, True)]
    tasks += [("template", "(bundled template)", t) for t in (False, True)]
    tasks += [("generated", g, t) for g in ("gen-small", "gen-multi", "gen-tall", "gen-wide") for t in (False, True)]
    tasks += [("corpus", p.name, t) for p in sorted(CORPUS.glob("*.numbers")) for t in (False, True)]
    common.run_parallel(ctx, cycle, tasks)
    string_table_correspondence(ctx)
    table_resave_correspondence(ctx)
    seen = set()
    doc_tasks = [(k, n) for k, n, _ in tasks if not ((k, n) in seen or seen.add((k, n)))]
    document_model_correspondence(ctx, doc_tasks)
    ctx.extra["exploration_note"] = ("the document dump comparison is the property oracle (independent of the model); the `doc` stream, "
                                     "the string-table histories and the re-saved tables are model correspondence")


def replay(data):
    i = data["input"]
    if "texts" in i:
        return {"texts": i["texts"]}
    r = cycle((i["kind"], i["document"], i["touch_accessors"]))
    return {"violations": [(v["signature"], v["what"]) for v in r["violations"]], "notes": r["notes"]}
