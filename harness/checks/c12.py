"""C12 — merged regions are reported consistently, immediately and after reload."""
from __future__ import annotations

import itertools
import multiprocessing as mp
import os
import random
import tempfile
from collections import Counter

import common
from common import Ctx, exc_name
from gridsim import RefGrid, Tokens, apply_op, enc_opt

PID = "C12"
PROPS_MODULE = "NumbersModel.Props.C12"
THEOREMS = [f"NumbersModel.Props.C12.{t}" for t in (
    "consistent_init", "merge_picture", "merge_step", "merge_picture_list", "merge_ranges_exact", "mergemap_roundtrip",
    "mergemap_roundtrip_needs_bound", "pack_bound_is_sharp", "open_eq_reloaded", "consistent_write",
    "consistent_safe_edit_partial")] + [
    # the packing clauses over the loop bodies py2lean regenerates from model.py on every run
    "NumbersModel.Props.C12.Src.src_mergemap_roundtrip", "NumbersModel.Props.C12.Src.src_pack_rejects_negative",
    "NumbersModel.Props.C12.Src.src_load_range", "NumbersModel.Translated.merge_pack_eq_model",
    "NumbersModel.Translated.merge_unpack_eq_model"]
TRANSLATED_GROUPS = ("Merge",)
PARTIAL = {
    "consistent_safe_edit_partial": "row/column insertions and deletions strictly after every merged rectangle (and "
    "appends) keep the table consistent, hence open == reloaded; the full statement - the same for edits before / inside "
    "a rectangle - is false for the library (the merge map is not shifted: known finding merge-map-not-shifted; the "
    "counter-example is an `example` in Props/C12.lean), so it cannot be proved for a faithful model",
    "open_eq_reloaded": "proved for consistent tables (no value written into a placeholder: known finding "
    "write-into-placeholder) with fewer than 65536 rows and columns (bound proved sharp: known finding "
    "merge-origin-row-over-65535); cell values themselves are assumed to round-trip (C01)",
}
RULE = ("one case = one scenario (request line): table shape, edits before merging, one or more merge_cells calls "
        "(single / list form) of pairwise disjoint in-table rectangles, then writes, row/column edits after the rectangles, "
        "more merges and save / save+reopen steps. Exhaustive: every rectangle of a 4x3 table, every pair of disjoint "
        "rectangles of a 3x3 table, each in both forms, each followed by save and save+reopen. Seeded: shapes up to "
        "12x8 with 1..6 rectangles (1xN, Nx1, NxM, touching, at the edges). Every distinct scenario is non-trivial "
        "(contains at least one merge).")
MANIFEST = {
    "text": "Full in memory: Lean theorems over an executable model of MergeCells / Table.merge_cells (anchor, placeholder "
            "loops, final _set_merge sweep) / Cell._set_merge / merge_ranges prove merge_picture for every set of pairwise "
            "disjoint in-table rectangles in a table of any shape (anchor reports the size, every other cell of the "
            "rectangle is a placeholder reporting the rectangle, all other cells untouched, merge_ranges = exactly the "
            "rectangles). Persisting: mergemap_roundtrip (col<<16|row packing inverts exactly when row, height < 65536 - "
            "bound proved sharp) and open_eq_reloaded (save -> load -> Table.__init__ reproduces every cell of a consistent "
            "table). Tied to the code by lock-step scenarios on the real API compared cell by cell (class, value, "
            "is_merged, size, rect, merge_ranges) open vs model vs reopened, plus an independent picture oracle. The packing "
            "arithmetic itself (the loop body of recalculate_merged_cells: col << 16 | row and ncols << 16 | nrows into uint32 "
            "fields; the loop body of calculate_merge_cell_ranges up to the fill loops: >> 16, & 0xFFFF, the two ends) is "
            "additionally TRANSLATED from model.py on every run (harness/py2lean.py -> Gen/TrMerge.lean), proved equal to "
            "pack32 / loadRange for all ints (Lemmas/TrMerge.lean) and the round-trip clause is restated over it "
            "(Props.C12.Src.src_*); the translated bodies are run against the real methods on harness-made anchors and "
            "merge-region objects (trdriver).",
    "note": "fixes/C12-merge-placeholders.patch repairs the placeholder loops. Three defects are listed as known findings, "
            "not fixed: the merge map is not shifted by row/column edits before or inside a rectangle; a value written into "
            "a placeholder is visible on the open document and lost on reload; origins with row >= 65536 do not survive "
            "save.",
    "technique": "Lean 4 proof (loop invariants over the (data, map) pair, extensional map reasoning, bit-packing "
                 "round trip; packing arithmetic proved equal to its translation from the Python source) + lock-step differential correspondence + picture oracle",
}
ASSUMPTIONS = [
    "A1 parsing of the range string is C10's model; the merge model takes the four parsed coordinates",
    "a freshly opened document has no merge-owner formula records for tables written by the library "
    "(calculate_merge_cell_ranges then only reads merge_region_map)",
    "cell values round-trip through save/reopen (C01); placeholders have no storage",
    "defaultdict probing inserts False entries into MergeCells._references; this can only change the order of saved "
    "ranges, unobservable for pairwise disjoint rectangles",
]


# ---------------------------------------------------------------------------------------------
def a1(r0, c0, r1, c1) -> str:
    from numbers_parser.xrefs import xl_rowcol_to_cell
    return f"{xl_rowcol_to_cell(r0, c0)}:{xl_rowcol_to_cell(r1, c1)}"


def parse_range(s: str):
    from numbers_parser.xrefs import xl_cell_to_rowcol
    if ":" in s:
        a, b = s.split(":")
        return (*xl_cell_to_rowcol(a), *xl_cell_to_rowcol(b))
    r, c = xl_cell_to_rowcol(s)
    return (r, c, r, c)


def view(table, tokens: Tokens):
    """every observable of C12, through the public API."""
    from numbers_parser.cell import MergedCell
    cells = []
    for r, row in enumerate(table.rows()):
        out = []
        for c, cell in enumerate(row):
            out.append((isinstance(cell, MergedCell), tokens.tok(cell.value), bool(cell.is_merged),
                        None if cell.size is None else tuple(cell.size),
                        None if cell.rect is None else tuple(cell.rect), cell.merge_range, cell.row, cell.col))
        cells.append(out)
    ranges = sorted(parse_range(s) for s in table.merge_ranges)
    return table.num_rows, table.num_cols, cells, ranges, list(table.merge_ranges)


def show_view(v) -> str:
    nr, nc, cells, ranges, _ = v
    rows = []
    for r, row in enumerate(cells):
        out = []
        for c, (ph, tok, merged, size, rect, _, cr, cc) in enumerate(row):
            s = ("P" if ph else "") + str(tok) + ("+" if merged else "")
            s += "~" if size is None else ("" if size == (1, 1) else f"[{size[0]}.{size[1]}]")
            if rect is not None:
                s += "@" + ".".join(map(str, rect))
            if (cr, cc) != (r, c):
                s += f"!{cr}.{cc}"
            out.append(s)
        rows.append(",".join(out))
    return f"{nr},{nc}:" + "/".join(rows) + ";" + ",".join(".".join(map(str, q)) for q in ranges)


def strip_names(v):
    """the view without the derived strings (for open == reloaded comparisons everything counts)."""
    return v


class Picture:
    """The property's picture: a plain value grid plus a set of pairwise disjoint rectangles."""

    def __init__(self, nr, nc):
        self.grid = RefGrid(nr, nc)
        self.rects: list[tuple[int, int, int, int]] = []

    def owner(self, r, c):
        for q in self.rects:
            if q[0] <= r <= q[2] and q[1] <= c <= q[3]:
                return q
        return None

    def merge(self, q):
        self.rects.append(q)
        for r in range(q[0], q[2] + 1):
            for c in range(q[1], q[3] + 1):
                if (r, c) != (q[0], q[1]):
                    self.grid.cells[r][c] = 0

    def mismatch(self, v) -> str | None:
        from numbers_parser.xrefs import xl_range
        nr, nc, cells, ranges, names = v
        if (nr, nc) != (self.grid.nr, self.grid.nc) or len(cells) != nr or any(len(r) != nc for r in cells):
            return f"shape {nr}x{nc} (data {len(cells)} rows) expected {self.grid.nr}x{self.grid.nc}"
        for r, row in enumerate(cells):
            for c, (ph, tok, merged, size, rect, mrange, cr, cc) in enumerate(row):
                q = self.owner(r, c)
                if (cr, cc) != (r, c):
                    return f"cell ({r},{c}) reports position ({cr},{cc})"
                if q is None:
                    want = (False, self.grid.cells[r][c], False, (1, 1), None, None)
                elif (r, c) == (q[0], q[1]):
                    want = (False, self.grid.cells[r][c], True, (q[2] - q[0] + 1, q[3] - q[1] + 1), None, None)
                else:
                    want = (True, 0, False, None, q, xl_range(*q))
                if (ph, tok, merged, size, rect, mrange) != want:
                    return (f"cell ({r},{c}) is (placeholder={ph}, value={tok}, is_merged={merged}, size={size}, rect={rect}, "
                            f"merge_range={mrange}), expected {want} for rectangles {self.rects}")
        if ranges != sorted(self.rects):
            return f"merge_ranges {names} expected exactly {sorted(self.rects)}"
        if names != sorted(xl_range(*q) for q in self.rects):
            return f"merge_ranges {names} expected {sorted(xl_range(*q) for q in self.rects)}"
        return None


def enc_edit(op) -> str:
    k = op[0]
    if k == "w":
        return f"w {op[1]} {op[2]} {op[3]}"
    if k in ("ar", "ac"):
        return f"{k} {op[1]} {enc_opt(op[2])} {enc_opt(op[3])}"
    return f"{k} {op[1]} {enc_opt(op[2])}"


def touches(op, pic: Picture) -> bool:
    """does a row/column edit reach into or before a merged rectangle (the map would have to move)?"""
    k = op[0]
    if k == "w" or not pic.rects:
        return False
    rows = k in ("ar", "dr")
    dim = pic.grid.nr if rows else pic.grid.nc
    last = max(q[2] if rows else q[3] for q in pic.rects)
    n, start = op[1], op[2]
    if k in ("ar", "ac"):
        at = dim if start is None else start
    else:
        at = dim - n if start is None else start
    return at <= last


class MergeRunner:
    def __init__(self, shape):
        from numbers_parser import Document
        self.Document = Document
        self.shape = shape
        self.tokens = Tokens()
        self.doc = Document(num_rows=shape[0], num_cols=shape[1])
        self.pic = Picture(*shape)
        self.words, self.steps, self.violations, self.history = [], [], [], []
        self.hist = Counter()
        self.tmpdir = tempfile.mkdtemp(prefix="c12_")
        self.n = 0
        self.stopped = False

    @property
    def table(self):
        return self.doc.sheets[0].tables[0]

    def viol(self, sig, what):
        self.violations.append({"signature": sig, "what": what, "input": {"shape": list(self.shape), "ops": list(self.history)}})

    def save_reopen(self):
        self.n += 1
        p = os.path.join(self.tmpdir, f"m{self.n}.numbers")
        try:
            self.doc.save(p)
            return self.Document(p)
        finally:
            if os.path.exists(p):
                os.remove(p)

    def emit(self, status, v):
        self.steps.append(status + "=" + show_view(v))

    def step(self, sop):
        """sop: ["e", op] | ["mg", rect] | ["ml", [rects]] | ["sk"] | ["sv"] | ["x", op] (edit reaching a rectangle: oracle only)."""
        if self.stopped:
            return
        self.history.append(sop)
        kind = sop[0]
        before = view(self.table, self.tokens)
        if kind == "e":
            op = tuple(sop[1])
            self.words.append(enc_edit(op))
            cls = self.pic.grid.classify(op)
            into_placeholder = op[0] == "w" and cls == "valid" and (q := self.pic.owner(op[1], op[2])) is not None \
                and (op[1], op[2]) != (q[0], q[1])
            try:
                apply_op(self.table, op)
                status = "ok"
            except Exception as e:  # noqa: BLE001
                status = "err:" + exc_name(e)
            self.hist[f"{op[0]}:{cls}:{status}" + (":placeholder" if into_placeholder else "")] += 1
            after = view(self.table, self.tokens)
            self.emit(status, after)
            if status == "ok" and cls != "invalid":
                self.pic.grid.apply(op)
            elif status != "ok" and after != before:
                self.viol(f"error-mutates:{op[0]}", f"{op} raised {status[4:]} but changed the table")
            if into_placeholder and status == "ok":
                # the property: every non-anchor cell of a rectangle stays a placeholder without a value,
                # and the open document shows what the saved file shows
                self.pic.grid.cells[op[1]][op[2]] = 0
                new = self.save_reopen()
                re = view(new.sheets[0].tables[0], self.tokens)
                if after != re:
                    self.viol("write-into-placeholder",
                              f"write{op[1:]} into a placeholder of {self.pic.owner(op[1], op[2])}: open document shows "
                              f"{show_view(after)}, the saved file {show_view(re)}")
                bad = self.pic.mismatch(re)
                if bad:
                    self.viol("reload:picture", f"after write{op[1:]} + reopen: {bad}")
                # continue on the reopened document (model: sv)
                self.history.append(["sv"])
                self.words.append("sv")
                self.doc = new
                self.emit("ok", re)
                return
            bad = self.pic.mismatch(after)
            if bad:
                self.viol(f"picture:{op[0]}", f"after {op}: {bad}")
        elif kind in ("mg", "ml"):
            rects = [tuple(sop[1])] if kind == "mg" else [tuple(q) for q in sop[1]]
            if kind == "mg":
                self.words.append("mg " + " ".join(map(str, rects[0])))
                arg = a1(*rects[0])
            else:
                self.words.append(f"ml {len(rects)} " + " ".join(" ".join(map(str, q)) for q in rects))
                arg = [a1(*q) for q in rects]
            try:
                self.table.merge_cells(arg)
                status = "ok"
            except Exception as e:  # noqa: BLE001
                status = "err:" + exc_name(e)
            self.hist[f"{kind}:{status}"] += 1
            after = view(self.table, self.tokens)
            self.emit(status, after)
            if status != "ok":
                self.viol("merge-raises", f"merge_cells({arg!r}) raised {status[4:]}")
                self.stopped = True
                return
            for q in rects:
                self.pic.merge(q)
            bad = self.pic.mismatch(after)
            if bad:
                self.viol("picture:merge", f"after merge_cells({arg!r}) on {self.pic.grid.nr}x{self.pic.grid.nc}: {bad}")
        elif kind in ("sk", "sv"):
            self.words.append(kind)
            try:
                new = self.save_reopen()
            except Exception as e:  # noqa: BLE001
                self.viol("save-raises", f"save/reopen raised {exc_name(e)}: {e}")
                self.stopped = True
                return
            now = view(self.table, self.tokens)
            if now != before:
                self.viol("save-mutates", f"save changed the open document: {show_view(before)} -> {show_view(now)}")
            re = view(new.sheets[0].tables[0], self.tokens)
            self.hist[kind] += 1
            if re != now:
                self.viol("open-vs-reloaded", f"open document {show_view(now)} but the saved file reopens to {show_view(re)}")
            bad = self.pic.mismatch(re)
            if bad:
                self.viol("reload:picture", f"reopened file: {bad}")
            if kind == "sv":
                self.doc = new
            self.emit("ok", view(self.table, self.tokens))
        elif kind == "x":
            # a row/column edit before or inside a merged rectangle: the model does not follow (known defect);
            # the property is checked directly: open picture == reopened picture
            op = tuple(sop[1])
            try:
                apply_op(self.table, op)
            except Exception as e:  # noqa: BLE001
                self.viol(f"raise:{op[0]}", f"{op} raised {exc_name(e)}")
                self.stopped = True
                return
            now = view(self.table, self.tokens)
            self.hist[f"x:{op[0]}"] += 1
            try:
                re = view(self.save_reopen().sheets[0].tables[0], self.tokens)
            except Exception as e:  # noqa: BLE001
                self.viol("merge-map-not-shifted", f"after {op} with merges {self.pic.rects}: save/reopen raised {exc_name(e)}")
                self.stopped = True
                return
            if now != re:
                self.viol("merge-map-not-shifted",
                          f"merges {self.pic.rects}, then {op}: open document reports {now[4]}, the saved file {re[4]}"
                          + ("" if now[4] != re[4] else " (cells differ)"))
            self.stopped = True
        else:
            raise AssertionError(sop)

    def finish(self):
        try:
            os.rmdir(self.tmpdir)
        except OSError:
            pass
        return {"request": f"merge hist {self.shape[0]} {self.shape[1]} " + " ".join(self.words),
                "impl": "ok " + "|".join(self.steps), "violations": self.violations, "hist": dict(self.hist)}


def run_scenario(job):
    shape, ops = job
    r = MergeRunner(tuple(shape))
    for sop in ops:
        r.step(sop)
    return r.finish()


# ---------------------------------------------------------------------------------------------
def all_rects(nr, nc):
    return [(r0, c0, r1, c1) for r0 in range(nr) for c0 in range(nc) for r1 in range(r0, nr) for c1 in range(c0, nc)]


def disjoint(a, b) -> bool:
    return a[2] < b[0] or b[2] < a[0] or a[3] < b[1] or b[3] < a[1]


def gen_rects(rng: random.Random, nr, nc, have, want):
    out = []
    for _ in range(60):
        if len(out) >= want:
            break
        kind = rng.random()
        h = 1 if kind < 0.25 else rng.randrange(1, min(nr, 5) + 1)
        w = 1 if 0.25 <= kind < 0.5 else rng.randrange(1, min(nc, 5) + 1)
        if h == 1 and w == 1 and rng.random() < 0.8:
            continue
        edge = rng.random()
        r0 = 0 if edge < 0.15 else (nr - h if edge < 0.3 else rng.randrange(0, nr - h + 1))
        c0 = 0 if 0.3 <= edge < 0.45 else (nc - w if 0.45 <= edge < 0.6 else rng.randrange(0, nc - w + 1))
        q = (r0, c0, r0 + h - 1, c0 + w - 1)
        if all(disjoint(q, p) for p in have + out):
            out.append(q)
    return out


def gen_scenario(seed: int):
    from checks.c03 import gen_edit
    rng = random.Random(seed)
    nr, nc = rng.choice([(3, 3), (4, 3), (5, 4), (6, 6), (12, 8), (8, 2), (2, 7), (12, 8)])
    pic = Picture(nr, nc)
    ops = []

    def edit(allow_reach):
        op = gen_edit(rng, pic.grid)
        cls = pic.grid.classify(op)
        if touches(op, pic) and cls != "invalid":
            if not allow_reach or cls == "boundary":
                return True
            ops.append(["x", list(op)])
            return False
        if cls == "valid":
            pic.grid.apply(op)
            if op[0] == "w" and (q := pic.owner(op[1], op[2])) and (op[1], op[2]) != (q[0], q[1]):
                pic.grid.cells[op[1]][op[2]] = 0
        ops.append(["e", list(op)])
        return True

    for _ in range(rng.randrange(0, 6)):          # edits before any merge
        edit(False)
    for round_ in range(rng.randrange(1, 4)):
        qs = gen_rects(rng, pic.grid.nr, pic.grid.nc, pic.rects, rng.randrange(1, 4))
        if qs:
            if len(qs) == 1 and rng.random() < 0.6:
                ops.append(["mg", list(qs[0])])
            else:
                ops.append(["ml", [list(q) for q in qs]])
            for q in qs:
                pic.merge(q)
        for _ in range(rng.randrange(1, 8)):
            x = rng.random()
            if x < 0.12:
                ops.append(["sk"])
            elif x < 0.3:
                ops.append(["sv"])
            elif x < 0.5 and pic.rects:          # a write aimed at a rectangle (anchor or placeholder)
                q = rng.choice(pic.rects)
                r, c = rng.randrange(q[0], q[2] + 1), rng.randrange(q[1], q[3] + 1)
                if (r, c) != (q[0], q[1]) and rng.random() < 0.5:
                    r, c = q[0], q[1]
                op = ("w", r, c, rng.randrange(1, 13))
                pic.grid.apply(op)
                if (r, c) != (q[0], q[1]):
                    pic.grid.cells[r][c] = 0
                ops.append(["e", list(op)])
            else:
                if not edit(round_ > 0 and rng.random() < 0.5):
                    return (nr, nc), ops
    ops.append(["sv"])
    if pic.rects and rng.random() < 0.7:          # finally an edit before / inside a rectangle
        q = rng.choice(pic.rects)
        rows = rng.random() < 0.5
        lo, hi = (q[0], q[2]) if rows else (q[1], q[3])
        at = rng.choice([0, lo, hi, max(lo - 1, 0)])
        if rng.random() < 0.5:
            ops.append(["x", ["ar" if rows else "ac", rng.choice([1, 2]), at, None]])
        elif (pic.grid.nr if rows else pic.grid.nc) > 1:
            ops.append(["x", ["dr" if rows else "dc", 1, at]])
    return (nr, nc), ops


def _pool():
    n = max(1, min(12, (os.cpu_count() or 2) - 2))
    return mp.get_context("fork").Pool(n)


def _collect(ctx: Ctx, name, results, exhaustive):
    per_sig = Counter(v["signature"] for v in ctx.violations)
    for r in results:
        for v in r["violations"]:
            per_sig[v["signature"]] += 1
            if per_sig[v["signature"]] <= 3:          # a few replays per failure class are enough
                ctx.violation(v["signature"], v["what"], v["input"])
        for k, n in r["hist"].items():
            ctx.histogram["step " + k] += n
    ctx.correspond(name, [r["request"] for r in results], [r["impl"] for r in results], exhaustive=exhaustive, keep=2)


def tall_probe(ctx: Ctx):
    """origins with row >= 65536 (the packing keeps 16 bits of the row)."""
    wide = run_scenario(((2, 300), [["mg", [0, 10, 1, 290]], ["sk"], ["sv"], ["e", ["w", 0, 10, 3]], ["sk"]]))
    for v in wide["violations"]:
        ctx.violation(v["signature"], v["what"][:600], v["input"])
    ctx.correspond("wide table: a 2x281 rectangle (sizes above 255)", [wide["request"]], [wide["impl"]], exhaustive=True, keep=0)
    res = run_scenario(((65540, 1), [["mg", [100, 0, 700, 0]], ["mg", [65535, 0, 65535, 0]], ["sv"],
                                     ["mg", [65536, 0, 65537, 0]], ["sk"]]))
    seen = False
    for v in res["violations"]:
        if v["signature"] in ("open-vs-reloaded", "reload:picture"):
            if not seen:
                ctx.violation("merge-origin-row-over-65535",
                              "merge_cells('A65537:A65538') on a 65540x1 table: the open document reports the merge, the "
                              "saved file reopens without it (the origin row is packed into 16 bits)",
                              {"shape": [65540, 1], "ops": [["mg", [65536, 0, 65537, 0]], ["sk"]]})
            seen = True
        else:
            ctx.violation(v["signature"], v["what"][:600], v["input"])
    ctx.correspond("tall table: a 601x1 rectangle, a merge at row 65535 (survive) and one at row 65536 (packed origin overflows 16 bits)",
                   [res["request"]], [res["impl"]], exhaustive=True, keep=0)


FIXTURES_WITH_MERGES = ["test-9.numbers", "test-4.numbers", "issue-59.numbers", "issue-77.numbers", "test-titles.numbers",
                        "test-styles.numbers", "test-custom-formats.numbers"]


def _merge_picture(tb):
    """(sorted merge ranges, per cell: 'A'+size for an anchor, 'P'+rect for a placeholder, '.' otherwise)"""
    from numbers_parser import MergedCell
    cells = []
    for r in range(tb.num_rows):
        for c in range(tb.num_cols):
            cell = tb.cell(r, c)
            if isinstance(cell, MergedCell):
                cells.append(f"P{cell.row_start},{cell.col_start},{cell.row_end},{cell.col_end}")
            elif cell.is_merged:
                cells.append(f"A{cell.size[0]}x{cell.size[1]}")
            else:
                cells.append(".")
    return sorted(tb.merge_ranges), cells


def fixture_merges(ctx: Ctx):
    """documents written by Numbers that already contain merged regions: a further disjoint rectangle is merged through
    the API, the picture is checked on the open document and after save + reopen (oracle only; the model's scenarios are
    on new documents)."""
    import tempfile
    from numbers_parser import Document
    from numbers_parser.xrefs import xl_range
    rng = ctx.rng
    for name in FIXTURES_WITH_MERGES:
        path = common.REPO / "tests/data" / name
        if not path.exists():
            continue
        for variant in range(2 if ctx.quick else 6):
            try:
                doc = Document(str(path))
            except Exception:  # noqa: BLE001  (unreadable fixtures are other properties)
                break
            tables = [(si, ti) for si, sh in enumerate(doc.sheets) for ti, tb in enumerate(sh.tables) if tb.merge_ranges]
            if not tables:
                break
            si, ti = tables[variant % len(tables)]
            tb = doc.sheets[si].tables[ti]
            nr, nc = tb.num_rows, tb.num_cols
            if nr * nc > 1200:
                continue
            before_ranges, before_cells = _merge_picture(tb)
            taken = {(r, c) for r in range(nr) for c in range(nc) if before_cells[r * nc + c] != "."}
            cands = [q for q in all_rects(nr, nc) if (q[2] - q[0] + 1) * (q[3] - q[1] + 1) in (2, 3, 4, 6)
                     and not any((r, c) in taken for r in range(q[0], q[2] + 1) for c in range(q[1], q[3] + 1))]
            if not cands:
                continue
            q = rng.choice(cands)
            ref = xl_range(*q)
            where = {"fixture": name, "sheet": si, "table": ti, "merge": ref}
            try:
                tb.merge_cells(ref)
            except Exception as e:  # noqa: BLE001
                ctx.violation("fixture-merge-raises", f"{name}: merge_cells({ref!r}) raised {exc_name(e)}: {e}", where)
                continue
            want_ranges = sorted(before_ranges + [ref])
            h, w = q[2] - q[0] + 1, q[3] - q[1] + 1
            want_cells = list(before_cells)
            for r in range(q[0], q[2] + 1):
                for c in range(q[1], q[3] + 1):
                    want_cells[r * nc + c] = f"A{h}x{w}" if (r, c) == (q[0], q[1]) else f"P{q[0]},{q[1]},{q[2]},{q[3]}"
            got = _merge_picture(tb)
            if got != (want_ranges, want_cells):
                ctx.violation("fixture-merge-open-picture", f"{name}: after merge_cells({ref!r}) the open document reports ranges "
                              f"{got[0]} (expected {want_ranges})" + ("" if got[1] == want_cells else "; cell states differ"), where)
                continue
            fd, tmp = tempfile.mkstemp(suffix=".numbers")
            os.close(fd)
            try:
                doc.save(tmp)
                tb2 = Document(tmp).sheets[si].tables[ti]
                got2 = _merge_picture(tb2)
            except Exception as e:  # noqa: BLE001
                ctx.violation("fixture-merge-save-raises", f"{name}: save/reopen after merge_cells({ref!r}) raised {exc_name(e)}: {e}", where)
                continue
            finally:
                os.unlink(tmp)
            ctx.count("documents written by Numbers with merged regions: one more disjoint rectangle merged, open vs reopened", 1)
            ctx.mark(("fixture-merge", name, si, ti, ref))
            if got2 != (want_ranges, want_cells):
                ctx.violation("fixture-merge-open-vs-reloaded",
                              f"{name} sheet {si} table {ti}: merged {ref} next to the existing {before_ranges}; the open document "
                              f"reports {want_ranges}, the reopened file {got2[0]}"
                              + ("" if got2[1] == want_cells or got2[0] != want_ranges else " (cell states differ)"), where)


def translated_source_stream(ctx: Ctx):
    """The packing loop of recalculate_merged_cells and the unpacking loop of calculate_merge_cell_ranges run on a real
    document whose merge map / merge-region object is set up by the harness (arbitrary anchors, arbitrary stored uint32
    values), vs the loop bodies py2lean translated from model.py."""
    import common
    from numbers_parser import Document
    from numbers_parser.generated import TSTArchives_pb2 as TSTArchives
    from numbers_parser.model import MergeCells, _NumbersModel
    rng = ctx.rng
    doc = Document(num_header_rows=0, num_header_cols=0, num_rows=2, num_cols=2)
    table = doc.sheets[0].tables[0]
    model, tid = table._model, table._table_id
    model.merge_cells(tid)      # prime the @cache of calculate_merge_cell_ranges (nothing stored in a new document)
    bds = model.objects[tid].base_data_store

    edge = [0, 1, 2, 255, 256, 65534, 65535, 65536, 65537, 70000, 2**31, -1, -2, -65536]
    quads = [(r, c, 1, 1) for r in edge for c in edge] + [(1, 1, h, w) for h in edge for w in edge] + \
        [tuple(rng.choice(edge + [rng.randrange(0, 65536)]) for _ in range(4)) for _ in range(150 if ctx.quick else 3000)]
    req, out = [], []
    for (r, c, h, w) in quads:
        mc = MergeCells()
        mc.add_anchor(r, c, (h, w))
        model._merge_cells[tid] = mc
        req.append(f"merge pack {r} {c} {h} {w}")
        try:
            model.recalculate_merged_cells(tid)
            cr = model.objects[bds.merge_region_map.identifier].cell_range
            o, sz = cr[0].origin.packedData, cr[0].size.packedData
            out.append(f"ok {o} {sz}")
            # the clause itself, on the real code: what was stored reads back as the anchor (below 2^16)
            if 0 <= min(r, c, h, w) and max(r, c, h, w) < 65536 and ((o >> 16, o & 0xFFFF), (sz >> 16, sz & 0xFFFF)) != ((c, r), (w, h)):
                ctx.violation("merge-pack-fields", f"anchor ({r},{c}) size ({h},{w}) stored as origin {o}, size {sz}",
                              {"anchor": [r, c], "size": [h, w]})
        except Exception as e:  # noqa: BLE001
            out.append("err " + exc_name(e))
    model._merge_cells[tid] = MergeCells()
    common.translated_only_stream(ctx, "recalculate_merged_cells on harness-made anchors (fields at 0 / 2^16 / 2^31 / negative) "
                                       "vs the loop body translated from the source", req, out)

    pairs = []
    for r, c in [(0, 0), (1, 2), (65535, 0), (0, 65535), (65535, 65535), (300, 7)] + \
            [(rng.randrange(65536), rng.randrange(65536)) for _ in range(40 if ctx.quick else 1000)]:
        for h, w in ((1, 1), (2, 1), (1, 3), (2, 2), (0, 0), (0, 2), (3, 0)):
            pairs.append((c << 16 | r, w << 16 | h))
    req, out = [], []
    raw = getattr(_NumbersModel.calculate_merge_cell_ranges, "__wrapped__", None)
    for o, sz in pairs:
        mm_id, mm = model.objects.create_object_from_dict("CalculationEngine", {}, TSTArchives.MergeRegionMapArchive)
        mm.cell_range.append(TSTArchives.CellRange(origin=TSTArchives.CellID(packedData=o), size=TSTArchives.TableSize(packedData=sz)))
        model.set_reference(bds.merge_region_map, mm_id)
        model._merge_cells[tid] = MergeCells()
        req.append(f"merge unpack {o} {sz}")
        try:
            if raw is None:
                raise RuntimeError("calculate_merge_cell_ranges is no longer a @cache-wrapped method")
            raw(model, tid)
            mc = model._merge_cells[tid]
            (r0, c0), = mc.merge_cells()
            nr, nc = mc.size((r0, c0))
            rects = {mc.rect(k) for k in list(mc._references) if mc.is_merge_reference(k)}
            if len(rects) > 1:
                out.append(f"several-rects {sorted(rects)}")
                continue
            r1, c1 = (next(iter(rects))[2:] if rects else (r0 + nr - 1, c0 + nc - 1))   # no reference cell: derived
            out.append(f"ok {r0} {c0} {r1} {c1} {nr} {nc}")
            if rects and next(iter(rects))[:2] != (r0, c0):
                out[-1] = f"rect-origin-differs {next(iter(rects))}"
            if (r0, c0, nr, nc) != (o & 0xFFFF, o >> 16, sz & 0xFFFF, sz >> 16):
                ctx.violation("merge-unpack-fields", f"stored origin {o}, size {sz} read as anchor ({r0},{c0}) size ({nr},{nc})",
                              {"origin": o, "size": sz})
        except Exception as e:  # noqa: BLE001
            out.append("err " + exc_name(e))
    common.translated_only_stream(ctx, "calculate_merge_cell_ranges on harness-made merge-region objects vs the loop body "
                                       "translated from the source", req, out)
    common.python_operator_stream(ctx)


def run(ctx: Ctx):
    rng = ctx.rng
    translated_source_stream(ctx)
    with _pool() as pool:
        # --- corpus: the examples of DESIGN.md ----------------------------------------------------
        corpus = [
            ((5, 4), [["e", ["w", r, c, 1 + (4 * r + c) % 12]] for r in range(5) for c in range(4)] + [["mg", [1, 1, 2, 2]], ["sk"], ["sv"]]),
            ((6, 4), [["mg", [2, 1, 3, 2]], ["x", ["ar", 1, 0, None]]]),
            ((6, 4), [["mg", [2, 1, 3, 2]], ["x", ["ar", 1, 2, None]]]),
            ((6, 4), [["mg", [2, 1, 3, 2]], ["x", ["dc", 1, 0]]]),
            ((5, 4), [["mg", [1, 1, 2, 2]], ["e", ["w", 2, 2, 3]]]),
            ((5, 4), [["ml", [[0, 0, 2, 0], [4, 1, 4, 3], [0, 3, 0, 3]]], ["sv"], ["e", ["ar", 2, None, 5]], ["e", ["dc", 0, None]], ["sk"]]),
        ]
        _collect(ctx, "corpus (DESIGN.md examples)", pool.map(run_scenario, corpus, chunksize=1), True)

        # --- exhaustive: every rectangle of 4x3, every disjoint pair of 3x3, both forms ---------------
        jobs = []
        for q in all_rects(4, 3):
            jobs.append(((4, 3), [["e", ["w", q[0], q[1], 2]], ["e", ["w", q[2], q[3], 3]], ["mg", list(q)], ["sk"], ["sv"]]))
            jobs.append(((4, 3), [["ml", [list(q)]], ["sv"], ["e", ["w", q[0], q[1], 4]], ["sk"]]))
        for a, b in itertools.combinations(all_rects(3, 3), 2):
            if disjoint(a, b):
                jobs.append(((3, 3), [["ml", [list(a), list(b)]], ["sv"]]))
                if not ctx.quick or (hash((a, b)) % 3 == 0):
                    jobs.append(((3, 3), [["mg", list(b)], ["sk"], ["mg", list(a)], ["sv"]]))
        _collect(ctx, "every rectangle of a 4x3 table; every pair of disjoint rectangles of a 3x3 table (single and list form), "
                      "each with save and save+reopen", pool.map(run_scenario, jobs, chunksize=8), True)

        # --- seeded scenarios ---------------------------------------------------------------------------
        n = 150 if ctx.quick else 2500
        jobs = [gen_scenario(rng.randrange(1 << 30)) for _ in range(n)]
        _collect(ctx, "seeded scenarios: shapes up to 12x8, 1..6 rectangles, writes / row+column edits / saves around them",
                 pool.map(run_scenario, jobs, chunksize=4), False)
    tall_probe(ctx)
    fixture_merges(ctx)


def replay(data):
    i = data.get("input", {})
    r = MergeRunner(tuple(i["shape"]))
    for sop in i["ops"]:
        if sop[0] == "sv" and r.history and r.history[-1] == ["sv"]:
            continue
        r.step(sop)
    out = r.finish()
    return {"steps": [s[:400] for s in out["impl"][3:].split("|")],
            "violations": [{k: v[k] for k in ("signature", "what")} for v in out["violations"]]}
