"""C12 — merged regions are reported consistently, immediately and after reload."""
from __future__ import annotations

import itertools
import json
import multiprocessing as mp
import os
import random
import tempfile
from collections import Counter

import common
from common import Ctx, exc_name
from gridsim import RefGrid, Tokens, apply_op, enc_opt  # noqa: F401

PID = "C12"
PROPS_MODULE = "NumbersModel.Props.C12"
THEOREMS = [f"NumbersModel.Props.C12.{t}" for t in (
    "consistent_init", "merge_picture", "merge_step", "merge_picture_list", "merge_ranges_exact", "mergemap_roundtrip",
    "mergemap_roundtrip_needs_bound", "pack_bound_is_sharp", "open_eq_reloaded", "consistent_write",
    "consistent_edit", "edit_values", "move_arithmetic_is_spec", "shift_spec_sound", "shift_spec_insert_cells", "shift_spec_delete_cells",
    "history_consistent", "history_open_eq_reloaded")] + [
    # the packing clauses over the loop bodies py2lean regenerates from model.py on every run
    "NumbersModel.Props.C12.Src.src_mergemap_roundtrip", "NumbersModel.Props.C12.Src.src_pack_rejects_negative",
    "NumbersModel.Props.C12.Src.src_load_range", "NumbersModel.Translated.merge_pack_eq_model",
    "NumbersModel.Translated.merge_unpack_eq_model"]
TRANSLATED_GROUPS = ("Merge",)
PARTIAL = {
    "open_eq_reloaded": "proved for consistent tables - by history_consistent: after any history of merges, writes outside "
    "placeholders and row/column insertions/deletions anywhere (no value written into a placeholder: known finding "
    "write-into-placeholder) - with fewer than 65536 rows and columns (bound proved sharp: known finding "
    "merge-origin-row-over-65535); cell values themselves are assumed to round-trip (C01)",
}
RULE = ("one case = one scenario (request line): table shape, edits before merging, one or more merge_cells calls "
        "(single / list form) of pairwise disjoint in-table rectangles, then writes, row/column insertions and deletions "
        "before / inside / overlapping / after the rectangles, more merges and save / save+reopen steps. Exhaustive: every "
        "rectangle of a 4x3 table, every pair of disjoint rectangles of a 3x3 table, each in both forms, each followed by "
        "save and save+reopen; every rectangle of a 3x3 table followed by every accepted insertion / deletion of 1 or 2 "
        "rows / columns. Seeded: shapes up to 12x8 with 1..6 rectangles (1xN, Nx1, NxM, touching, at the edges). Every "
        "distinct scenario is non-trivial (contains at least one merge).")
MANIFEST = {
    "text": "Full in memory: Lean theorems over an executable model of MergeCells / Table.merge_cells (anchor, placeholder "
            "loops, final _set_merge sweep) / Cell._set_merge / merge_ranges prove merge_picture for every set of pairwise "
            "disjoint in-table rectangles in a table of any shape (anchor reports the size, every other cell of the "
            "rectangle is a placeholder reporting the rectangle, all other cells untouched, merge_ranges = exactly the "
            "rectangles). Persisting: mergemap_roundtrip (col<<16|row packing inverts exactly when row, height < 65536 - "
            "bound proved sharp) and open_eq_reloaded (save -> load -> Table.__init__ reproduces every cell of a consistent "
            "table). Row/column edits: consistent_edit - every accepted add_row / add_column / delete_row / delete_column "
            "(any start, any count, with or without default) on a consistent table succeeds and leaves a consistent table "
            "whose rectangles are shiftRects of the old ones (explicit specification: move with the cells / untouched / grow / "
            "shrink / cease; move_arithmetic_is_spec ties the code's max-arithmetic to it, shift_spec_sound shows it keeps "
            "rectangles in the table and disjoint, shift_spec_insert_cells / shift_spec_delete_cells state it cell by cell: a cell is "
            "in the rectangle iff its new position is in the new one, new cells belong to it iff the insertion was strictly "
            "inside); history_consistent / history_open_eq_reloaded - by induction over any "
            "history of merges, writes outside placeholders and row/column edits the open document and the reopened file "
            "show the same picture. Tied to the code by lock-step scenarios on the real API compared cell by cell (class, "
            "value, is_merged, size, rect, merge_ranges) open vs model vs reopened after every step, plus an independent "
            "picture oracle (plain value grid + rectangle list that follows the surviving rows/columns of each rectangle). "
            "The packing arithmetic itself (the loop body of recalculate_merged_cells: col << 16 | row and ncols << 16 | nrows "
            "into uint32 fields; the loop body of calculate_merge_cell_ranges up to the fill loops: >> 16, & 0xFFFF, the two "
            "ends) is additionally TRANSLATED from model.py on every run (harness/py2lean.py -> Gen/TrMerge.lean), proved equal "
            "to pack32 / loadRange for all ints (Lemmas/TrMerge.lean) and the round-trip clause is restated over it "
            "(Props.C12.Src.src_*); the translated bodies are run against the real methods on harness-made anchors and "
            "merge-region objects (trdriver).",
    "note": "fixes/C12-merge-placeholders.patch repairs the placeholder loops; fixes/C12-merge-map-shift.patch makes the four "
            "row/column edits keep the merge map and the cells' merge state in step (Table._move_merges); "
            "fixes/C12-stale-merge-owner-records.patch makes save drop the merge ranges a Numbers-written table was loaded with "
            "(they are all in the merge region map), so moved ranges do not come back next to their old positions. Two defects are "
            "listed as known findings, not fixed: a value written into a placeholder is visible on the open document and "
            "lost on reload; origins with row >= 65536 do not survive save.",
    "technique": "Lean 4 proof (loop invariants over the (data, map) pair, extensional map reasoning, bit-packing "
                 "round trip, interval arithmetic of the rectangle specification, induction over histories; packing arithmetic "
                 "proved equal to its translation from the Python source) + lock-step "
                 "differential correspondence + picture oracle",
}
ASSUMPTIONS = [
    "A1 parsing of the range string is C10's model; the merge model takes the four parsed coordinates (also where "
    "_move_merges hands the moved rectangle to merge_cells as '<A1>:<A1>' text: xl_cell_to_rowcol inverts xl_rowcol_to_cell)",
    "a freshly opened document has no merge-owner formula records for tables written by the library "
    "(calculate_merge_cell_ranges then only reads merge_region_map)",
    "cell values round-trip through save/reopen (C01); placeholders have no storage",
    "defaultdict probing inserts False entries into MergeCells._references; this can only change the order of saved "
    "ranges, unobservable for pairwise disjoint rectangles",
    "cells created by add_row / add_column and by the default fill read the merge map before _move_merges; their merge "
    "attributes are overwritten by _set_merge(None) before they can be observed (or are those of a position without entry "
    "when every rectangle ends before the edit), so the model gives them the payload of a position without entry",
]


# ---------------------------------------------------------------------------------------------
def a1(r0, c0, r1, c1) -> str:
    from numbers_parser.xrefs import xl_rowcol_to_cell
    return f"{xl_rowcol_to_cell(r0, c0)}:{xl_rowcol_to_cell(r1, c1)}"


def parse_range(s: str):
    from numbers_parser.xrefs import xl_cell_to_rowcol
    if ":" in s:
        a, b = s.split(":")
        return (*xl_cell_to_rowcol(a), *xl_cell_to_rowcol(b))
    r, c = xl_cell_to_rowcol(s)
    return (r, c, r, c)


def view(table, tokens: Tokens):
    """every observable of C12, through the public API."""
    from numbers_parser.cell import MergedCell
    cells = []
    for r, row in enumerate(table.rows()):
        out = []
        for c, cell in enumerate(row):
            out.append((isinstance(cell, MergedCell), tokens.tok(cell.value), bool(cell.is_merged),
                        None if cell.size is None else tuple(cell.size),
                        None if cell.rect is None else tuple(cell.rect), cell.merge_range, cell.row, cell.col))
        cells.append(out)
    ranges = sorted(parse_range(s) for s in table.merge_ranges)
    return table.num_rows, table.num_cols, cells, ranges, list(table.merge_ranges)


def show_view(v) -> str:
    nr, nc, cells, ranges, _ = v
    rows = []
    for r, row in enumerate(cells):
        out = []
        for c, (ph, tok, merged, size, rect, _, cr, cc) in enumerate(row):
            s = ("P" if ph else "") + str(tok) + ("+" if merged else "")
            s += "~" if size is None else ("" if size == (1, 1) else f"[{size[0]}.{size[1]}]")
            if rect is not None:
                s += "@" + ".".join(map(str, rect))
            if (cr, cc) != (r, c):
                s += f"!{cr}.{cc}"
            out.append(s)
        rows.append(",".join(out))
    return f"{nr},{nc}:" + "/".join(rows) + ";" + ",".join(".".join(map(str, q)) for q in ranges)


def strip_names(v):
    """the view without the derived strings (for open == reloaded comparisons everything counts)."""
    return v


class Picture:
    """The property's picture: a plain value grid plus a set of pairwise disjoint rectangles."""

    def __init__(self, nr, nc):
        self.grid = RefGrid(nr, nc)
        self.rects: list[tuple[int, int, int, int]] = []

    def owner(self, r, c):
        for q in self.rects:
            if q[0] <= r <= q[2] and q[1] <= c <= q[3]:
                return q
        return None

    def merge(self, q):
        self.rects.append(q)
        for r in range(q[0], q[2] + 1):
            for c in range(q[1], q[3] + 1):
                if (r, c) != (q[0], q[1]):
                    self.grid.cells[r][c] = 0

    def apply(self, op):
        """a successful edit.  A write goes to the value grid.  A row/column insertion or deletion is applied to the value
        grid, and every rectangle follows its own cells: the surviving rows/columns of the rectangle are looked up at their
        new indices (written from the property text, not from the library's or the model's arithmetic)."""
        if op[0] == "w":
            self.grid.apply(op)
            return
        k, n, start = op[0], op[1], op[2]
        lo_i, hi_i = (0, 2) if k in ("ar", "dr") else (1, 3)
        dim = self.grid.nr if lo_i == 0 else self.grid.nc          # before the edit
        self.grid.apply(op)
        rects = []
        for q in self.rects:
            span = list(range(q[lo_i], q[hi_i] + 1))                # the rectangle's rows (columns)
            if k in ("ar", "ac"):
                at = dim if start is None else start
                if span[0] < at <= span[-1]:                        # strictly inside: the new rows belong to it
                    span = span[:at - span[0]] + list(range(at, at + n)) + [i + n for i in span[at - span[0]:]]
                else:
                    span = [i + n if i >= at else i for i in span]  # moves with its cells / untouched
                lost = False
            else:
                at = dim - n if start is None else start
                kept = [i for i in span if not at <= i < at + n]
                lost = len(kept) < len(span)
                span = [i - n if i >= at else i for i in kept]
            if not span:
                continue                                            # deleted entirely
            q = list(q)
            q[lo_i], q[hi_i] = span[0], span[-1]
            if lost and (q[0], q[1]) == (q[2], q[3]):
                continue                                            # reduced to a single cell: no longer a merge
            rects.append(tuple(q))
        self.rects = rects
        for q in rects:                                             # placeholders have no value (new ones included)
            for r in range(q[0], q[2] + 1):
                for c in range(q[1], q[3] + 1):
                    if (r, c) != (q[0], q[1]):
                        self.grid.cells[r][c] = 0

    def mismatch(self, v) -> str | None:
        from numbers_parser.xrefs import xl_range
        nr, nc, cells, ranges, names = v
        if (nr, nc) != (self.grid.nr, self.grid.nc) or len(cells) != nr or any(len(r) != nc for r in cells):
            return f"shape {nr}x{nc} (data {len(cells)} rows) expected {self.grid.nr}x{self.grid.nc}"
        for r, row in enumerate(cells):
            for c, (ph, tok, merged, size, rect, mrange, cr, cc) in enumerate(row):
                q = self.owner(r, c)
                if (cr, cc) != (r, c):
                    return f"cell ({r},{c}) reports position ({cr},{cc})"
                if q is None:
                    want = (False, self.grid.cells[r][c], False, (1, 1), None, None)
                elif (r, c) == (q[0], q[1]):
                    want = (False, self.grid.cells[r][c], True, (q[2] - q[0] + 1, q[3] - q[1] + 1), None, None)
                else:
                    want = (True, 0, False, None, q, xl_range(*q))
                if (ph, tok, merged, size, rect, mrange) != want:
                    return (f"cell ({r},{c}) is (placeholder={ph}, value={tok}, is_merged={merged}, size={size}, rect={rect}, "
                            f"merge_range={mrange}), expected {want} for rectangles {self.rects}")
        if ranges != sorted(self.rects):
            return f"merge_ranges {names} expected exactly {sorted(self.rects)}"
        if names != sorted(xl_range(*q) for q in self.rects):
            return f"merge_ranges {names} expected {sorted(xl_range(*q) for q in self.rects)}"
        return None


def enc_edit(op) -> str:
    k = op[0]
    if k == "w":
        return f"w {op[1]} {op[2]} {op[3]}"
    if k in ("ar", "ac"):
        return f"{k} {op[1]} {enc_opt(op[2])} {enc_opt(op[3])}"
    return f"{k} {op[1]} {enc_opt(op[2])}"


def touches(op, pic: Picture) -> str:
    """where a row/column edit lies relative to the merged rectangles (histogram / coverage only)."""
    k = op[0]
    if k == "w" or not pic.rects:
        return "no-merge"
    rows = k in ("ar", "dr")
    dim = pic.grid.nr if rows else pic.grid.nc
    n, start = op[1], op[2]
    ins = k in ("ar", "ac")
    at = (dim if ins else dim - n) if start is None else start
    kinds = set()
    for q in pic.rects:
        lo, hi = (q[0], q[2]) if rows else (q[1], q[3])
        if at > hi:
            kinds.add("after")
        elif ins:
            kinds.add("before" if at <= lo else "inside")
        else:
            kinds.add("before" if at + n <= lo else ("all" if at <= lo and hi < at + n else "overlap"))
    for name in ("overlap", "all", "inside", "before", "after"):
        if name in kinds:
            return name
    return "after"


class MergeRunner:
    def __init__(self, shape):
        from numbers_parser import Document
        self.Document = Document
        self.shape = shape
        self.tokens = Tokens()
        self.doc = Document(num_rows=shape[0], num_cols=shape[1])
        self.pic = Picture(*shape)
        self.words, self.steps, self.violations, self.history = [], [], [], []
        self.hist = Counter()
        self.tmpdir = tempfile.mkdtemp(prefix="c12_")
        self.n = 0
        self.stopped = False

    @property
    def table(self):
        return self.doc.sheets[0].tables[0]

    def viol(self, sig, what):
        self.violations.append({"signature": sig, "what": what, "input": {"shape": list(self.shape), "ops": list(self.history)}})

    def save_reopen(self):
        self.n += 1
        p = os.path.join(self.tmpdir, f"m{self.n}.numbers")
        try:
            self.doc.save(p)
            return self.Document(p)
        finally:
            if os.path.exists(p):
                os.remove(p)

    def emit(self, status, v):
        self.steps.append(status + "=" + show_view(v))

    def step(self, sop):
        """sop: ["e", op] | ["mg", rect] | ["ml", [rects]] | ["sk"] | ["sv"] | ["x", op] (older replays: the edit, then "sk")."""
        if self.stopped:
            return
        if sop[0] == "x":
            self.step(["e", sop[1]])
            self.step(["sk"])
            return
        self.history.append(sop)
        kind = sop[0]
        before = view(self.table, self.tokens)
        if kind == "e":
            op = tuple(sop[1])
            self.words.append(enc_edit(op))
            cls = self.pic.grid.classify(op)
            into_placeholder = op[0] == "w" and cls == "valid" and (q := self.pic.owner(op[1], op[2])) is not None \
                and (op[1], op[2]) != (q[0], q[1])
            try:
                apply_op(self.table, op)
                status = "ok"
            except Exception as e:  # noqa: BLE001
                status = "err:" + exc_name(e)
            self.hist[f"{op[0]}:{cls}:{status}" + (":placeholder" if into_placeholder else "")
                      + ("" if op[0] == "w" or cls == "invalid" else ":" + touches(op, self.pic))] += 1
            after = view(self.table, self.tokens)
            self.emit(status, after)
            if status == "ok" and cls != "invalid":
                self.pic.apply(op)
            elif status != "ok" and after != before:
                self.viol(f"error-mutates:{op[0]}", f"{op} raised {status[4:]} but changed the table")
            elif status != "ok" and cls == "valid" and op[0] != "w":
                self.viol(f"edit-raises:{op[0]}", f"{op} on {self.pic.grid.nr}x{self.pic.grid.nc} with merges {self.pic.rects} raised {status[4:]}")
            if into_placeholder and status == "ok":
                # the property: every non-anchor cell of a rectangle stays a placeholder without a value,
                # and the open document shows what the saved file shows
                self.pic.grid.cells[op[1]][op[2]] = 0
                new = self.save_reopen()
                re = view(new.sheets[0].tables[0], self.tokens)
                if after != re:
                    self.viol("write-into-placeholder",
                              f"write{op[1:]} into a placeholder of {self.pic.owner(op[1], op[2])}: open document shows "
                              f"{show_view(after)}, the saved file {show_view(re)}")
                bad = self.pic.mismatch(re)
                if bad:
                    self.viol("reload:picture", f"after write{op[1:]} + reopen: {bad}")
                # continue on the reopened document (model: sv)
                self.history.append(["sv"])
                self.words.append("sv")
                self.doc = new
                self.emit("ok", re)
                return
            bad = self.pic.mismatch(after)
            if bad:
                self.viol(f"picture:{op[0]}", f"after {op}: {bad}")
        elif kind in ("mg", "ml"):
            rects = [tuple(sop[1])] if kind == "mg" else [tuple(q) for q in sop[1]]
            if kind == "mg":
                self.words.append("mg " + " ".join(map(str, rects[0])))
                arg = a1(*rects[0])
            else:
                self.words.append(f"ml {len(rects)} " + " ".join(" ".join(map(str, q)) for q in rects))
                arg = [a1(*q) for q in rects]
            try:
                self.table.merge_cells(arg)
                status = "ok"
            except Exception as e:  # noqa: BLE001
                status = "err:" + exc_name(e)
            self.hist[f"{kind}:{status}"] += 1
            after = view(self.table, self.tokens)
            self.emit(status, after)
            if status != "ok":
                self.viol("merge-raises", f"merge_cells({arg!r}) raised {status[4:]}")
                self.stopped = True
                return
            for q in rects:
                self.pic.merge(q)
            bad = self.pic.mismatch(after)
            if bad:
                self.viol("picture:merge", f"after merge_cells({arg!r}) on {self.pic.grid.nr}x{self.pic.grid.nc}: {bad}")
        elif kind in ("sk", "sv"):
            self.words.append(kind)
            try:
                new = self.save_reopen()
            except Exception as e:  # noqa: BLE001
                self.viol("save-raises", f"save/reopen raised {exc_name(e)}: {e}")
                self.stopped = True
                return
            now = view(self.table, self.tokens)
            if now != before:
                self.viol("save-mutates", f"save changed the open document: {show_view(before)} -> {show_view(now)}")
            re = view(new.sheets[0].tables[0], self.tokens)
            self.hist[kind] += 1
            if re != now:
                self.viol("open-vs-reloaded", f"open document {show_view(now)} but the saved file reopens to {show_view(re)}")
            bad = self.pic.mismatch(re)
            if bad:
                self.viol("reload:picture", f"reopened file: {bad}")
            if kind == "sv":
                self.doc = new
            self.emit("ok", view(self.table, self.tokens))
        else:
            raise AssertionError(sop)

    def finish(self):
        try:
            os.rmdir(self.tmpdir)
        except OSError:
            pass
        return {"request": f"merge hist {self.shape[0]} {self.shape[1]} " + " ".join(self.words),
                "impl": "ok " + "|".join(self.steps), "violations": self.violations, "hist": dict(self.hist)}


def run_scenario(job):
    shape, ops = job
    r = MergeRunner(tuple(shape))
    for sop in ops:
        r.step(sop)
    return r.finish()


# ---------------------------------------------------------------------------------------------
def all_rects(nr, nc):
    return [(r0, c0, r1, c1) for r0 in range(nr) for c0 in range(nc) for r1 in range(r0, nr) for c1 in range(c0, nc)]


def all_edits(nr, nc, defaults=True):
    """every accepted insertion / deletion of 1 or 2 rows / columns of an nr x nc table."""
    out = []
    for k, dim in (("ar", nr), ("ac", nc)):
        for n in (1, 2):
            for start in [None, *range(dim)]:
                for d in ([None, 7] if defaults else [None]):
                    out.append((k, n, start, d))
    for k, dim in (("dr", nr), ("dc", nc)):
        for n in (1, 2):
            for start in [None, *range(dim)]:
                if n < dim and (start is None or start + n <= dim):
                    out.append((k, n, start))
    return out


def disjoint(a, b) -> bool:
    return a[2] < b[0] or b[2] < a[0] or a[3] < b[1] or b[3] < a[1]


def gen_rects(rng: random.Random, nr, nc, have, want):
    out = []
    for _ in range(60):
        if len(out) >= want:
            break
        kind = rng.random()
        h = 1 if kind < 0.25 else rng.randrange(1, min(nr, 5) + 1)
        w = 1 if 0.25 <= kind < 0.5 else rng.randrange(1, min(nc, 5) + 1)
        if h == 1 and w == 1 and rng.random() < 0.8:
            continue
        edge = rng.random()
        r0 = 0 if edge < 0.15 else (nr - h if edge < 0.3 else rng.randrange(0, nr - h + 1))
        c0 = 0 if 0.3 <= edge < 0.45 else (nc - w if 0.45 <= edge < 0.6 else rng.randrange(0, nc - w + 1))
        q = (r0, c0, r0 + h - 1, c0 + w - 1)
        if all(disjoint(q, p) for p in have + out):
            out.append(q)
    return out


def gen_scenario(seed: int):
    from checks.c03 import gen_edit
    rng = random.Random(seed)
    nr, nc = rng.choice([(3, 3), (4, 3), (5, 4), (6, 6), (12, 8), (8, 2), (2, 7), (12, 8)])
    pic = Picture(nr, nc)
    ops = []

    def plan(op):
        cls = pic.grid.classify(op)
        if cls == "valid":
            pic.apply(op)
            if op[0] == "w" and (q := pic.owner(op[1], op[2])) and (op[1], op[2]) != (q[0], q[1]):
                pic.grid.cells[op[1]][op[2]] = 0
        ops.append(["e", list(op)])

    def aimed_edit():
        """a row/column insertion or deletion placed relative to one rectangle: before it, at its first index, strictly
        inside, at its last index, just after it; deletions of 1..3 rows/columns reach over its edges or swallow it."""
        q = rng.choice(pic.rects)
        rows = rng.random() < 0.5
        lo, hi = (q[0], q[2]) if rows else (q[1], q[3])
        dim = pic.grid.nr if rows else pic.grid.nc
        at = rng.choice([0, max(lo - 1, 0), lo, min(lo + 1, dim - 1), hi, min(hi + 1, dim - 1), rng.randrange(lo, hi + 1)])
        if rng.random() < 0.5 and dim < 14:
            return ("ar" if rows else "ac", rng.choice([1, 1, 2, 3]), at, rng.randrange(1, 13) if rng.random() < 0.35 else None)
        n = rng.choice([1, 1, 2, 3, hi - lo + 1, hi - lo + 2])
        at = min(at, dim - n)
        if n >= dim or at < 0:
            return ("dr" if rows else "dc", 1, min(lo, dim - 1))
        return ("dr" if rows else "dc", n, at)

    for _ in range(rng.randrange(0, 6)):          # edits before any merge
        plan(gen_edit(rng, pic.grid))
    for _round in range(rng.randrange(1, 4)):
        qs = gen_rects(rng, pic.grid.nr, pic.grid.nc, pic.rects, rng.randrange(1, 4))
        if qs:
            if len(qs) == 1 and rng.random() < 0.6:
                ops.append(["mg", list(qs[0])])
            else:
                ops.append(["ml", [list(q) for q in qs]])
            for q in qs:
                pic.merge(q)
        for _ in range(rng.randrange(1, 8)):
            x = rng.random()
            if x < 0.12:
                ops.append(["sk"])
            elif x < 0.3:
                ops.append(["sv"])
            elif x < 0.45 and pic.rects:          # a write aimed at a rectangle (anchor or placeholder)
                q = rng.choice(pic.rects)
                r, c = rng.randrange(q[0], q[2] + 1), rng.randrange(q[1], q[3] + 1)
                if (r, c) != (q[0], q[1]) and rng.random() < 0.5:
                    r, c = q[0], q[1]
                plan(("w", r, c, rng.randrange(1, 13)))
            elif x < 0.75 and pic.rects:          # a row/column edit aimed at a rectangle
                plan(aimed_edit())
                if rng.random() < 0.5:
                    ops.append(["sk"])
            else:
                plan(gen_edit(rng, pic.grid))
    ops.append(["sv"])
    return (nr, nc), ops


def _pool():
    n = max(1, min(12, (os.cpu_count() or 2) - 2))
    return mp.get_context("fork").Pool(n)


def _collect(ctx: Ctx, name, results, exhaustive):
    per_sig = Counter(v["signature"] for v in ctx.violations)
    for r in results:
        for v in r["violations"]:
            per_sig[v["signature"]] += 1
            if per_sig[v["signature"]] <= 3:          # a few replays per failure class are enough
                ctx.violation(v["signature"], v["what"], v["input"])
        for k, n in r["hist"].items():
            ctx.histogram["step " + k] += n
    ctx.correspond(name, [r["request"] for r in results], [r["impl"] for r in results], exhaustive=exhaustive, keep=2)


def tall_probe(ctx: Ctx):
    """origins with row >= 65536 (the packing keeps 16 bits of the row)."""
    wide = run_scenario(((2, 300), [["mg", [0, 10, 1, 290]], ["sk"], ["sv"], ["e", ["w", 0, 10, 3]], ["sk"]]))
    for v in wide["violations"]:
        ctx.violation(v["signature"], v["what"][:600], v["input"])
    ctx.correspond("wide table: a 2x281 rectangle (sizes above 255)", [wide["request"]], [wide["impl"]], exhaustive=True, keep=0)
    res = run_scenario(((65540, 1), [["mg", [100, 0, 700, 0]], ["mg", [65535, 0, 65535, 0]], ["sv"],
                                     ["mg", [65536, 0, 65537, 0]], ["sk"]]))
    seen = False
    for v in res["violations"]:
        if v["signature"] in ("open-vs-reloaded", "reload:picture"):
            if not seen:
                ctx.violation("merge-origin-row-over-65535",
                              "merge_cells('A65537:A65538') on a 65540x1 table: the open document reports the merge, the "
                              "saved file reopens without it (the origin row is packed into 16 bits)",
                              {"shape": [65540, 1], "ops": [["mg", [65536, 0, 65537, 0]], ["sk"]]})
            seen = True
        else:
            ctx.violation(v["signature"], v["what"][:600], v["input"])
    ctx.correspond("tall table: a 601x1 rectangle, a merge at row 65535 (survive) and one at row 65536 (packed origin overflows 16 bits)",
                   [res["request"]], [res["impl"]], exhaustive=True, keep=0)


FIXTURES_WITH_MERGES = ["test-9.numbers", "test-4.numbers", "issue-59.numbers", "issue-77.numbers", "test-titles.numbers",
                        "test-styles.numbers", "test-custom-formats.numbers"]


def _merge_picture(tb):
    """(sorted merge ranges, per cell: 'A'+size for an anchor, 'P'+rect for a placeholder, '.' otherwise)"""
    from numbers_parser import MergedCell
    cells = []
    for r in range(tb.num_rows):
        for c in range(tb.num_cols):
            cell = tb.cell(r, c)
            if isinstance(cell, MergedCell):
                cells.append(f"P{cell.row_start},{cell.col_start},{cell.row_end},{cell.col_end}")
            elif cell.is_merged:
                cells.append(f"A{cell.size[0]}x{cell.size[1]}")
            else:
                cells.append(".")
    return sorted(tb.merge_ranges), cells


def fixture_merges(ctx: Ctx):
    """documents written by Numbers that already contain merged regions: a further disjoint rectangle is merged through
    the API, the picture is checked on the open document and after save + reopen (oracle only; the model's scenarios are
    on new documents)."""
    import tempfile
    from numbers_parser import Document
    from numbers_parser.xrefs import xl_range
    rng = ctx.rng
    for name in FIXTURES_WITH_MERGES:
        path = common.REPO / "tests/data" / name
        if not path.exists():
            continue
        for variant in range(2 if ctx.quick else 6):
            try:
                doc = Document(str(path))
            except Exception:  # noqa: BLE001  (unreadable fixtures are other properties)
                break
            tables = [(si, ti) for si, sh in enumerate(doc.sheets) for ti, tb in enumerate(sh.tables) if tb.merge_ranges]
            if not tables:
                break
            si, ti = tables[variant % len(tables)]
            tb = doc.sheets[si].tables[ti]
            nr, nc = tb.num_rows, tb.num_cols
            if nr * nc > 1200:
                continue
            before_ranges, before_cells = _merge_picture(tb)
            taken = {(r, c) for r in range(nr) for c in range(nc) if before_cells[r * nc + c] != "."}
            cands = [q for q in all_rects(nr, nc) if (q[2] - q[0] + 1) * (q[3] - q[1] + 1) in (2, 3, 4, 6)
                     and not any((r, c) in taken for r in range(q[0], q[2] + 1) for c in range(q[1], q[3] + 1))]
            if not cands:
                continue
            q = rng.choice(cands)
            ref = xl_range(*q)
            where = {"fixture": name, "sheet": si, "table": ti, "merge": ref}
            try:
                tb.merge_cells(ref)
            except Exception as e:  # noqa: BLE001
                ctx.violation("fixture-merge-raises", f"{name}: merge_cells({ref!r}) raised {exc_name(e)}: {e}", where)
                continue
            want_ranges = sorted(before_ranges + [ref])
            h, w = q[2] - q[0] + 1, q[3] - q[1] + 1
            want_cells = list(before_cells)
            for r in range(q[0], q[2] + 1):
                for c in range(q[1], q[3] + 1):
                    want_cells[r * nc + c] = f"A{h}x{w}" if (r, c) == (q[0], q[1]) else f"P{q[0]},{q[1]},{q[2]},{q[3]}"
            got = _merge_picture(tb)
            if got != (want_ranges, want_cells):
                ctx.violation("fixture-merge-open-picture", f"{name}: after merge_cells({ref!r}) the open document reports ranges "
                              f"{got[0]} (expected {want_ranges})" + ("" if got[1] == want_cells else "; cell states differ"), where)
                continue
            fd, tmp = tempfile.mkstemp(suffix=".numbers")
            os.close(fd)
            try:
                doc.save(tmp)
                tb2 = Document(tmp).sheets[si].tables[ti]
                got2 = _merge_picture(tb2)
            except Exception as e:  # noqa: BLE001
                ctx.violation("fixture-merge-save-raises", f"{name}: save/reopen after merge_cells({ref!r}) raised {exc_name(e)}: {e}", where)
                continue
            finally:
                os.unlink(tmp)
            ctx.count("documents written by Numbers with merged regions: one more disjoint rectangle merged, open vs reopened", 1)
            ctx.mark(("fixture-merge", name, si, ti, ref))
            if got2 != (want_ranges, want_cells):
                ctx.violation("fixture-merge-open-vs-reloaded",
                              f"{name} sheet {si} table {ti}: merged {ref} next to the existing {before_ranges}; the open document "
                              f"reports {want_ranges}, the reopened file {got2[0]}"
                              + ("" if got2[1] == want_cells or got2[0] != want_ranges else " (cell states differ)"), where)


def _sibling_case(case):
    """one history with a second table / sheet added next to a table that has merged regions.  Returns a list of
    (signature, what) - empty when every table reports exactly its own rectangles, on the open document and reopened."""
    import tempfile
    from numbers_parser import Document
    from numbers_parser.xrefs import xl_range
    problems = []
    if case.get("fixture"):
        doc = Document(str(common.REPO / "tests/data" / case["fixture"]))
        si, ti = case["sheet"], case["table"]
    else:
        doc = Document(num_rows=case["shape"][0], num_cols=case["shape"][1])
        si, ti = 0, 0
        doc.sheets[0].tables[0].merge_cells(xl_range(*case["first"]))
    tmpfiles = []

    def cycle(d, keep):
        fd, tmp = tempfile.mkstemp(suffix=".numbers")
        os.close(fd)
        tmpfiles.append(tmp)
        d.save(tmp)
        return d if keep else Document(tmp)
    try:
        if case["before"] == "save-keep":
            doc = cycle(doc, True)
        elif case["before"] == "save-reopen":
            doc = cycle(doc, False)
        first = doc.sheets[si].tables[ti]
        want_first = _merge_picture(first)
        nr, nc = case["new_shape"]
        t2 = doc.sheets[si].add_table(num_rows=nr, num_cols=nc)
        doc.add_sheet(num_rows=nr, num_cols=nc)
        t3 = doc.sheets[-1].tables[0]
        empty = ([], ["."] * (nr * nc))
        for label, tb in (("a table added to the same sheet", t2), ("the table of an added sheet", t3)):
            got = _merge_picture(tb)
            if got != empty:
                problems.append(("new-table-reports-merges", f"{label} (never merged) reports merge ranges {got[0]} and "
                                 f"{sum(1 for x in got[1] if x != '.')} merged / placeholder cells on the open document; its sibling has {want_first[0]}"))
        want2 = empty
        if case.get("second") and not problems:
            q = case["second"]
            t2.merge_cells(xl_range(*q))
            cells = ["."] * (nr * nc)
            for r in range(q[0], q[2] + 1):
                for c in range(q[1], q[3] + 1):
                    cells[r * nc + c] = f"A{q[2]-q[0]+1}x{q[3]-q[1]+1}" if (r, c) == (q[0], q[1]) else f"P{q[0]},{q[1]},{q[2]},{q[3]}"
            want2 = ([xl_range(*q)], cells)
            if _merge_picture(t2) != want2:
                problems.append(("picture:merge", f"merge_cells({xl_range(*q)}) on the added table: open document reports {_merge_picture(t2)[0]}"))
            if _merge_picture(first) != want_first:
                problems.append(("merge-shows-up-in-sibling-table", f"merging {xl_range(*q)} in the added table changed its sibling: "
                                 f"{_merge_picture(first)[0]} (was {want_first[0]})"))
        d2 = cycle(doc, False)
        for label, tb, want in (("the first table", d2.sheets[si].tables[ti], want_first),
                                ("the added table", d2.sheets[si].tables[-1], want2),
                                ("the table of the added sheet", d2.sheets[-1].tables[0], empty)):
            got = _merge_picture(tb)
            if got != want:
                problems.append(("open-vs-reloaded" if want[0] else "new-table-reports-merges",
                                 f"{label}: open document {want[0]}, reopened file {got[0]}"
                                 + ("" if got[0] != want[0] else " (cell states differ)")))
    finally:
        for t in tmpfiles:
            if os.path.exists(t):
                os.unlink(t)
    return problems


def sibling_tables(ctx: Ctx):
    """tables and sheets added next to a table with merged regions (before any save, after a save of the open document,
    after save + reopen, on documents written by Numbers): a new table has no merged region, a merge in it does not touch
    its sibling, and every table reopens with exactly its own rectangles (oracle only)."""
    rng = ctx.rng
    cases = []
    for before in ("none", "save-keep", "save-reopen"):
        for k in range(2 if ctx.quick else 8):
            nr, nc = rng.randrange(4, 9), rng.randrange(3, 7)
            q = rng.choice([x for x in all_rects(nr, nc) if (x[2] - x[0] + 1) * (x[3] - x[1] + 1) > 1])
            n2 = (rng.randrange(4, 9), rng.randrange(3, 7)) if k % 2 else (nr, nc)
            q2 = rng.choice([x for x in all_rects(*n2) if (x[2] - x[0] + 1) * (x[3] - x[1] + 1) > 1]) if k != 1 else None
            cases.append({"shape": [nr, nc], "first": list(q), "before": before, "new_shape": list(n2),
                          "second": list(q2) if q2 else None})
    for name in FIXTURES_WITH_MERGES[: 3 if ctx.quick else None]:
        path = common.REPO / "tests/data" / name
        if not path.exists():
            continue
        try:
            from numbers_parser import Document
            doc = Document(str(path))
            tabs = [(si, ti, tb.num_rows, tb.num_cols) for si, sh in enumerate(doc.sheets) for ti, tb in enumerate(sh.tables)
                    if tb.merge_ranges and tb.num_rows * tb.num_cols <= 1200]
        except Exception:  # noqa: BLE001
            continue
        if tabs:
            si, ti, nr, nc = tabs[0]
            cases.append({"fixture": name, "sheet": si, "table": ti, "before": "none", "new_shape": [min(nr, 8), min(nc, 6)],
                          "second": [0, 0, 1, 1]})
    for case in cases:
        try:
            problems = _sibling_case(case)
        except Exception as e:  # noqa: BLE001
            problems = [("sibling-table-history-raises", f"{exc_name(e)}: {e}")]
        ctx.count("a table and a sheet added next to a table with merged regions (new / saved / reopened / written by Numbers): "
                  "every table reports exactly its own rectangles, open and reopened", 1)
        ctx.mark(("sibling", json.dumps(case, sort_keys=True)))
        for sig, what in problems:
            ctx.violation(sig, what[:600], {"sibling": case})
def fixture_edits(ctx: Ctx):
    """documents written by Numbers that contain merged regions: one row/column insertion or deletion placed relative to
    one of the existing rectangles; the rectangles expected afterwards come from the picture oracle (`Picture.apply`), the
    open document and the reopened file must both show them (oracle only; the model's scenarios are on new documents)."""
    from numbers_parser import Document
    rng = ctx.rng
    for name in FIXTURES_WITH_MERGES:
        path = common.REPO / "tests/data" / name
        if not path.exists():
            continue
        for variant in range(2 if ctx.quick else 8):
            try:
                doc = Document(str(path))
            except Exception:  # noqa: BLE001  (unreadable fixtures are other properties)
                break
            tables = [(si, ti) for si, sh in enumerate(doc.sheets) for ti, tb in enumerate(sh.tables) if tb.merge_ranges]
            if not tables:
                break
            si, ti = tables[(variant * 3) % len(tables)]
            tb = doc.sheets[si].tables[ti]
            nr, nc = tb.num_rows, tb.num_cols
            if nr * nc > 1200:
                continue
            pic = Picture(nr, nc)
            pic.rects = [parse_range(s) for s in sorted(tb.merge_ranges)]
            q = rng.choice(pic.rects)
            rows = rng.random() < 0.5
            lo, hi = (q[0], q[2]) if rows else (q[1], q[3])
            dim = nr if rows else nc
            at = rng.choice([0, lo, min(lo + 1, dim - 1), hi, rng.randrange(lo, hi + 1)])
            if rng.random() < 0.5:
                op = ("ar" if rows else "ac", rng.choice([1, 2]), at, None)
            else:
                n = rng.choice([1, 2, hi - lo + 1])
                if n >= dim:
                    n = 1
                op = ("dr" if rows else "dc", n, min(at, dim - n))
            where = {"fixture": name, "sheet": si, "table": ti, "op": list(op), "merges": [list(r) for r in pic.rects]}
            try:
                apply_op(tb, op)
            except Exception as e:  # noqa: BLE001
                ctx.violation("fixture-edit-raises", f"{name}: {op} raised {exc_name(e)}: {e}", where)
                continue
            pic.apply(op)
            want_ranges = sorted(a1(*r) if (r[0], r[1]) != (r[2], r[3]) else a1(*r).split(":")[0] for r in pic.rects)
            want_cells = ["."] * (pic.grid.nr * pic.grid.nc)
            for r0, c0, r1, c1 in pic.rects:
                for r in range(r0, r1 + 1):
                    for c in range(c0, c1 + 1):
                        want_cells[r * pic.grid.nc + c] = f"A{r1 - r0 + 1}x{c1 - c0 + 1}" if (r, c) == (r0, c0) else f"P{r0},{c0},{r1},{c1}"
            got = _merge_picture(tb)
            if got != (want_ranges, want_cells):
                ctx.violation("fixture-edit-open-picture", f"{name} sheet {si} table {ti}: merges {where['merges']}, then {op}: the open "
                              f"document reports ranges {got[0]} (expected {want_ranges})"
                              + ("" if got[1] == want_cells else "; cell states differ"), where)
                continue
            fd, tmp = tempfile.mkstemp(suffix=".numbers")
            os.close(fd)
            try:
                doc.save(tmp)
                got2 = _merge_picture(Document(tmp).sheets[si].tables[ti])
            except Exception as e:  # noqa: BLE001
                ctx.violation("fixture-edit-save-raises", f"{name}: save/reopen after {op} raised {exc_name(e)}: {e}", where)
                continue
            finally:
                os.unlink(tmp)
            ctx.count("documents written by Numbers with merged regions: one row/column edit at a rectangle, open vs reopened", 1)
            ctx.mark(("fixture-edit", name, si, ti, op))
            if got2 != (want_ranges, want_cells):
                ctx.violation("fixture-edit-open-vs-reloaded",
                              f"{name} sheet {si} table {ti}: merges {where['merges']}, then {op}: the open document reports "
                              f"{want_ranges}, the reopened file {got2[0]}"
                              + ("" if got2[1] == want_cells or got2[0] != want_ranges else " (cell states differ)"), where)
def translated_source_stream(ctx: Ctx):
    """The packing loop of recalculate_merged_cells and the unpacking loop of calculate_merge_cell_ranges run on a real
    document whose merge map / merge-region object is set up by the harness (arbitrary anchors, arbitrary stored uint32
    values), vs the loop bodies py2lean translated from model.py."""
    import common
    from numbers_parser import Document
    from numbers_parser.generated import TSTArchives_pb2 as TSTArchives
    from numbers_parser.model import MergeCells, _NumbersModel
    rng = ctx.rng
    doc = Document(num_header_rows=0, num_header_cols=0, num_rows=2, num_cols=2)
    table = doc.sheets[0].tables[0]
    model, tid = table._model, table._table_id
    model.merge_cells(tid)      # prime the @cache of calculate_merge_cell_ranges (nothing stored in a new document)
    bds = model.objects[tid].base_data_store

    edge = [0, 1, 2, 255, 256, 65534, 65535, 65536, 65537, 70000, 2**31, -1, -2, -65536]
    quads = [(r, c, 1, 1) for r in edge for c in edge] + [(1, 1, h, w) for h in edge for w in edge] + \
        [tuple(rng.choice(edge + [rng.randrange(0, 65536)]) for _ in range(4)) for _ in range(150 if ctx.quick else 3000)]
    req, out = [], []
    for (r, c, h, w) in quads:
        mc = MergeCells()
        mc.add_anchor(r, c, (h, w))
        model._merge_cells[tid] = mc
        req.append(f"merge pack {r} {c} {h} {w}")
        try:
            model.recalculate_merged_cells(tid)
            cr = model.objects[bds.merge_region_map.identifier].cell_range
            o, sz = cr[0].origin.packedData, cr[0].size.packedData
            out.append(f"ok {o} {sz}")
            # the clause itself, on the real code: what was stored reads back as the anchor (below 2^16)
            if 0 <= min(r, c, h, w) and max(r, c, h, w) < 65536 and ((o >> 16, o & 0xFFFF), (sz >> 16, sz & 0xFFFF)) != ((c, r), (w, h)):
                ctx.violation("merge-pack-fields", f"anchor ({r},{c}) size ({h},{w}) stored as origin {o}, size {sz}",
                              {"anchor": [r, c], "size": [h, w]})
        except Exception as e:  # noqa: BLE001
            out.append("err " + exc_name(e))
    model._merge_cells[tid] = MergeCells()
    common.translated_only_stream(ctx, "recalculate_merged_cells on harness-made anchors (fields at 0 / 2^16 / 2^31 / negative) "
                                       "vs the loop body translated from the source", req, out)

    pairs = []
    for r, c in [(0, 0), (1, 2), (65535, 0), (0, 65535), (65535, 65535), (300, 7)] + \
            [(rng.randrange(65536), rng.randrange(65536)) for _ in range(40 if ctx.quick else 1000)]:
        for h, w in ((1, 1), (2, 1), (1, 3), (2, 2), (0, 0), (0, 2), (3, 0)):
            pairs.append((c << 16 | r, w << 16 | h))
    req, out = [], []
    raw = getattr(_NumbersModel.calculate_merge_cell_ranges, "__wrapped__", None)
    for o, sz in pairs:
        mm_id, mm = model.objects.create_object_from_dict("CalculationEngine", {}, TSTArchives.MergeRegionMapArchive)
        mm.cell_range.append(TSTArchives.CellRange(origin=TSTArchives.CellID(packedData=o), size=TSTArchives.TableSize(packedData=sz)))
        model.set_reference(bds.merge_region_map, mm_id)
        model._merge_cells[tid] = MergeCells()
        req.append(f"merge unpack {o} {sz}")
        try:
            if raw is None:
                raise RuntimeError("calculate_merge_cell_ranges is no longer a @cache-wrapped method")
            raw(model, tid)
            mc = model._merge_cells[tid]
            (r0, c0), = mc.merge_cells()
            nr, nc = mc.size((r0, c0))
            rects = {mc.rect(k) for k in list(mc._references) if mc.is_merge_reference(k)}
            if len(rects) > 1:
                out.append(f"several-rects {sorted(rects)}")
                continue
            r1, c1 = (next(iter(rects))[2:] if rects else (r0 + nr - 1, c0 + nc - 1))   # no reference cell: derived
            out.append(f"ok {r0} {c0} {r1} {c1} {nr} {nc}")
            if rects and next(iter(rects))[:2] != (r0, c0):
                out[-1] = f"rect-origin-differs {next(iter(rects))}"
            if (r0, c0, nr, nc) != (o & 0xFFFF, o >> 16, sz & 0xFFFF, sz >> 16):
                ctx.violation("merge-unpack-fields", f"stored origin {o}, size {sz} read as anchor ({r0},{c0}) size ({nr},{nc})",
                              {"origin": o, "size": sz})
        except Exception as e:  # noqa: BLE001
            out.append("err " + exc_name(e))
    common.translated_only_stream(ctx, "calculate_merge_cell_ranges on harness-made merge-region objects vs the loop body "
                                       "translated from the source", req, out)
    common.python_operator_stream(ctx)


def run(ctx: Ctx):
    rng = ctx.rng
    translated_source_stream(ctx)
    with _pool() as pool:
        # --- corpus: the examples of DESIGN.md ----------------------------------------------------
        corpus = [
            ((5, 4), [["e", ["w", r, c, 1 + (4 * r + c) % 12]] for r in range(5) for c in range(4)] + [["mg", [1, 1, 2, 2]], ["sk"], ["sv"]]),
            ((6, 4), [["mg", [2, 1, 3, 2]], ["e", ["ar", 1, 0, None]], ["sk"]]),
            ((6, 4), [["mg", [2, 1, 3, 2]], ["e", ["ar", 1, 2, None]], ["sk"]]),
            ((6, 4), [["mg", [2, 1, 3, 2]], ["e", ["dc", 1, 0]], ["sk"]]),
            ((6, 4), [["e", ["w", 2, 1, 5]], ["mg", [2, 1, 3, 2]], ["e", ["ar", 2, 3, 7]], ["sk"], ["e", ["dr", 1, 2]], ["sk"],
                      ["e", ["dc", 1, 2]], ["sk"], ["e", ["dr", 3, 2]], ["sv"]]),
            ((5, 4), [["mg", [1, 1, 2, 2]], ["e", ["w", 2, 2, 3]]]),
            ((5, 4), [["ml", [[0, 0, 2, 0], [4, 1, 4, 3], [0, 3, 0, 3]]], ["sv"], ["e", ["ar", 2, None, 5]], ["e", ["dc", 0, None]], ["sk"]]),
        ]
        _collect(ctx, "corpus (DESIGN.md examples)", pool.map(run_scenario, corpus, chunksize=1), True)

        # --- exhaustive: every rectangle of 4x3, every disjoint pair of 3x3, both forms ---------------
        jobs = []
        for q in all_rects(4, 3):
            jobs.append(((4, 3), [["e", ["w", q[0], q[1], 2]], ["e", ["w", q[2], q[3], 3]], ["mg", list(q)], ["sk"], ["sv"]]))
            jobs.append(((4, 3), [["ml", [list(q)]], ["sv"], ["e", ["w", q[0], q[1], 4]], ["sk"]]))
        for a, b in itertools.combinations(all_rects(3, 3), 2):
            if disjoint(a, b):
                jobs.append(((3, 3), [["ml", [list(a), list(b)]], ["sv"]]))
                if not ctx.quick or (hash((a, b)) % 3 == 0):
                    jobs.append(((3, 3), [["mg", list(b)], ["sk"], ["mg", list(a)], ["sv"]]))
        _collect(ctx, "every rectangle of a 4x3 table; every pair of disjoint rectangles of a 3x3 table (single and list form), "
                      "each with save and save+reopen", pool.map(run_scenario, jobs, chunksize=8), True)

        # --- exhaustive: one rectangle (or two), one row/column edit anywhere ------------------------------
        # quick tier: every (rectangle, edit) pair runs against the model and the picture oracle; every fifth one also
        # saves and reopens (a save costs five times the rest of a scenario)
        jobs = []
        for shape in ([(3, 3)] if ctx.quick else [(3, 3), (4, 3)]):
            for q in all_rects(*shape):
                for op in all_edits(*shape, defaults=not ctx.quick and shape == (3, 3)):
                    save = [["sk"]] if not ctx.quick or len(jobs) % 5 == 0 else []
                    jobs.append((shape, [["e", ["w", q[0], q[1], 2]], ["e", ["w", q[2], q[3], 3]], ["mg", list(q)],
                                         ["e", list(op)], *save]))
        for q in all_rects(3, 3):                  # insertions with a default fill: strictly inside the rectangle they are lost
            for op in all_edits(3, 3):
                if ctx.quick and op[0][0] == "a" and op[3] is not None and op[1] == 1 and op[2] is not None:
                    jobs.append(((3, 3), [["mg", list(q)], ["e", list(op)], *([["sk"]] if len(jobs) % 5 == 0 else [])]))
        pairs = [(a, b) for a, b in itertools.combinations(all_rects(3, 3), 2) if disjoint(a, b)]
        for i, (a, b) in enumerate(pairs):
            if i % (16 if ctx.quick else 3) == 0:
                for op in all_edits(3, 3, defaults=False):
                    if not ctx.quick or (op[1] == 1 and op[2] is not None):
                        save = [["sv"]] if not ctx.quick or len(jobs) % 5 == 0 else []
                        jobs.append(((3, 3), [["ml", [list(a), list(b)]], ["e", list(op)], *save]))
        _collect(ctx, "every rectangle of a 3x3 table (thorough: and of a 4x3 table) followed by every accepted row/column insertion "
                      "or deletion of 1 or 2 (any start, appended / last ones; with and without default); every 16th (thorough: "
                      "third) pair of disjoint rectangles followed by such an edit; thorough: each with save + reopen, quick: "
                      "every fifth",
                 pool.map(run_scenario, jobs, chunksize=16), True)

        # --- seeded scenarios ---------------------------------------------------------------------------
        n = 150 if ctx.quick else 2500
        jobs = [gen_scenario(rng.randrange(1 << 30)) for _ in range(n)]
        _collect(ctx, "seeded scenarios: shapes up to 12x8, 1..6 rectangles, writes / row+column edits (before, inside, overlapping, "
                      "after the rectangles) / saves around them",
                 pool.map(run_scenario, jobs, chunksize=4), False)
    tall_probe(ctx)
    fixture_merges(ctx)
    sibling_tables(ctx)
    fixture_edits(ctx)


def replay(data):
    i = data.get("input", {})
    if "sibling" in i:
        return {"problems": _sibling_case(i["sibling"])}
    if "fixture" in i:                       # a document written by Numbers: redo the merge / the row-column edit, save, reopen
        from numbers_parser import Document
        doc = Document(str(common.REPO / "tests/data" / i["fixture"]))
        tb = doc.sheets[i["sheet"]].tables[i["table"]]
        before = _merge_picture(tb)[0]
        if "op" in i:
            apply_op(tb, tuple(i["op"]))
        else:
            tb.merge_cells(i["merge"])
        fd, tmp = tempfile.mkstemp(suffix=".numbers")
        os.close(fd)
        try:
            doc.save(tmp)
            re = _merge_picture(Document(tmp).sheets[i["sheet"]].tables[i["table"]])
        finally:
            os.unlink(tmp)
        now = _merge_picture(tb)
        return {"before": before, "open": now[0], "reopened": re[0], "cells_equal": now[1] == re[1]}
    r = MergeRunner(tuple(i["shape"]))
    for sop in i["ops"]:
        if sop[0] == "sv" and r.history and r.history[-1] == ["sv"]:
            continue
        r.step(sop)
    out = r.finish()
    return {"steps": [s[:400] for s in out["impl"][3:].split("|")],
            "violations": [{k: v[k] for k in ("signature", "what")} for v in out["violations"]]}
