"""C13, custom number patterns: correspondence streams + independent read-back oracle for
`_decode_number_format` / `_expand_quotes` / `_decode_text_format` / the dispatch in `Cell._custom_format`
and for the archive builder `add_custom_decimal_format_archive` (called from checks/c13.py)."""
from __future__ import annotations

import glob
import itertools
import re
from decimal import Decimal

from common import REPO, Ctx, enc_text, exc_name

PADDINGS = ("NONE", "ZEROS", "SPACES")
SPEC_CHARS = "#0.,"
# archive fields sent to / compared with the model, in protocol order
RENDER_FIELDS = ("custom_format_string", "scale_is_one", "currency_code", "show_thousands_separator",
                 "num_nonspace_integer_digits", "num_nonspace_decimal_digits")
BUILD_FIELDS = ("custom_format_string", "scale_is_one", "currency_code", "show_thousands_separator",
                "num_nonspace_integer_digits", "num_nonspace_decimal_digits", "requires_fraction_replacement",
                "contains_integer_token", "decimal_width", "index_from_right_last_integer", "is_complex",
                "min_integer_width", "num_hash_decimal_digits", "total_num_decimal_digits", "use_accounting_style")

# patterns a file written by Numbers can hold but the API cannot build: literal text containing the spec
# characters, digits, a repeated spec, quotes and escaped quotes around the number
HANDMADE = [
    "'No. '0", "'#'0", "0' of 10'", "'1.5x '#.##", "'a,b '#,##0.00' c.d'", "''0.0''", "'it''s '#.#", "0.00' 0.00'",
    "'0'0", "#,##0' #,##0'", "'('0.0')'", "'x'#'y'", "'''q'' '00.0", "0.0'''", "'abc",  "'ab'#.#'c", "00' 'E+00",
    "¤#,##0.00", "¤0' ¤'", "#,##0.00 ¤", "0%", "0.0' %'", "'%'0", "#.##%", "'50% '0",
]


def enc_dec(d: Decimal) -> str:
    s, digits, e = d.as_tuple()
    m = int("".join(map(str, digits))) if digits else 0
    return f"{s} {m} {e}"


def enc_float(v: float) -> str:
    """a float as the model receives it: Decimal(repr(v)) and the exact binary value Decimal(v)."""
    return f"{enc_dec(Decimal(repr(float(v))))} {enc_dec(Decimal(float(v)))}"


def archive_fields(d) -> dict:
    """plain fields of a TSK.FormatStructArchive (the default_format of a CustomFormatArchive)."""
    return {
        "custom_format_string": d.custom_format_string, "scale_is_one": d.scale_factor == 1.0, "scale_factor": d.scale_factor,
        "currency_code": d.currency_code, "show_thousands_separator": bool(d.show_thousands_separator),
        "num_nonspace_integer_digits": int(d.num_nonspace_integer_digits),
        "num_nonspace_decimal_digits": int(d.num_nonspace_decimal_digits),
        "requires_fraction_replacement": bool(d.requires_fraction_replacement),
        "contains_integer_token": bool(d.contains_integer_token), "decimal_width": int(d.decimal_width),
        "index_from_right_last_integer": int(d.index_from_right_last_integer), "is_complex": bool(d.is_complex),
        "min_integer_width": int(d.min_integer_width), "num_hash_decimal_digits": int(d.num_hash_decimal_digits),
        "total_num_decimal_digits": int(d.total_num_decimal_digits), "use_accounting_style": bool(d.use_accounting_style),
    }


def enc_field(v) -> str:
    if isinstance(v, bool):
        return str(int(v))
    if isinstance(v, str):
        return enc_text(v)
    return str(v)


def enc_fields(f: dict, names) -> str:
    return " ".join(enc_field(f[n]) for n in names)


# ---------------------------------------------------------------------------------------------
# the real code
# ---------------------------------------------------------------------------------------------
class CustomImpl:
    """formats are added to one in-memory document; every case is Table.write + Table.set_cell_formatting(..., "custom",
    format=...) + Cell.formatted_value."""

    def __init__(self):
        from numbers_parser import Document
        self.Document = Document
        self.new()

    def new(self):
        self.doc = self.Document(num_header_rows=0, num_header_cols=0, num_rows=2, num_cols=2)
        self.table = self.doc.sheets[0].tables[0]
        self.n = 0

    def api_format(self, ifmt, dfmt, ni, nd, thou):
        """(CustomFormatting, fields of the archive the library built)"""
        from numbers_parser import PaddingType
        if len(self.doc._model.custom_formats) > 400:
            self.new()
        cf = self.doc.add_custom_format(type="number", integer_format=PaddingType[ifmt], decimal_format=PaddingType[dfmt],
                                        num_integers=ni, num_decimals=nd, show_thousands_separator=thou)
        return cf, archive_fields(self.doc._model._custom_format_archives[cf.name].default_format)

    def archive_format(self, fields: dict):
        """a custom number format whose archive carries the given fields (as a file written by Numbers would): the library
        builds an archive through its API and the harness overwrites the fields the renderer reads."""
        if len(self.doc._model.custom_formats) > 400:
            self.new()
        cf = self.doc.add_custom_format(type="number", num_integers=1)
        m = self.doc._model
        flist = m.objects[m.objects[1].super.custom_format_list.identifier]        # DOCUMENT_ID = 1
        assert flist.custom_formats[-1].name == cf.name
        d = flist.custom_formats[-1].default_format                               # the archive the renderer reads
        d.custom_format_string = fields["custom_format_string"]
        d.scale_factor = fields["scale_factor"]
        d.currency_code = fields["currency_code"]
        d.show_thousands_separator = fields["show_thousands_separator"]
        d.num_nonspace_integer_digits = fields["num_nonspace_integer_digits"]
        d.num_nonspace_decimal_digits = fields["num_nonspace_decimal_digits"]
        return cf, archive_fields(d)

    def show(self, x, cf):
        """(text or None, 'ok <enc>' / 'err <Class>', value held by the cell)"""
        try:
            self.table.write(0, 0, x)
            self.table.set_cell_formatting(0, 0, "custom", format=cf)
            c = self.table.cell(0, 0)
            t = c.formatted_value
            return t, "ok " + enc_text(t), c.value
        except Exception as e:  # noqa: BLE001
            return None, "err " + exc_name(e), x


def fixture_archives() -> list[tuple[str, dict]]:
    """distinct custom *number* archives of the repository's reference workbooks (tests/data/*.numbers)."""
    from numbers_parser import Document
    from numbers_parser.constants import FormatType
    seen, out = set(), []
    for f in sorted(glob.glob(str(REPO / "tests" / "data" / "*.numbers"))):
        name = f.rsplit("/", 1)[-1]
        if not re.search(r"custom|format|issue-10|issue-66|test-2|test-8", name):
            continue
        try:
            doc = Document(f)
            fmts = doc._model.custom_format_map()
        except Exception:  # noqa: BLE001  (unsupported / damaged fixtures belong to C17)
            continue
        for a in fmts.values():
            if a.format_type != FormatType.CUSTOM_NUMBER or a.default_format.requires_fraction_replacement:
                continue
            fld = archive_fields(a.default_format)
            key = tuple(fld[k] for k in RENDER_FIELDS) + (fld["scale_factor"],)
            if key not in seen:
                seen.add(key)
                out.append((name, fld))
    return out


# ---------------------------------------------------------------------------------------------
# independent read-back oracle
# ---------------------------------------------------------------------------------------------
def unquote(s: str) -> str:
    out, i = [], 0
    while i < len(s):
        if s[i] == "'":
            if i + 1 < len(s) and s[i + 1] == "'":
                out.append("'")
                i += 2
            else:
                i += 1
        else:
            out.append(s[i])
            i += 1
    return "".join(out)


def split_pattern(fs: str):
    """(literal prefix, spec, literal suffix, percent) of a custom number pattern by Numbers' quoting convention: text in
    single quotes is literal, '' is a quote; the spec is the first run of # 0 . , outside quotes (+ E+dd)."""
    i, n, inq, start = 0, len(fs), False, None
    while i < n:
        ch = fs[i]
        if ch == "'":
            if i + 1 < n and fs[i + 1] == "'":
                i += 2
                continue
            if not inq and "'" not in fs[i + 1:]:
                i += 1                       # a lone, unterminated quote quotes nothing
                continue
            inq = not inq
        elif not inq and ch in SPEC_CHARS:
            start = i
            break
        i += 1
    if start is None:
        return None
    j = start
    while j < n and fs[j] in SPEC_CHARS:
        j += 1
    m = re.match(r"E\+[0-9]+", fs[j:])
    if m:
        j += m.end()
    return unquote(fs[:start]), fs[start:j], unquote(fs[j:])


BODY = re.compile(r"^( *)(-?)([0-9,]*)(?:\.([0-9]*)( *))?( *)$")
SCI_BODY = re.compile(r"^(-?)([0-9])(?:\.([0-9]+))?E([+-][0-9]{2,})$")
SIMPLE_SPEC = re.compile(r"^([#0,]*)(?:\.([#0]*))?(E\+[0-9][0-9])?$")


def check_custom(ctx: Ctx, text, held, fld: dict, inp, api=None):
    """the displayed text, with the pattern's literal text removed, read back as a number is the value (scaled by the
    format's scale factor, x100 for a percent pattern) rounded to the decimals the pattern shows; literal text passes
    through unchanged; grouping, padding and the sign only decorate."""
    fs = fld["custom_format_string"]
    if fld["currency_code"]:
        fs = fs.replace("\u00a4", fld["currency_code"] + "\u00a0")
    parts = split_pattern(fs)
    if parts is None:
        return                                          # a pattern without a number shows no number
    prefix, spec, suffix = parts
    m = SIMPLE_SPEC.match(spec)
    if not m or spec in (".", ",") or not re.search(r"[#0]", spec):
        return                                          # not a well-formed spec (two dots, comma among decimals, ...)
    if text is None:
        ctx.violation("custom-raises", f"{inp}", inp)
        return
    if not (text.startswith(prefix) and text.endswith(suffix) and len(text) >= len(prefix) + len(suffix)):
        ctx.violation("custom-literal-text", f"{inp} displays {text!r}: literal text {prefix!r} … {suffix!r} expected", inp)
        return
    body = text[len(prefix): len(text) - len(suffix)]
    nd = len(m.group(2) or "")
    percent = "%" in fld["custom_format_string"] and fld["scale_is_one"]
    target = Decimal(repr(float(held))) * Decimal(repr(float(fld["scale_factor"]))) * (100 if percent else 1)
    scaled = percent or not fld["scale_is_one"]
    slack = abs(target) * Decimal(2) ** -50 if scaled else Decimal(0)      # the code multiplies in floating point
    if m.group(3):
        ms = SCI_BODY.match(body)
        if not ms:
            ctx.violation("custom-scientific-notation", f"{inp} displays {text!r}", inp)
            return
        shown = len(ms.group(3) or "")
        read = Decimal(body)
        unit = Decimal(1).scaleb(int(ms.group(4)) - shown)
        exact = Decimal(float(held) * float(fld["scale_factor"]) * (100.0 if percent else 1.0))
        if shown != nd or abs(read - exact) * 2 > unit or (ms.group(2) == "0" and exact != 0):
            ctx.violation("custom-scientific-magnitude", f"{inp} displays {text!r}, value {exact}", inp)
        return
    mb = BODY.match(body)
    if not mb:
        sig = "exponent-notation" if re.search(r"[0-9]e[-+]?[0-9]", body) else "not-a-number"
        ctx.violation(f"custom-{sig}", f"{inp} displays {text!r}", inp)
        return
    ip, fp = mb.group(3), mb.group(4) or ""
    thousands = fld["show_thousands_separator"]
    ipd = ip.replace(",", "")
    if "," in ip and (not thousands or not re.match(r"^[0-9]{1,3}(,[0-9]{3})*$", ip)):
        ctx.violation("custom-grouping", f"{inp} displays {text!r}", inp)
        return
    if thousands and "," not in ip and len(ipd) > 3:
        ctx.violation("custom-grouping", f"{inp} displays {text!r}", inp)
        return
    if len(fp) > nd:
        ctx.violation("custom-places-shown", f"{inp} displays {text!r}: {len(fp)} decimals shown, the pattern has {nd}", inp)
        return
    read = Decimal((ipd or "0") + "." + (fp or "0"))
    unit = Decimal(1).scaleb(-nd)
    if abs(read - abs(target)) * 2 > unit + slack:
        ctx.violation("custom-magnitude", f"{inp} displays {text!r}, value {target}", inp)
        return
    if bool(mb.group(2)) != (target < 0 and read != 0):
        ctx.violation("custom-sign", f"{inp} displays {text!r}, value {target}", inp)
        return
    if api is not None:
        ifmt, dfmt, ni, _nd = api
        if dfmt == "ZEROS" and len(fp) != nd:
            ctx.violation("custom-places-shown", f"{inp} displays {text!r}: {len(fp)} decimals shown, {nd} zero-padded asked", inp)
        elif ifmt == "ZEROS" and len(ipd) < ni:
            ctx.violation("custom-padding", f"{inp} displays {text!r}: fewer than {ni} integer digits", inp)
        elif ifmt != "ZEROS" and len(ipd) > 1 and ipd[0] == "0":
            ctx.violation("custom-padding", f"{inp} displays {text!r}: leading zero without zero padding", inp)


# ---------------------------------------------------------------------------------------------
# streams
# ---------------------------------------------------------------------------------------------
def request(fld: dict, held) -> str:
    v = held * fld["scale_factor"]              # value *= number_format.scale_factor
    w = v * 100.0                               # value *= 100.0
    return f"customfmt num {enc_fields(fld, RENDER_FIELDS)} {enc_float(v)} {enc_float(w)}"


REPRESENTATIVE = [  # (integer_format, decimal_format, num_integers, num_decimals, show_thousands_separator)
    ("NONE", "NONE", 1, 0, False), ("NONE", "NONE", 1, 2, False), ("NONE", "NONE", 0, 3, False), ("NONE", "NONE", 4, 2, True),
    ("NONE", "ZEROS", 1, 2, False), ("NONE", "ZEROS", 3, 6, True), ("NONE", "SPACES", 2, 3, False), ("NONE", "SPACES", 0, 2, False),
    ("ZEROS", "NONE", 3, 0, False), ("ZEROS", "NONE", 5, 2, True), ("ZEROS", "ZEROS", 1, 2, False), ("ZEROS", "ZEROS", 6, 4, True),
    ("ZEROS", "ZEROS", 2, 6, False), ("ZEROS", "SPACES", 4, 3, True), ("ZEROS", "SPACES", 2, 1, False),
    ("SPACES", "NONE", 3, 0, False), ("SPACES", "NONE", 5, 4, True), ("SPACES", "NONE", 2, 1, False), ("SPACES", "ZEROS", 4, 2, True),
    ("SPACES", "ZEROS", 1, 5, False), ("SPACES", "SPACES", 6, 3, True), ("SPACES", "SPACES", 3, 2, False),
    ("ZEROS", "ZEROS", 0, 2, False), ("SPACES", "SPACES", 0, 4, False), ("ZEROS", "NONE", 6, 6, True),
]


def run_custom(ctx: Ctx, specials: list, seeded: list):
    rng = ctx.rng
    impl = CustomImpl()

    def api_inp(x, p):
        return {"value": repr(x), "format": "custom", "integer_format": p[0], "decimal_format": p[1], "num_integers": p[2],
                "num_decimals": p[3], "show_thousands_separator": p[4]}

    def one_api(req, out, p, cf, fld, x):
        text, o, held = impl.show(x, cf)
        req.append(request(fld, held))
        out.append(o)
        if p[2] or p[3]:                       # a pattern with no digit token displays no number
            check_custom(ctx, text, held, fld, api_inp(x, p), api=p[:4])

    # --- a format added after a formatted value has been read must be usable (the custom format map is memoised) --------
    seq = CustomImpl()
    cf1, _ = seq.api_format("NONE", "NONE", 1, 0, False)
    seq.show(1.5, cf1)
    cf2, _ = seq.api_format("ZEROS", "ZEROS", 2, 2, False)
    text, o, _held = seq.show(1.5, cf2)
    ctx.count("custom: a format added after formatted_value was read", 1, exhaustive=True)
    if text is None:
        ctx.violation("custom-format-added-after-read", f"add_custom_format; formatted_value; add_custom_format(ZEROS, ZEROS, 2, 2); "
                      f"formatted_value of 1.5 -> {text!r} ({o})",
                      {"value": "1.5", "format": "custom", "integer_format": "ZEROS", "decimal_format": "ZEROS", "num_integers": 2,
                       "num_decimals": 2, "show_thousands_separator": False})

    # --- the archive builder: every (integer_format, decimal_format, num_integers 0..10, num_decimals 0..10, separator) ------
    req, out = [], []
    probe = [0, 0.23, -0.23, 0.995, 23.0, -2345.67, 1234567.891, 0.0004, -999999.5, 5e-05]
    breq, bout = [], []
    for ifmt, dfmt in itertools.product(range(3), repeat=2):
        for ni in range(0, 11):
            for nd in range(0, 11):
                for thou in (False, True):
                    p = (PADDINGS[ifmt], PADDINGS[dfmt], ni, nd, thou)
                    try:
                        cf, fld = impl.api_format(*p)
                        bout.append("ok " + enc_fields(fld, BUILD_FIELDS))
                    except Exception as e:  # noqa: BLE001
                        bout.append("err " + exc_name(e))
                        ctx.violation("custom-builder-raises", f"add_custom_format{p}", {"format": "custom", "pattern": list(p)})
                        breq.append(f"customfmt build {ifmt} {dfmt} {ni} {nd} {int(thou)}")
                        continue
                    breq.append(f"customfmt build {ifmt} {dfmt} {ni} {nd} {int(thou)}")
                    if ni <= 6 and nd <= 6 or (ni in (7, 9, 10) and nd in (0, 9)):
                        vals = probe + [rng.choice(specials) for _ in range(6 if ctx.quick else 30)]
                        for x in vals:
                            one_api(req, out, p, cf, fld, x)
    ctx.correspond("custom builder: add_custom_format archive fields, 3x3 paddings x 0..10 integers x 0..10 decimals x separator",
                   breq, bout, exhaustive=True)
    ctx.correspond("custom: every API pattern (paddings x 0..6 integers x 0..6 decimals x separator) x probe + sampled special values",
                   req, out)

    # --- representative API patterns x the whole special-value pool ------------------------------------------------------
    req, out = [], []
    for p in REPRESENTATIVE:
        cf, fld = impl.api_format(*p)
        for x in (specials[::2] + seeded[:60]) if ctx.quick else (specials + seeded[:600]):
            one_api(req, out, p, cf, fld, x)
    ctx.correspond(f"custom: {len(REPRESENTATIVE)} API patterns x all special values + seeded values", req, out)

    # --- archives of the reference workbooks and hand-made literal patterns ----------------------------------------------
    req, out = [], []
    fixtures = fixture_archives()
    ctx.extra["custom_fixture_archives"] = len(fixtures)
    base = {"scale_factor": 1.0, "scale_is_one": True, "currency_code": "", "show_thousands_separator": True,
            "num_nonspace_integer_digits": 1, "num_nonspace_decimal_digits": 2}
    handmade = []
    for fs in HANDMADE:
        handmade.append(("hand-made", dict(base, custom_format_string=fs, currency_code="CHF" if "¤" in fs else "")))
    fvals = [0, 0.23, -0.23, 2.34, 23.0, 2345.67, -2345.67, 0.995, 9.9995, 1234567.891, 123456789012345.12, 0.0004, 5e-05, -1e-07,
             999999.5, 0.5, 1.5, 2.5, -0.5, 1.23456789, 0.285, 1e14 + 0.5, 12345678.9]
    for src, f0 in fixtures + handmade:
        cf, fld = impl.archive_format(f0)
        fld["scale_factor"] = f0["scale_factor"]
        for x in fvals + [rng.choice(specials) for _ in range(4 if ctx.quick else 60)]:
            text, o, held = impl.show(x, cf)
            req.append(request(fld, held))
            out.append(o)
            inp = {"value": repr(x), "format": "custom-archive", "source": src,
                   "archive": {k: fld[k] for k in RENDER_FIELDS if k != "scale_is_one"} | {"scale_factor": fld["scale_factor"]}}
            check_custom(ctx, text, held, fld, inp)
    ctx.correspond(f"custom: {len(fixtures)} archives of the reference workbooks + {len(handmade)} hand-made literal patterns x values",
                   req, out)

    # --- _expand_quotes, format(int, '0w,'), _decode_text_format directly -------------------------------------------------
    from numbers_parser import cell as K
    req, out = [], []
    for n in range(0, 7):
        for t in itertools.product("'a0", repeat=n):
            s = "".join(t)
            req.append(f"customfmt expand {enc_text(s)}")
            out.append("ok " + enc_text(K._expand_quotes(s)))
    ctx.correspond("_expand_quotes: every string of length <= 6 over {quote, letter, digit}", req, out, exhaustive=True)
    req, out = [], []
    for w in range(0, 16):
        for n in [0, 1, 9, 10, 99, 100, 999, 1000, 9999, 12345, 999999, 1000000, 123456789, 10 ** 12, 10 ** 15 - 1]:
            req.append(f"customfmt zpad {w} {n}")
            out.append("ok " + enc_text(f"{n:0{w},}"))
    ctx.correspond("format(int, '0w,'): widths 0..15 x integers", req, out, exhaustive=True)


def run_text_and_dispatch(ctx: Ctx):
    """_decode_text_format through the API, and the dispatch of Cell.formatted_value / Cell._custom_format: which renderer is
    called for which combination of format ids and cell type (the renderers are wrapped in-process to record the call)."""
    from datetime import datetime, timedelta

    from numbers_parser import Document
    from numbers_parser import cell as K
    from numbers_parser.constants import CUSTOM_TEXT_PLACEHOLDER
    from numbers_parser.numbers_uuid import NumbersUUID

    # text patterns: a text cell only carries its string id after a save (in the session that wrote it the text shown is the
    # pattern with an empty value - a text-cell matter outside this property), so the cells are read from a reopened copy
    import os
    import tempfile
    fmts = ("before %s after", "%s", "no placeholder", "'%s'", "a%sb%%")
    vals = ("x", " ", "multi word", "%s", "0.5")
    doc = Document(num_header_rows=0, num_header_cols=0, num_rows=len(fmts), num_cols=len(vals))
    table = doc.sheets[0].tables[0]
    patterns = []
    for r, fmt in enumerate(fmts):
        cf = doc.add_custom_format(type="text", format=fmt)
        patterns.append(doc._model._custom_format_archives[cf.name].default_format.custom_format_string)
        for c, v in enumerate(vals):
            table.write(r, c, v)
            table.set_cell_formatting(r, c, "custom", format=cf)
    tmp = tempfile.mkdtemp()
    try:
        path = os.path.join(tmp, "t.numbers")
        doc.save(path)
        table = Document(path).sheets[0].tables[0]
    finally:
        import shutil
        shutil.rmtree(tmp, ignore_errors=True)
    req, out = [], []
    for r, fmt in enumerate(fmts):
        for c, v in enumerate(vals):
            t = table.cell(r, c).formatted_value
            req.append(f"customfmt text {ord(CUSTOM_TEXT_PLACEHOLDER)} {enc_text(patterns[r])} {enc_text(v)}")
            out.append("ok " + enc_text(t))
            if t != fmt.replace("%s", v):
                ctx.violation("custom-text-substitution", f"text format {fmt!r} of {v!r} displays {t!r} after save and reopen",
                              {"value": v, "format": "custom-text", "pattern": fmt})
    ctx.correspond("_decode_text_format: text patterns x values, written through the API, saved and reopened", req, out,
                   exhaustive=True)

    # ---- dispatch ----
    called = []
    names = {"_format_decimal": None, "_format_currency": "format_currency", "_format_base": "format_base",
             "_format_fraction": "format_fraction", "_format_scientific": "format_scientific",
             "_decode_number_format": "decode_number_format", "_decode_text_format": "decode_text_format",
             "_decode_date_format": "date_format"}
    saved = {n: getattr(K, n) for n in names}

    def wrap(n):
        f = saved[n]

        def g(*a, **k):
            if n == "_format_decimal":
                called.append("format_percent" if (k.get("percent") or (len(a) > 2 and a[2])) else "format_decimal")
            else:
                called.append(names[n])
            return f(*a, **k)
        return g

    saved_dur = K.Cell._duration_format

    def dur(self):
        called.append("duration_format")
        return saved_dur(self)

    for n in names:
        setattr(K, n, wrap(n))
    K.Cell._duration_format = dur
    try:
        from numbers_parser import FractionAccuracy
        doc = Document(num_header_rows=0, num_header_cols=0, num_rows=3, num_cols=3)
        table = doc.sheets[0].tables[0]
        # calibration: the wrappers must fire on a plainly formatted cell; a refactoring that binds the formatter functions
        # elsewhere at import time (dispatch table) bypasses them without changing anything observable - then the identity
        # of the renderer cannot be recorded in this tree and the two dispatch streams are skipped
        observable = True
        for kind_, kw_, tag_ in (("number", {"decimal_places": 1}, "format_decimal"), ("currency", {}, "format_currency"),
                                 ("base", {"base": 2}, "format_base")):
            table.write(0, 0, 2.0)
            table.set_cell_formatting(0, 0, kind_, **kw_)
            del called[:]
            _ = table.cell(0, 0).formatted_value
            if tag_ not in called:
                observable = False
        del called[:]
        if not observable:
            ctx.notes.append("dispatch: the formatter functions of cell.py are not reached through their module attributes in this "
                             "tree; which renderer is chosen cannot be recorded - dispatch streams skipped (texts are still compared)")
            return
        cnum = doc.add_custom_format(type="number", num_integers=2, num_decimals=1)
        ctext = doc.add_custom_format(type="text", format="<%s>")
        cdate = doc.add_custom_format(type="datetime", format="yyyy")
        cases = [
            (1.5, None, {}), ("t", None, {}), (True, None, {}), (datetime(2024, 1, 2), None, {}), (timedelta(hours=1), None, {}),
            (1.5, "number", {"decimal_places": 1}), (1.5, "currency", {}), (1.5, "percentage", {}), (1.5, "base", {"base": 2}),
            (1.5, "fraction", {"fraction_accuracy": FractionAccuracy.HALVES}), (1.5, "scientific", {"decimal_places": 2}),
            (3, "rating", {}), (True, "tickbox", {}), (1.5, "custom", {"format": cnum}), ("t", "custom", {"format": ctext}),
            (datetime(2024, 1, 2), "custom", {"format": cdate}), (datetime(2024, 1, 2), "datetime", {"date_time_format": "yyyy"}),
            (3.0, "slider", {}), (3.0, "stepper", {}), ("Item 1", "popup", {"popup_values": ["Item 1", "b"]}),
        ]
        for value, kind, kw in cases:
            table.write(1, 1, value)
            if kind is not None:
                table.set_cell_formatting(1, 1, kind, **kw)
            cases_cell = table.cell(1, 1)
            variants = [("as set", {})]
            # the same cell with format ids it does not normally carry together (a file can hold any combination)
            if kind in ("number", "custom") and isinstance(value, float):
                variants += [("stale custom uid", {"_stale": True})]
            for label, var in variants:
                c = cases_cell
                m = doc._model

                def ref(fid):
                    if fid is None:
                        return "-"
                    f = m.table_format(c._table_id, fid)
                    if not f.HasField("custom_uid"):
                        return f"{int(f.format_type)}:n"
                    fmap = m.custom_format_map()
                    u = NumbersUUID(f.custom_uid).hex
                    if var.get("_stale") or u not in fmap:
                        return f"{int(f.format_type)}:m"
                    d = fmap[u].default_format
                    return f"{int(f.format_type)}:{int(d.format_type)}.{int(bool(d.requires_fraction_replacement))}"

                line = (f"customfmt dispatch {int(c._type == K.CellType.TEXT)} {int(c._type == K.CellType.BOOL)} "
                        f"{int(c._duration_format_id is not None and c._double is not None)} "
                        f"{int(c._date_format_id is not None and c._seconds is not None)} "
                        f"{ref(c._text_format_id)} {ref(c._currency_format_id)} {ref(c._bool_format_id)} {ref(c._num_format_id)}")
                del called[:]
                stale_saved = None
                if var.get("_stale"):
                    stale_saved = m._cache.get("custom_format_map")
                    m._cache["custom_format_map"] = {}
                try:
                    t = c.formatted_value
                    if called:
                        o = "ok " + called[0]
                    elif isinstance(c.value, bool) and t in ("TRUE", "FALSE") and c._bool_format_id is not None:
                        o = "ok bool_text" if kind is None or kind != "tickbox" else "ok checkbox"
                    elif t in (K.CHECKBOX_TRUE_VALUE, K.CHECKBOX_FALSE_VALUE):
                        o = "ok checkbox"
                    elif kind == "rating":
                        o = "ok rating"
                    else:
                        o = "ok str_value"
                except Exception as e:  # noqa: BLE001
                    o = "err " + exc_name(e)
                finally:
                    if stale_saved is not None:
                        m._cache["custom_format_map"] = stale_saved
                    elif var.get("_stale"):
                        m._cache.pop("custom_format_map", None)
                req.append(line)
                out.append(o)
        ctx.correspond("dispatch: Cell.formatted_value / _custom_format renderer choice for every format kind and cell type",
                       req, out, exhaustive=True)
        # every cell of the reference workbooks that carry formats (durations, dates, custom formats, controls): the
        # renderers written inline in _custom_format (bool text, checkbox, rating, str) count as one class here
        req, out = [], []
        for name in ("test-formats.numbers", "test-custom-formats.numbers", "custom-format-stress.numbers", "duration_112.numbers",
                     "date_formats.numbers", "test-8.numbers"):
            path = REPO / "tests" / "data" / name
            if not path.exists():
                continue
            fdoc = Document(str(path))
            m = fdoc._model
            fmap = m.custom_format_map()
            seen = set()
            for sheet in fdoc.sheets:
                for tab in sheet.tables:
                    for row in tab.iter_rows():
                        for c in row:
                            if type(c).formatted_value is not K.Cell.formatted_value:
                                continue                  # EmptyCell displays '' whatever its format ids
                            def ref(fid, c=c):
                                if fid is None:
                                    return "-"
                                f = m.table_format(c._table_id, fid)
                                if not f.HasField("custom_uid"):
                                    return f"{int(f.format_type)}:n"
                                u = NumbersUUID(f.custom_uid).hex
                                if u not in fmap:
                                    return f"{int(f.format_type)}:m"
                                d = fmap[u].default_format
                                return f"{int(f.format_type)}:{int(d.format_type)}.{int(bool(d.requires_fraction_replacement))}"
                            try:
                                line = (f"customfmt dispatchc {int(c._type == K.CellType.TEXT)} {int(c._type == K.CellType.BOOL)} "
                                        f"{int(c._duration_format_id is not None and c._double is not None)} "
                                        f"{int(c._date_format_id is not None and c._seconds is not None)} "
                                        f"{ref(c._text_format_id)} {ref(c._currency_format_id)} {ref(c._bool_format_id)} "
                                        f"{ref(c._num_format_id)}")
                            except Exception:  # noqa: BLE001  (a format id the table does not hold: C17's matter)
                                continue
                            if line in seen:
                                continue
                            seen.add(line)
                            del called[:]
                            try:
                                _ = c.formatted_value
                                o = "ok " + (called[0] if called else "inline")
                            except Exception as e:  # noqa: BLE001
                                o = "err " + exc_name(e)
                            req.append(line)
                            out.append(o)
        ctx.correspond("dispatch: distinct (cell type, format ids) combinations of the reference workbooks", req, out)
    finally:
        for n in names:
            setattr(K, n, saved[n])
        K.Cell._duration_format = saved_dur


def replay_custom(i: dict):
    """re-run one stored custom-format input against the real code: on a fresh document, and (as in the check) on a document
    that has already displayed another custom-formatted cell when the format under test is added."""
    from numbers_parser import Document  # noqa: F401
    x = eval(i["value"], {"__builtins__": {}}, {})  # repr of an int/float produced by this module

    def once(prelude: bool):
        impl = CustomImpl()
        first = None
        if prelude:
            cf0, _ = impl.api_format("NONE", "NONE", 1, 0, False)
            first = impl.show(1.5, cf0)[0]
        if i["format"] == "custom":
            p = (i["integer_format"], i["decimal_format"], i["num_integers"], i["num_decimals"], i["show_thousands_separator"])
            try:
                cf, fld = impl.api_format(*p)
            except Exception as e:  # noqa: BLE001
                return {"add_custom_format raised": exc_name(e)}, first
        else:
            a = dict(i["archive"])
            a["scale_is_one"] = a["scale_factor"] == 1.0
            cf, fld = impl.archive_format(a)
        text, o, held = impl.show(x, cf)
        return {"cell.value": repr(held), "custom_format_string": fld["custom_format_string"],
                "formatted_value": text if text is not None else o}, first

    fresh, _ = once(False)
    later, first = once(True)
    desc = ({"add_custom_format": {k: i[k] for k in ("integer_format", "decimal_format", "num_integers", "num_decimals",
                                                      "show_thousands_separator")}} if i["format"] == "custom"
            else {"archive": i["archive"], "source": i.get("source")})
    return {"write": repr(x), **desc, "on a fresh document": fresh,
            "after add_custom_format(num_integers=1) + write 1.5 + formatted_value (-> %r) on the same document" % first: later}
