"""C20 — CSV import followed by CSV export reproduces the cell grid."""
from __future__ import annotations

import contextlib
import csv
import io
import itertools
import math
import os
import re
import sys
import tempfile

import common
from common import Ctx, enc_text, exc_name

PID = "C20"
PROPS_MODULE = "NumbersModel.Props.C20"
THEOREMS = [f"NumbersModel.Props.C20.{t}" for t in (
    "csv_codec_roundtrip", "reader_is_character_machine", "reader_errors",
    "row_survives_dict", "text_cells_identical", "special_spellings_stay_text", "numbers_numerically_equal", "coerce_total",
    "grid_roundtrip", "grid_roundtrip_written", "reverse_reverses_data",
    "converter_total", "converter_escapes", "version_exits_zero")]
PARTIAL: dict[str, str] = {}
RULE = ("(a) codec: every text of <= 5 characters over {a , \" CR LF blank} through csv.reader (strict, non-strict, field limit 2) and "
        "through the line iterator of a newline='' stream; every list of <= 2 lines of <= 2 such characters; every grid of <= 2 rows "
        "x <= 2 cells x cell strings of <= 2 such characters (1x1: <= 3) through csv.writer [quick: the 2-row grids with cells of "
        "length 2 are sampled, thorough: all 3.6 million]; seeded hostile grids (Unicode, NUL, U+2028, U+0085, field-limit boundary) "
        "through a real file; (b) pipeline: seeded rectangular grids of 1..40 x 1..12 cells drawn from hostile text, numeric "
        "spellings of <= 15 significant digits, special-float spellings and empties, written either by csv.writer or by a hostile "
        "CSV formatter (forced quotes, LF / CR / CRLF / mixed terminators, missing final terminator), x header/--no-header x "
        "--whitespace x --reverse, through the real csv2numbers main() and cat-numbers -b main() in-process; (c) main(): scripted "
        "faults (each of ~30 exception classes at each external call site, seeded combinations, two files) and CSV texts "
        "(empty, blank, malformed, ragged, oversize) through the real main() with open/Document/Path replaced by scripted fakes, "
        "and a dozen real cases (directory, missing file, undecodable bytes, unknown encoding, unwritable output). "
        "Distinct by request line; non-trivial = grid has at least one data cell / scenario reaches the conversion loop")
ASSUMPTIONS = [
    "float(), str.strip, re.sub and the exporter's number printer are supplied to the model as data computed by the interpreter",
    "numbers of more than 15 significant digits are outside the domain (the library documents rounding to 15)",
    "saving and reopening the document is the identity on text and number cells (C01)",
    "sys.stdout does not translate line endings (POSIX); on Windows csv.writer's CRLF would be written CR CR LF",
    "messages printed by main() are single lines: file names and OS/codec messages contain no line break",
    "argparse errors (unknown options, malformed --date/--rename/--transform/--delete arguments) are usage errors outside "
    "the conversion; --date/--transform/--rename/--delete are outside the property's option set and outside the model",
]
MANIFEST = {
    "text": "Core proved, glue assumed. (1) The CSV codec both tools use is modelled from CPython's _csv.c: csv.writer of the excel "
            "dialect (QUOTE_MINIMAL, doubled quotes, CRLF, the lone empty field written as \"\") and csv.reader as the "
            "character state machine of parse_process_char (START_RECORD ... EAT_CRNL, strict and non-strict, field size limit) "
            "over the physical lines of a newline='' file; csv_codec_roundtrip proves reader(writer(grid)) = grid for every grid "
            "of Unicode cell texts (quotes, commas, CR, LF, CRLF, blanks, empty cells, empty rows, the single empty cell) up to "
            "the field limit, so the reference-reader assumption of the earlier version is now a theorem; reader_errors: the "
            "reader raises only csv.Error. (2) grid_roundtrip: for all of header/--no-header x --whitespace x --reverse and any "
            "CSV text the importer parses to a rectangular grid (header cells pairwise distinct in header mode; the "
            "counter-example for a repeated header cell is proved and is the known finding), export(import(text)) is a text "
            "that csv.reader parses to the expected grid: header unchanged, rows in order or reversed, every data cell as the "
            "per-cell theorems say (text_cells_identical, special_spellings_stay_text, numbers_numerically_equal given a "
            "re-readable number printer, coerce_total). (3) converter_total over a model of main()/Converter._read_csv/save in "
            "which every external call (open, the file iterator, Path.with_suffix, Document(), Table.write, Document.save) "
            "returns or raises an arbitrary exception: if they raise only FileNotFoundError/csv.Error/OSError/UnicodeError/"
            "LookupError (reading), OSError (saving) or RuntimeError, main returns with exit status 0 and an empty stderr or "
            "prints exactly one line to stderr and exits 1; converter_escapes names exactly which exceptions leave main as a "
            "traceback for arbitrary externals. False on the pinned tree (witnesses proved for the `pinned` variant and "
            "reproduced on the real code: StopIteration/IndexError on an empty file, IsADirectoryError, UnicodeDecodeError, "
            "LookupError, FileNotFoundError on save, IndexError for a blank first line or > 1000 columns); "
            "fixes/C20-one-line-errors.patch repairs them.",
    "note": "glue assumed: float()/re/sigfig (parameters with stated laws), C01 for the save/open step, argparse. "
            "The whole-grid theorem composes codec, converter and exporter models; each is tied separately and end to end "
            "(model text vs real stdout text, byte for byte).",
    "technique": "Lean 4 proof (state-machine invariant by induction over rows/fields/characters; composition; case analysis of the "
                 "except clauses) + exhaustive/seeded differential correspondence against the running interpreter's csv module, "
                 "both CLI mains in-process, and scripted fault injection into main()",
}

ALPHA = ["a", ",", '"', "\r", "\n", " "]
TEXTS = ["a", "abc def", "x,y", 'say "hi"', '"', '""', "line1\nline2", "cr\rlf", "crlf\r\nend", "\n", "\r", " lead", "trail ", "  ",
         "tab\there", "é", "日本語", "😀", "𝔘𝔫𝔦", "a;b", "it's", "=SUM(A1)", "#REF!", "TRUE", "false", "2020-01-01", "12:30", "0x10",
         "1__0", "_1", "1_", "1e", "e5", "--1", "1-", "1.2.3", ".", "-", "+", "٫", "１２a", "NULL", "None", "N/A", "null\x00byte"[:4],
         "very long " * 30, "ﬁ", "İ", " ", " x", "a​b"]
NUMS = ["0", "1", "-1", "+5", "42", "007", "1.5", "-0.25", ".5", "5.", "1e5", "1E-7", "2.5e+10", "1,234", "1,234,567.89", "12,34",
        "1_000", "1_0.5_0", "١٢", "१२३", "１２", "٣.٥", " 12", "12 ", "\t7", "7\n", "-0", "0.0", "1e22", "1e-290", "9.99999999999999e289",
        "123456789012345", "0.123456789012345", "99999999999999.9", "1e15", "0.1", "0.2", "0.3", "1.1", "2.675", "1e-5", "-1e-9"]
SPECIAL = ["nan", "NaN", "NAN", "inf", "-inf", "+inf", "Inf", "INF", "infinity", "-Infinity", "1e400", "-1e999", "1e309", " nan ",
           "n,an", "in,f", "+nan", "-nan", "inf\n", "١e٤٠٠"]
CODEC_EXTRA = ["\x00", "\x0b", "\x0c", "\x1c", "\x1d", "\x1e", "\x85", " ", " ", "﻿", "é", "😀", "\t", ";", "'", "\\"]

# minimised past failures and the recorded finding, always run first: (grid, no_header, reverse, whitespace)
CORPUS = [
    ((("h", "h"), ("a", "b")), False, False, False),            # known finding: duplicate header cells
    ((("h1", "h2"), ("nan", "inf"), ("1e400", "-Infinity")), False, False, False),
    ((("nan", "1"), ("2", "inf")), True, False, False),
    ((("h1", "h2"), ("cr\rlf", "crlf\r\nend")), False, False, False),
    ((("h1",), ("x",)), False, False, False),
    ((("only header", "b"),), False, False, False),
    ((("1",),), True, False, False),
    ((("a ", " b  c"), (" 2 ", "x\t y")), False, True, True),
    ((("h",), ("",)), False, False, False),                      # a data row that is one empty cell: written ""
    ((("",), ("",)), True, False, False),
    ((("h1", "h2"), ("", "")), False, True, False),
]
# raw CSV texts (not writer-produced): (text, no_header, reverse, whitespace)
RAW_CORPUS = [
    ('h1,h2\n1,2\n', False, False, False),
    ('h1,h2\r1,2', False, False, False),
    ('"h1","h2"\r\n"a""b"," c"\r\n', False, False, False),
    ('a"b,c\r\nd,e"f"\r\n', True, False, False),                 # quotes inside unquoted fields are data
    (' "x",y\r\n1,2\r\n', False, False, False),                  # a blank before the quote: the quote is data
    ('"a"b,c\r\n', False, False, False),                          # strict: ',' expected after '"'
    ('h\r\n"unterminated\r\n', False, False, False),              # strict: unexpected end of data
    ('h1,h2\r\nx\r\ny,z,w\r\n', False, False, False),            # ragged rows (outside the property's domain; model only)
    ('h1,h2\r\n\r\nu,v\r\n', False, False, False),               # a blank line is an empty row
    ('h,h\r\na,b\r\n', True, False, False),
]


def classify(text: str):
    """what float(v.replace(',', '')) does, as the running interpreter does it."""
    try:
        x = float(text.replace(",", ""))
    except ValueError:
        return "V", None
    if math.isnan(x):
        return "N", None
    if math.isinf(x):
        return "I", None
    return "F", x


def norm_ws(v: str) -> str:
    return re.sub(r"\s+", " ", v.strip())


# ---------------------------------------------------------------------------------------------------
# (a) the codec: running interpreter's csv module vs the Lean model
# ---------------------------------------------------------------------------------------------------
MSG_KIND = (("expected after", "Error:delimiter-expected-after-quote"), ("unexpected end of data", "Error:unexpected-end-of-data"),
            ("new-line character seen", "Error:new-line-character-seen-in-unquoted-field"),
            ("field larger than field limit", "Error:field-larger-than-field-limit"))


def err_kind(msg: str) -> str:
    for k, v in MSG_KIND:
        if k in msg:
            return v
    return "Error:?" + msg[:60]


def show_grid(g) -> str:
    return "ok" if not g else "ok " + " ".join("[" + " ".join(enc_text(c) for c in row) + "]" for row in g)


def enc_grid(g) -> str:
    return " ".join([str(len(g))] + [" ".join([str(len(r))] + [enc_text(c) for c in r]) for r in g])


def impl_write(g) -> str:
    s = io.StringIO(newline="")
    w = csv.writer(s, dialect="excel")
    for r in g:
        w.writerow(r)
    return s.getvalue()


@contextlib.contextmanager
def field_limit(limit):
    old = csv.field_size_limit()
    if limit is not None:
        csv.field_size_limit(limit)
    try:
        yield
    finally:
        csv.field_size_limit(old)


def impl_read(source, strict: bool, limit=None) -> str:
    """source: a text (read through a newline='' stream) or a list of line strings"""
    it = io.StringIO(source, newline="") if isinstance(source, str) else source
    with field_limit(limit):
        try:
            return show_grid(list(csv.reader(it, dialect="excel", strict=strict)))
        except csv.Error as e:
            return "err " + err_kind(str(e))


def strings(maxlen, alpha=ALPHA):
    for n in range(maxlen + 1):
        for t in itertools.product(alpha, repeat=n):
            yield "".join(t)


def codec_oracle(ctx: Ctx, g, where: str):
    """the property of the codec, on the real csv module only"""
    t = impl_write(g)
    for strict in (True, False):
        try:
            back = list(csv.reader(io.StringIO(t, newline=""), dialect="excel", strict=strict))
        except csv.Error as e:
            back = f"csv.Error: {e}"
        if back != [list(r) for r in g]:
            ctx.violation("csv-codec-roundtrip", f"{where}: csv.reader(strict={strict}) of csv.writer output gives {back!r:.200}",
                          {"codec_grid": [list(r) for r in g]})
            return


def codec_writer_chunk(task):
    """2-row grids over cells of length <= 2 (thorough: one first row against every second row)"""
    seed, first_rows = task
    sub = Ctx(PID, "quick", seed)
    rows = ROWS2()
    req, out = [], []
    for r1 in first_rows:
        for r2 in rows:
            g = [r1, r2]
            req.append("csv csvw " + enc_grid(g))
            out.append("ok " + enc_text(impl_write(g)))
            codec_oracle(sub, g, "2-row grid")
    model = common.run_model(req)
    bad = [{"request": r, "impl": a, "model": b} for r, a, b in zip(req, out, model) if a != b]
    return common.sub_result(sub, (len(req), bad[:5], len(bad)))


_ROWS2 = None


def ROWS2():
    global _ROWS2
    if _ROWS2 is None:
        cells = list(strings(2))
        _ROWS2 = [[]] + [[a] for a in cells] + [[a, b] for a in cells for b in cells]
    return _ROWS2


def run_codec(ctx: Ctx):
    rng = ctx.rng
    # --- reader on arbitrary (also malformed) texts, exhaustive to length 5; the line iterator
    req, out, lreq, lout = [], [], [], []
    for t in strings(5):
        e = enc_text(t)
        for strict in (0, 1):
            req.append(f"csv csvr {strict} 131072 {e}")
            out.append(impl_read(t, bool(strict)))
        req.append(f"csv csvr 0 2 {e}")
        out.append(impl_read(t, False, 2))
        ls = list(io.StringIO(t, newline=""))
        lreq.append(f"csv csvlines {e}")
        lout.append("ok" if not ls else "ok " + " ".join(enc_text(x) for x in ls))
    ctx.correspond("csv.reader over a newline='' stream: all texts of <= 5 chars over {a , \" CR LF blank} x strict/non-strict/limit 2",
                   req, out, exhaustive=True)
    ctx.correspond("line iterator of a newline='' stream: all texts of <= 5 chars", lreq, lout, exhaustive=True)
    # --- reader over explicit lists of lines (embedded line breaks reach EAT_CRNL)
    req, out = [], []
    short = list(strings(2))
    for lines in [[a] for a in strings(4)] + [[a, b] for a in short for b in short]:
        for strict in (0, 1):
            req.append(f"csv csvrl {strict} 131072 {len(lines)} " + " ".join(enc_text(x) for x in lines))
            out.append(impl_read(list(lines), bool(strict)))
    ctx.correspond("csv.reader over a list of lines: 1 line of <= 4 chars, 2 lines of <= 2 chars", req, out, exhaustive=True)
    # --- writer: all 1-row grids (<= 2 cells of <= 2 chars; 1x1 to 3 chars), all 2-row grids with cells of <= 1 char
    rows = ROWS2()
    rows1 = [[]] + [[a] for a in strings(1)] + [[a, b] for a in strings(1) for b in strings(1)]
    grids = [[]] + [[r] for r in rows] + [[[c]] for c in strings(3)] + [[r1, r2] for r1 in rows1 for r2 in rows1]
    req, out = [], []
    for g in grids:
        req.append("csv csvw " + enc_grid(g))
        out.append("ok " + enc_text(impl_write(g)))
        codec_oracle(ctx, g, "small grid")
    ctx.correspond("csv.writer: all grids of 1 row x <= 2 cells x <= 2 chars, 1x1 x <= 3 chars, 2 rows x <= 2 cells x <= 1 char",
                   req, out, exhaustive=True)
    # --- 2 rows x <= 2 cells x <= 2 chars: 1893^2 grids; quick samples, thorough enumerates
    if ctx.quick:
        req, out = [], []
        for _ in range(30000):
            g = [rng.choice(rows), rng.choice(rows)]
            req.append("csv csvw " + enc_grid(g))
            out.append("ok " + enc_text(impl_write(g)))
            codec_oracle(ctx, g, "2-row grid")
        ctx.correspond("csv.writer: grids of 2 rows x <= 2 cells x <= 2 chars (sampled; exhaustive in the thorough tier)", req, out)
    else:
        name = "csv.writer: all grids of 2 rows x <= 2 cells x <= 2 chars"
        tasks = [(ctx.seed, rows[i:i + 8]) for i in range(0, len(rows), 8)]
        total = nbad = 0
        for n, bad, k in common.run_parallel(ctx, codec_writer_chunk, tasks):
            total += n
            nbad += k
            for b in bad:
                if len(ctx.disagreements) < 50:
                    ctx.disagreements.append(dict(b, subspace=name))
        ctx.subspaces[name] = {"cases": total, "exhaustive": True, "disagreements": nbad}
        ctx.evaluations += total
    # --- seeded hostile grids through a real file opened with newline='' (ties splitLines to the file object)
    pool = TEXTS + NUMS[:8] + SPECIAL[:4] + CODEC_EXTRA + ["", "", ",", '"', "\r\n", "\n\r", '""', '","', "a\rb\nc\r\nd"]
    req, out = [], []
    with tempfile.TemporaryDirectory() as d:
        path = os.path.join(d, "t.csv")
        for i in range(300 if ctx.quick else 3000):
            nr = rng.randrange(0, 6)
            g = []
            for _ in range(nr):
                nc = rng.choice([0, 1, 1, 2, 3, 5])
                g.append([rng.choice(pool) if rng.random() < 0.8 else "".join(rng.choice(ALPHA + CODEC_EXTRA) for _ in range(rng.randrange(0, 7)))
                          for _ in range(nc)])
            t = impl_write(g)
            req.append("csv csvw " + enc_grid(g))
            out.append("ok " + enc_text(t))
            codec_oracle(ctx, g, "hostile grid")
            with open(path, "w", newline="", encoding="utf-8") as f:
                f.write(t)
            strict = i % 2
            with open(path, encoding="utf-8", newline="") as f:
                try:
                    got = show_grid(list(csv.reader(f, dialect="excel", strict=bool(strict))))
                except csv.Error as e:
                    got = "err " + err_kind(str(e))
            req.append(f"csv csvr {strict} 131072 {enc_text(t)}")
            out.append(got)
            # the same text damaged at one position: the reader on near-well-formed input
            if t:
                k = rng.randrange(len(t))
                t2 = t[:k] + rng.choice(ALPHA) + t[k + rng.randrange(0, 2):]
                lim = rng.choice([131072, 131072, 3, 8])
                req.append(f"csv csvr {strict} {lim} {enc_text(t2)}")
                out.append(impl_read(t2, bool(strict), lim))
    # the field-limit boundary with the real default limit
    lim = csv.field_size_limit()
    for n in (lim, lim + 1):
        for cell in ("x" * n, '"' + "y" * (n - 1)):
            t = impl_write([[cell, "z"]])
            req.append(f"csv csvr 1 {lim} {enc_text(t)}")
            out.append(impl_read(t, True))
    ctx.correspond("seeded hostile grids (Unicode, NUL, U+2028, field-limit boundary) written, read through a real newline='' file, damaged",
                   req, out)


# ---------------------------------------------------------------------------------------------------
# (b) the pipeline through both mains
# ---------------------------------------------------------------------------------------------------
def run_main(mod, argv):
    old = sys.argv
    sys.argv = argv
    out, err = io.StringIO(), io.StringIO()
    code, exc = 0, None
    # _csv2numbers does `from sys import exit, stderr`: its `stderr` is bound at import time
    saved = getattr(mod, "stderr", None)
    if saved is not None:
        mod.stderr = err
    try:
        with contextlib.redirect_stdout(out), contextlib.redirect_stderr(err):
            mod.main()
    except SystemExit as e:
        code = e.code if isinstance(e.code, int) else (0 if e.code is None else 1)
    except BaseException as e:  # noqa: BLE001
        exc = e
    finally:
        sys.argv = old
        if saved is not None:
            mod.stderr = saved
    return code, out.getvalue(), err.getvalue(), exc


def roundtrip(text, opts, workdir):
    """csv2numbers main() on a file with this text, then cat-numbers -b main(), in-process.
    Returns ('ok', stdout text) | ('exit', code, stderr) | ('crash', tool, name, message)."""
    from numbers_parser import _cat_numbers as cat
    from numbers_parser import _csv2numbers as c2n
    inp = os.path.join(workdir, "in.csv")
    outp = os.path.join(workdir, "out.numbers")
    with open(inp, "w", newline="", encoding="utf-8") as f:
        f.write(text)
    if os.path.exists(outp):
        os.remove(outp)
    code, _, err, exc = run_main(c2n, ["csv2numbers", *opts, inp, "-o", outp])
    if exc is not None:
        return ("crash", "csv2numbers", exc_name(exc), str(exc)[:120])
    if code != 0:
        return ("exit", code, err)
    code, out, err, exc = run_main(cat, ["cat-numbers", "-b", outp])
    if exc is not None:
        return ("crash", "cat-numbers", exc_name(exc), str(exc)[:120])
    if code != 0:
        return ("exit", code, err)
    return ("ok", out)


def gen_grid(rng, small):
    nr = rng.randrange(1, 7 if small else 41)
    nc = rng.randrange(1, 5 if small else 13)
    mode = rng.random()
    grid = []
    for r in range(nr):
        row = []
        for c in range(nc):
            x = rng.random()
            if mode < 0.15:
                pool = TEXTS
            elif x < 0.4:
                pool = TEXTS
            elif x < 0.75:
                pool = NUMS
            elif x < 0.9:
                pool = SPECIAL
            else:
                pool = [""]
            row.append(rng.choice(pool))
        grid.append(row)
    return grid


def hostile_format(rng, grid) -> str:
    """a well-formed CSV text for `grid` that csv.writer would not produce: unnecessary quotes, LF / CR / CRLF / mixed
    terminators, no final terminator"""
    term_mode = rng.choice(["\r\n", "\n", "\r", None])
    parts = []
    for i, row in enumerate(grid):
        cells = []
        for v in row:
            need = any(ch in v for ch in ',"\r\n') or (v == "" and len(row) == 1)
            if need or rng.random() < 0.3:
                cells.append('"' + v.replace('"', '""') + '"')
            else:
                cells.append(v)
        term = term_mode or rng.choice(["\r\n", "\n", "\r"])
        last = i == len(grid) - 1
        if last and rng.random() < 0.4:
            term = ""
        parts.append(",".join(cells) + term)
    return "".join(parts)


def expected(grid, no_header, reverse, ws):
    """The property, independently of library and model: list of rows of ('T', text) | ('F', value)."""
    def cell(v):
        v2 = norm_ws(v) if ws else v
        k, x = classify(v2)
        return ("F", x) if k == "F" else ("T", v2)
    if no_header:
        rows = list(reversed(grid)) if reverse else grid
        return [[cell(v) for v in row] for row in rows]
    data = grid[1:]
    rows = list(reversed(data)) if reverse else data
    return [[("T", v) for v in grid[0]]] + [[cell(v) for v in row] for row in rows]


def one(task):
    import warnings
    warnings.simplefilter("ignore")
    seed, idx = task
    sub = Ctx(PID, "quick", seed * 1_000_003 + (idx if isinstance(idx, int) else 0))
    rng = sub.rng
    text = None
    if isinstance(idx, int):
        grid = gen_grid(rng, small=(idx % 3 != 0))
        no_header = idx % 2 == 1
        reverse = idx % 5 == 2
        ws = idx % 7 == 3
        raw = idx % 4 == 1
    elif idx[0] == "raw":
        _, text, no_header, reverse, ws = idx
        grid, raw, idx = None, True, 10**9 + 11 * 7
    else:  # corpus entry: (grid, no_header, reverse, ws)
        grid, no_header, reverse, ws = idx
        grid = [list(r) for r in grid]
        raw, idx = False, 10**9 + 11 * 7
    if grid is not None:
        dup = not no_header and len(set(grid[0])) != len(grid[0])
        if dup and idx % 11 != 0:
            # duplicate header cells are a recorded finding; keep a few, make the rest distinct
            grid[0] = [f"{v}#{i}" for i, v in enumerate(grid[0])]
        text = hostile_format(rng, grid) if raw else impl_write(grid)
    # the reference reading of the input text (strict, as the converter sets it)
    try:
        parsed = list(csv.reader(io.StringIO(text, newline=""), dialect="excel", strict=True))
        parse_err = None
    except csv.Error as e:
        parsed, parse_err = None, err_kind(str(e))
    if grid is not None and parsed != grid:
        raise AssertionError(f"harness: generated text does not parse to its grid: {text!r} -> {parsed!r} != {grid!r}")
    opts = (["--no-header"] if no_header else []) + (["--reverse"] if reverse else []) + (["--whitespace"] if ws else [])
    inp = {"text": text, "opts": opts}
    with tempfile.TemporaryDirectory() as d:
        res = roundtrip(text, opts, d)
    in_domain = bool(parsed) and len(parsed[0]) >= 1 and all(len(r) == len(parsed[0]) for r in parsed)
    dup_header = in_domain and not no_header and len(set(parsed[0])) != len(parsed[0])
    exp = expected(parsed, no_header, reverse, ws) if in_domain else None
    # ---- the cell table for the model: what float()/re.sub/the number printer do is data
    ids: dict = {}
    render: dict = {}
    got = None
    if res[0] == "ok":
        got = list(csv.reader(io.StringIO(res[1], newline=""), dialect="excel"))
    # ---- implementation outcome, canonicalised; the property oracle
    conv_out = None
    if res[0] == "crash":
        ie_out = f"err {res[2]}"
        sub.violation(f"csv-crash-{res[1]}-{res[2]}", f"{res[1]} crashed with {res[2]}: {res[3]}", inp)
    elif res[0] == "exit":
        msg = res[2].strip()
        ie_out = "err " + ("RuntimeError" if "no rows in CSV file" in msg else err_kind(msg))
        if "\n" in msg or not msg or res[1] == 0:
            sub.violation("csv-error-not-one-line", f"exit {res[1]} with stderr {msg[:200]!r}", inp)
        elif in_domain:
            sub.violation("csv-wellformed-input-refused", f"well-formed CSV refused: {msg[:200]}", inp)
    else:
        ie_out = "ok " + enc_text(res[1])
        canon_rows = []
        bad = None
        if exp is not None and (len(got) != len(exp) or any(len(a) != len(b) for a, b in zip(got, exp))):
            bad = ("csv-grid-shape", f"exported {len(got)}x{len(got[0]) if got else 0} grid, expected {len(exp)}x{len(exp[0])}: got {got[:3]!r}")
        for i, row in enumerate(got):
            crow = []
            for j, t in enumerate(row):
                e = exp[i][j] if exp is not None and i < len(exp) and j < len(exp[i]) else None
                if e is not None and e[0] == "F":
                    try:
                        same = float(t) == e[1]
                    except ValueError:
                        same = False
                    ids.setdefault(repr(e[1]), len(ids))
                    if same:
                        render.setdefault(ids[repr(e[1])], t)
                    crow.append(f"#{ids[repr(e[1])]}" if same else enc_text(t))
                    if not same and bad is None:
                        bad = ("csv-number-changed", f"cell ({i},{j}): number {e[1]!r} exported as {t!r}")
                else:
                    crow.append(enc_text(t))
                    if e is not None and t != e[1] and bad is None:
                        kind = classify(e[1])[0]
                        bad = ("csv-special-float-not-text" if kind in "NI" else "csv-text-changed",
                               f"cell ({i},{j}): text {e[1]!r} exported as {t!r}")
            canon_rows.append("[" + " ".join(crow) + "]")
        conv_out = "ok " + " ".join(canon_rows)
        if bad is not None:
            sig = bad[0]
            if dup_header:
                sig = "csv-duplicate-header-collapses-columns"
            sub.violation(sig, bad[1], inp)
    cells = []
    seen = set()
    for row in parsed or []:
        for v in row:
            if v in seen:
                continue
            seen.add(v)
            v2 = norm_ws(v)
            k, x = classify(v2 if ws else v)
            if k == "F":
                n = ids.setdefault(repr(x), len(ids))
                k = f"F{n}:{enc_text(render.get(n, '?'))}"
            cells.append(f"{enc_text(v)} {enc_text(v2)} {k}")
    table = f"table {len(cells)} " + " ".join(cells)
    flags = f"{int(no_header)} {int(reverse)} {int(ws)}"
    # outside the property's domain (ragged rows, repeated header cells) cells move, so numbers cannot be identified by
    # position: such inputs take part in the correspondence only when they hold no number
    has_num = any(" F" in c for c in cells)
    reqs = []
    if (in_domain and not dup_header) or not has_num:
        reqs.append((f"csv ie {flags} 1 {csv.field_size_limit()} {enc_text(text)} {table}", ie_out))
        if conv_out is not None and parsed is not None:
            reqs.append((f"csv convert {flags} {enc_grid(parsed)} {table}", conv_out))
    sub.count("grids", 1)
    if parsed and sum(len(r) for r in parsed[(0 if no_header else 1):]) > 0:
        sub.mark((text, flags))
    if idx < 3:
        sub.sample({"text": text[:200], "opts": opts, "outcome": ie_out[:200]})
    return common.sub_result(sub, reqs)


def run_pipeline(ctx: Ctx):
    n = 1500 if ctx.quick else 12000
    tasks = [(ctx.seed, c) for c in CORPUS] + [(ctx.seed, ("raw",) + c) for c in RAW_CORPUS] + [(ctx.seed, i) for i in range(n)]
    ie_req, ie_out, cv_req, cv_out = [], [], [], []
    for reqs in common.run_parallel(ctx, one, tasks):
        for r, o in reqs:
            if r.startswith("csv ie"):
                ie_req.append(r)
                ie_out.append(o)
            else:
                cv_req.append(r)
                cv_out.append(o)
    ctx.correspond("text printed by cat-numbers -b after csv2numbers (in-process mains) vs importExport, byte for byte", ie_req, ie_out, keep=0)
    ctx.correspond("exported grid after csv2numbers + cat-numbers -b vs convert/padTable (numbers by identity)", cv_req, cv_out, keep=0)
    ctx.subspaces.pop("grids", None)
    ctx.evaluations -= len(tasks)


# ---------------------------------------------------------------------------------------------------
# (c) main(): scripted fault injection
# ---------------------------------------------------------------------------------------------------
def exc_vocabulary():
    from numbers_parser import FileError, FileFormatError, UnsupportedError
    voc = {
        "FileNotFoundError": lambda: FileNotFoundError(2, "No such file or directory", "x"),
        "PermissionError": lambda: PermissionError(13, "Permission denied", "x"),
        "IsADirectoryError": lambda: IsADirectoryError(21, "Is a directory", "x"),
        "NotADirectoryError": lambda: NotADirectoryError(20, "Not a directory", "x"),
        "FileExistsError": lambda: FileExistsError(17, "File exists", "x"),
        "TimeoutError": lambda: TimeoutError("timed out"),
        "OSError": lambda: OSError(5, "Input/output error"),
        "UnicodeDecodeError": lambda: UnicodeDecodeError("utf-8", b"\xff", 0, 1, "invalid start byte"),
        "UnicodeError": lambda: UnicodeError("bad"),
        "LookupError": lambda: LookupError("unknown encoding: nope"),
        "IndexError": lambda: IndexError("list index out of range"),
        "KeyError": lambda: KeyError("k"),
        "ValueError": lambda: ValueError("bad value"),
        "TypeError": lambda: TypeError("bad type"),
        "RuntimeError": lambda: RuntimeError("runtime"),
        "RecursionError": lambda: RecursionError("maximum recursion depth exceeded"),
        "NotImplementedError": lambda: NotImplementedError("nope"),
        "Error": lambda: csv.Error("line contains NUL"),
        "MemoryError": lambda: MemoryError(),
        "StopIteration": lambda: StopIteration(),
        "AttributeError": lambda: AttributeError("attr"),
        "ZeroDivisionError": lambda: ZeroDivisionError("division by zero"),
        "EOFError": lambda: EOFError(),
        "OverflowError": lambda: OverflowError("too large"),
        "AssertionError": lambda: AssertionError("assert"),
        "FileError": lambda: FileError("file"),
        "FileFormatError": lambda: FileFormatError("format"),
        "UnsupportedError": lambda: UnsupportedError("unsupported"),
        "BufferError": lambda: BufferError("buffer"),
        "ArithmeticError": lambda: ArithmeticError("arith"),
    }
    return voc


def class_lists(voc):
    bases = (FileNotFoundError, csv.Error, OSError, UnicodeError, LookupError, RuntimeError)
    out = []
    for b in bases:
        names = sorted(n for n, mk in voc.items() if isinstance(mk(), b))
        out.append(f"{len(names)} " + " ".join(names) if names else "0")
    return "cls " + " ".join(out)


# which injected classes the code is expected to turn into a one-line error, per call site (the hypothesis `Tame`
# of converter_total, written down independently for the oracle)
def tame(site: str, e: BaseException) -> bool:
    if isinstance(e, RuntimeError):
        return site != "derive"
    if site in ("open", "iter"):
        return isinstance(e, (csv.Error, OSError, UnicodeError, LookupError))
    if site == "save":
        return isinstance(e, OSError)
    return False


def run_scenario(scn, voc):
    """scn: {opts, version, outputs (None|int), files: [{name, derive, open, text, fail, doc, writes {(r,c): name}, save}]}
    Runs the real main() with open / Document / Path replaced. Returns the canonical outcome line."""
    from numbers_parser import _csv2numbers as c2n
    files = {f["name"]: f for f in scn["files"]}

    class FakeFile:
        def __init__(self, f):
            self.lines = list(io.StringIO(f["text"], newline=""))
            self.fail = f["fail"]
            self.i = 0

        def __enter__(self):
            return self

        def __exit__(self, *a):
            return False

        def __iter__(self):
            return self

        def __next__(self):
            if self.i < len(self.lines):
                self.i += 1
                return self.lines[self.i - 1]
            if self.fail:
                raise voc[self.fail]()
            raise StopIteration

    def fake_open(name, *a, **kw):
        f = files[str(name)]
        if f["open"]:
            raise voc[f["open"]]()
        current.append(f)
        return FakeFile(f)

    current: list = []

    class FakeTable:
        def __init__(self, f):
            self.f = f

        def write(self, r, c, v):
            e = self.f["writes"].get((r, c))
            if e:
                raise voc[e]()

        def set_cell_formatting(self, *a, **kw):
            pass

    class FakeSheet:
        def __init__(self, f):
            self.tables = [FakeTable(f)]

    class FakeDocument:
        def __init__(self, *a, **kw):
            self.f = current[-1]
            if self.f["doc"]:
                raise voc[self.f["doc"]]()
            self.sheets = [FakeSheet(self.f)]

        def save(self, fn):
            if self.f["save"]:
                raise voc[self.f["save"]]()

    class FakePath:
        def __init__(self, x):
            self.x = str(x)

        def with_suffix(self, s):
            f = files[self.x]
            if f["derive"]:
                raise voc[f["derive"]]()
            return self.x + s

    argv = ["csv2numbers", *scn["opts"]] + (["-V"] if scn["version"] else []) + [f["name"] for f in scn["files"]]
    if scn["outputs"] is not None:
        argv += ["-o"] + [f"out{i}.numbers" for i in range(scn["outputs"])]
    saved = (c2n.Document, c2n.Path)
    c2n.open = fake_open
    c2n.Document, c2n.Path = FakeDocument, FakePath
    try:
        code, out, err, exc = run_main(c2n, argv)
    finally:
        del c2n.open
        c2n.Document, c2n.Path = saved
    if exc is not None:
        return f"err {exc_name(exc)}", exc
    return f"ok {code} {len(out.splitlines())} {len(err.splitlines())}", None


def scenario_line(scn, cls_text, help_lines):
    nh = "--no-header" in scn["opts"]
    rv = "--reverse" in scn["opts"]
    ws = "--whitespace" in scn["opts"]
    parts = [f"csv main f {int(nh)} {int(rv)} {int(ws)} {int(scn['version'])} {'-' if scn['outputs'] is None else scn['outputs']} {help_lines}",
             cls_text, f"files {len(scn['files'])}"]
    for f in scn["files"]:
        def res(x):
            return "!" + x if x else "ok"
        p = [res(f["derive"])]
        if f["open"]:
            p.append("!" + f["open"])
        else:
            p += ["T", enc_text(f["text"]), ("!" + f["fail"]) if f["fail"] else "-"]
        p += [str(csv.field_size_limit()), res(f["doc"]), str(len(f["writes"]))]
        for (r, c), e in sorted(f["writes"].items()):
            p.append(f"{r} {c} !{e}")
        p.append(res(f["save"]))
        cells = []
        seen = set()
        try:
            rows = list(csv.reader(io.StringIO(f["text"], newline=""), dialect="excel", strict=True))
        except csv.Error:
            rows = []
        for row in rows:
            for v in row:
                if v in seen:
                    continue
                seen.add(v)
                v2 = norm_ws(v)
                k, x = classify(v2 if ws else v)
                cells.append(f"{enc_text(v)} {enc_text(v2)} " + ("F0:-" if k == "F" else k))
        p.append(f"table {len(cells)} " + " ".join(cells))
        parts.append(" ".join(p))
    return " ".join(parts)


def new_file(name="in0.csv", text="h1,h2\r\n1,x\r\n", **kw):
    f = {"name": name, "derive": None, "open": None, "text": text, "fail": None, "doc": None, "writes": {}, "save": None}
    f.update(kw)
    return f


MAIN_TEXTS = ["", "\r\n", "\r\n\r\n", "h1,h2\r\n1,x\r\n", "h\r\n", "a", '"a"b\r\n', 'h\r\n"open', 'h1,h2\r\n1\r\n1,2,3\r\n', "h,h\r\na,b\r\n",
              ",".join(f"c{i}" for i in range(1001)) + "\r\n", ",".join(f"c{i}" for i in range(1000)) + "\r\n",
              "h\r\n" + "x" * 131073 + "\r\n", "h\r\nnan\r\ninf\r\n1e400\r\n", "a\rb\nc\r\n"]


def oracle_scenario(ctx: Ctx, scn, outcome, exc, voc):
    """'either succeeds or reports a one-line error and a non-zero exit status; it does not crash' — for faults the code is
    expected to handle"""
    if scn["version"] or not scn["files"]:
        return
    faults = []
    for f in scn["files"]:
        for site in ("derive", "open", "doc", "save"):
            if f[site]:
                faults.append((site, f[site]))
        if f["fail"]:
            faults.append(("iter", f["fail"]))
        faults += [("write", e) for e in f["writes"].values()]
    if scn["outputs"] is not None:
        faults = [x for x in faults if x[0] != "derive"]      # Path.with_suffix is only called without -o
    if not all(tame(site, voc[name]()) for site, name in faults):
        return
    inp = {"scenario": {**scn, "files": [{**f, "writes": [[r, c, e] for (r, c), e in f["writes"].items()]} for f in scn["files"]]}}
    if exc is not None:
        ctx.violation(f"csv-main-crash-{exc_name(exc)}", f"main() let {exc_name(exc)} escape: {str(exc)[:100]}", inp)
        return
    _, code, nout, nerr = outcome.split()
    if not ((code == "0" and nerr == "0") or (code != "0" and nerr == "1")):
        ctx.violation("csv-main-not-one-line", f"main() ended with exit {code} and {nerr} stderr lines", inp)


def real_cases(ctx: Ctx):
    """a dozen real situations through the real main() (no fakes): the oracle only"""
    from numbers_parser import _csv2numbers as c2n
    with tempfile.TemporaryDirectory() as d:
        def mk(name, data: bytes):
            p = os.path.join(d, name)
            with open(p, "wb") as f:
                f.write(data)
            return p
        out = os.path.join(d, "o.numbers")
        cases = [
            ("empty file", [mk("empty.csv", b""), "-o", out]),
            ("empty file, --no-header", ["--no-header", mk("empty2.csv", b""), "-o", out]),
            ("blank first line", [mk("blank.csv", b"\r\n"), "-o", out]),
            ("blank first line, --no-header", ["--no-header", mk("blank2.csv", b"\r\n\r\n"), "-o", out]),
            ("header only", [mk("hdr.csv", b"a,b\r\n"), "-o", out]),
            ("a directory as input", [d, "-o", out]),
            ("missing input", [os.path.join(d, "missing.csv"), "-o", out]),
            ("bytes that are not UTF-8", [mk("latin.csv", b"a\xff\r\n1\r\n"), "-o", out]),
            ("unknown encoding", ["--encoding", "no-such-codec", mk("x.csv", b"a\r\n1\r\n"), "-o", out]),
            ("output folder does not exist", [mk("y.csv", b"a\r\n1\r\n"), "-o", os.path.join(d, "nodir", "o.numbers")]),
            ("malformed quoting", [mk("bad.csv", b'"a"b\r\n'), "-o", out]),
            ("1001 columns", [mk("wide.csv", b",".join(b"c%d" % i for i in range(1001)) + b"\r\n"), "-o", out]),
            ("cell over the field limit", [mk("big.csv", b"a\r\n" + b"x" * 131073 + b"\r\n"), "-o", out]),
            ("output count mismatch", [mk("z.csv", b"a\r\n"), "-o", out, out]),
        ]
        for what, argv in cases:
            code, so, se, exc = run_main(c2n, ["csv2numbers", *argv])
            inp = {"real_case": what, "argv": [a.replace(d, "<tmp>") for a in argv]}
            ctx.count("real situations through main()", 1, exhaustive=False)
            ctx.mark(("real", what))
            if exc is not None:
                ctx.violation(f"csv-crash-csv2numbers-{exc_name(exc)}", f"{what}: csv2numbers crashed with {exc_name(exc)}: {str(exc)[:100]}", inp)
            elif not ((code == 0 and se == "") or (code != 0 and len(se.splitlines()) == 1)):
                ctx.violation("csv-error-not-one-line", f"{what}: exit {code} with stderr {se[:200]!r}", inp)


def run_main_faults(ctx: Ctx):
    from numbers_parser import _csv2numbers as c2n
    rng = ctx.rng
    voc = exc_vocabulary()
    names = sorted(voc)
    cls_text = class_lists(voc)
    help_lines = len(c2n.command_line_parser().format_help().splitlines())
    scns = []
    # every class at every site, header and --no-header
    for opts in ([], ["--no-header"]):
        for n in names:
            scns.append({"opts": opts, "version": False, "outputs": None, "files": [new_file(derive=n)]})
            scns.append({"opts": opts, "version": False, "outputs": 1, "files": [new_file(derive=n)]})
            scns.append({"opts": opts, "version": False, "outputs": 1, "files": [new_file(open=n)]})
            scns.append({"opts": opts, "version": False, "outputs": 1, "files": [new_file(fail=n)]})
            scns.append({"opts": opts, "version": False, "outputs": 1, "files": [new_file(text="", fail=n)]})
            scns.append({"opts": opts, "version": False, "outputs": 1, "files": [new_file(text='"a"b\r\n', fail=n)]})
            scns.append({"opts": opts, "version": False, "outputs": 1, "files": [new_file(doc=n)]})
            scns.append({"opts": opts, "version": False, "outputs": 1, "files": [new_file(writes={(0, 0): n})]})
            scns.append({"opts": opts, "version": False, "outputs": 1, "files": [new_file(writes={(1, 1): n})]})
            scns.append({"opts": opts, "version": False, "outputs": 1, "files": [new_file(save=n)]})
    # texts x options
    for t in MAIN_TEXTS:
        for opts in ([], ["--no-header"], ["--reverse", "--whitespace"], ["--no-header", "--reverse"]):
            scns.append({"opts": opts, "version": False, "outputs": 1, "files": [new_file(text=t)]})
    # usage paths
    scns.append({"opts": [], "version": True, "outputs": None, "files": []})
    scns.append({"opts": [], "version": True, "outputs": 1, "files": [new_file()]})
    scns.append({"opts": [], "version": False, "outputs": None, "files": []})
    scns.append({"opts": [], "version": False, "outputs": 2, "files": [new_file()]})
    scns.append({"opts": [], "version": False, "outputs": 0, "files": [new_file()]})
    # seeded combinations, one or two files
    for _ in range(1500 if ctx.quick else 15000):
        nf = rng.choice([1, 1, 2])
        fs = []
        for i in range(nf):
            f = new_file(name=f"in{i}.csv", text=rng.choice(MAIN_TEXTS[:10] + ["h1,h2\r\n1,x\r\n"] * 6))
            for site in ("derive", "open", "fail", "doc", "save"):
                if rng.random() < 0.15:
                    f[site] = rng.choice(names)
            if rng.random() < 0.15:
                f["writes"] = {(rng.randrange(0, 3), rng.randrange(0, 3)): rng.choice(names)}
            fs.append(f)
        opts = [o for o in ("--no-header", "--reverse", "--whitespace") if rng.random() < 0.3]
        scns.append({"opts": opts, "version": False, "outputs": rng.choice([None, nf, nf, nf, nf + 1]), "files": fs})
    req, out = [], []
    for scn in scns:
        for f in scn["files"]:
            if f["fail"] == "StopIteration":
                f["fail"] = None          # an iterator that raises StopIteration simply ends: not a fault
        outcome, exc = run_scenario(scn, voc)
        oracle_scenario(ctx, scn, outcome, exc, voc)
        req.append(scenario_line(scn, cls_text, help_lines))
        out.append(outcome)
    ctx.correspond("csv2numbers main() with scripted open / file iterator / Path / Document / write / save vs CsvMain.main",
                   req, out, nontrivial=lambda r, o: " files 0" not in r)
    real_cases(ctx)


def run(ctx: Ctx):
    run_codec(ctx)
    run_main_faults(ctx)
    run_pipeline(ctx)


def replay(data):
    i = data["input"]
    if "codec_grid" in i:
        t = impl_write(i["codec_grid"])
        return {"grid": i["codec_grid"], "written": t, "read_back": impl_read(t, True)}
    if "scenario" in i:
        voc = exc_vocabulary()
        scn = dict(i["scenario"])
        scn["files"] = [{**f, "writes": {(r, c): e for r, c, e in f["writes"]}} for f in scn["files"]]
        outcome, exc = run_scenario(scn, voc)
        return {"scenario": i["scenario"], "outcome": outcome, "exception": repr(exc)}
    if "real_case" in i:
        return {"real_case": i["real_case"], "argv": i["argv"], "note": "re-run csv2numbers with these arguments (<tmp> = a scratch folder)"}
    text = i["text"] if "text" in i else impl_write(i["grid"])
    with tempfile.TemporaryDirectory() as d:
        res = roundtrip(text, i["opts"], d)
    return {"text": text, "opts": i["opts"], "result": res}
