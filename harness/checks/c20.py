"""C20 — CSV import followed by CSV export reproduces the cell grid."""
from __future__ import annotations

import contextlib
import csv
import io
import math
import os
import re
import sys
import tempfile

import common
from common import Ctx, enc_text, exc_name

PID = "C20"
PROPS_MODULE = "NumbersModel.Props.C20"
THEOREMS = [f"NumbersModel.Props.C20.{t}" for t in (
    "row_survives_dict", "text_cells_identical", "special_spellings_stay_text", "numbers_numerically_equal", "coerce_total",
    "grid_roundtrip_header", "reverse_reverses_data")]
PARTIAL = {"converter_total": "'conversion either succeeds or reports a one-line error' is not a theorem: csv/argparse/zip "
                              "behaviour is outside the model; the oracle checks it on every generated grid",
           "grid_roundtrip_header": "whole-grid theorem proved for header mode without options; --no-header/--reverse/--whitespace "
                                    "are covered per row (reverse_reverses_data) and by the correspondence"}
RULE = ("seeded rectangular grids of 1..40 x 1..12 cells drawn from hostile text (delimiters, quotes, CR/LF, non-ASCII, astral), "
        "numeric spellings of <= 15 significant digits (ints, decimals, thousands commas, exponents, signs, underscores, "
        "non-ASCII digits, surrounding blanks), special-float spellings (nan, inf, infinity, 1e400, signs, case variants) and "
        "empties x header/--no-header x --whitespace x --reverse, through the real csv2numbers main() and cat-numbers -b main() "
        "in-process. Distinct by grid text + options; non-trivial = grid has at least one data cell")
ASSUMPTIONS = ["Python csv reader/writer are mutually inverse for the excel dialect (used as reference reader)",
               "float(), str.strip, re.sub are supplied to the model as data computed by the interpreter",
               "numbers of more than 15 significant digits are outside the domain (the library documents rounding to 15)"]
MANIFEST = {
    "text": "Thin: the per-cell coercion and the header/row pipeline are modelled; text_cells_identical, "
            "special_spellings_stay_text (nan/inf/overflow spellings stay text), numbers_numerically_equal (given a re-readable "
            "number printer), row_survives_dict (a row survives the header-keyed dict exactly when header cells are distinct; "
            "counter-example proved for duplicates), grid_roundtrip_header, reverse_reverses_data are Lean theorems. The rest of "
            "the statement (csv parsing, file writing, exit status) is reached by the implementation-level oracle on generated "
            "grids through the real entry points — exploration, labelled as such.",
    "note": "csv, float(), dateutil, argparse and the whole save/open path (C01) are outside the model.",
    "technique": "Lean 4 proof of the decision logic + differential correspondence and end-to-end oracle through both CLI mains",
}

MARK = ""
TEXTS = ["a", "abc def", "x,y", 'say "hi"', '"', '""', "line1\nline2", "cr\rlf", "crlf\r\nend", "\n", "\r", " lead", "trail ", "  ",
         "tab\there", "é", "日本語", "😀", "𝔘𝔫𝔦", "a;b", "it's", "=SUM(A1)", "#REF!", "TRUE", "false", "2020-01-01", "12:30", "0x10",
         "1__0", "_1", "1_", "1e", "e5", "--1", "1-", "1.2.3", ".", "-", "+", "٫", "１２a", "NULL", "None", "N/A", "null\x00byte"[:4],
         "very long " * 30, "ﬁ", "İ", " ", " x", "a​b"]
NUMS = ["0", "1", "-1", "+5", "42", "007", "1.5", "-0.25", ".5", "5.", "1e5", "1E-7", "2.5e+10", "1,234", "1,234,567.89", "12,34",
        "1_000", "1_0.5_0", "١٢", "१२३", "１２", "٣.٥", " 12", "12 ", "\t7", "7\n", "-0", "0.0", "1e22", "1e-290", "9.99999999999999e289",
        "123456789012345", "0.123456789012345", "99999999999999.9", "1e15", "0.1", "0.2", "0.3", "1.1", "2.675", "1e-5", "-1e-9"]
SPECIAL = ["nan", "NaN", "NAN", "inf", "-inf", "+inf", "Inf", "INF", "infinity", "-Infinity", "1e400", "-1e999", "1e309", " nan ",
           "n,an", "in,f", "+nan", "-nan", "inf\n", "١e٤٠٠"]


# minimised past failures and the recorded finding, always run first: (grid, no_header, reverse, whitespace)
CORPUS = [
    ((("h", "h"), ("a", "b")), False, False, False),            # known finding: duplicate header cells
    ((("h1", "h2"), ("nan", "inf"), ("1e400", "-Infinity")), False, False, False),
    ((("nan", "1"), ("2", "inf")), True, False, False),
    ((("h1", "h2"), ("cr\rlf", "crlf\r\nend")), False, False, False),
    ((("h1",), ("x",)), False, False, False),
    ((("only header", "b"),), False, False, False),
    ((("1",),), True, False, False),
    ((("a ", " b  c"), (" 2 ", "x\t y")), False, True, True),
]


def classify(text: str):
    """what float(v.replace(',', '')) does, as the running interpreter does it."""
    try:
        x = float(text.replace(",", ""))
    except ValueError:
        return "V", None
    if math.isnan(x):
        return "N", None
    if math.isinf(x):
        return "I", None
    return "F", x


def norm_ws(v: str) -> str:
    return re.sub(r"\s+", " ", v.strip())


def run_main(mod, argv):
    old = sys.argv
    sys.argv = argv
    out, err = io.StringIO(), io.StringIO()
    code, exc = 0, None
    try:
        with contextlib.redirect_stdout(out), contextlib.redirect_stderr(err):
            mod.main()
    except SystemExit as e:
        code = e.code if isinstance(e.code, int) else (0 if e.code is None else 1)
    except BaseException as e:  # noqa: BLE001
        exc = e
    finally:
        sys.argv = old
    return code, out.getvalue(), err.getvalue(), exc


def roundtrip(grid, opts, workdir):
    """csv2numbers main() then cat-numbers -b main(), in-process. Returns ('ok', exported grid) | ('exit', code, stderr) | ('crash', name)."""
    from numbers_parser import _cat_numbers as cat
    from numbers_parser import _csv2numbers as c2n
    inp = os.path.join(workdir, "in.csv")
    outp = os.path.join(workdir, "out.numbers")
    with open(inp, "w", newline="", encoding="utf-8") as f:
        csv.writer(f, dialect="excel").writerows(grid)
    if os.path.exists(outp):
        os.remove(outp)
    code, _, err, exc = run_main(c2n, ["csv2numbers", *opts, inp, "-o", outp])
    if exc is not None:
        return ("crash", "csv2numbers", exc_name(exc), str(exc)[:120])
    if code != 0:
        return ("exit", code, err)
    code, out, err, exc = run_main(cat, ["cat-numbers", "-b", outp])
    if exc is not None:
        return ("crash", "cat-numbers", exc_name(exc), str(exc)[:120])
    if code != 0:
        return ("exit", code, err)
    return ("ok", list(csv.reader(io.StringIO(out, newline=""), dialect="excel")))


def gen_grid(rng, small):
    nr = rng.randrange(1, 7 if small else 41)
    nc = rng.randrange(1, 5 if small else 13)
    mode = rng.random()
    grid = []
    for r in range(nr):
        row = []
        for c in range(nc):
            x = rng.random()
            if mode < 0.15:
                pool = TEXTS
            elif x < 0.4:
                pool = TEXTS
            elif x < 0.75:
                pool = NUMS
            elif x < 0.9:
                pool = SPECIAL
            else:
                pool = [""]
            row.append(rng.choice(pool))
        grid.append(row)
    return grid


def expected(grid, no_header, reverse, ws):
    """The property, independently of library and model: list of rows of ('T', text) | ('F', value)."""
    def cell(v):
        v2 = norm_ws(v) if ws else v
        k, x = classify(v2)
        return ("F", x) if k == "F" else ("T", v2)
    if no_header:
        rows = list(reversed(grid)) if reverse else grid
        return [[cell(v) for v in row] for row in rows]
    data = grid[1:]
    rows = list(reversed(data)) if reverse else data
    return [[("T", v) for v in grid[0]]] + [[cell(v) for v in row] for row in rows]


def one(task):
    import warnings
    warnings.simplefilter("ignore")
    seed, idx = task
    sub = Ctx(PID, "quick", seed * 1_000_003 + (idx if isinstance(idx, int) else 0))
    rng = sub.rng
    if isinstance(idx, int):
        grid = gen_grid(rng, small=(idx % 3 != 0))
        no_header = idx % 2 == 1
        reverse = idx % 5 == 2
        ws = idx % 7 == 3
    else:  # corpus entry: (grid, no_header, reverse, ws)
        grid, no_header, reverse, ws = idx
        grid = [list(r) for r in grid]
        idx = 10**9 + 11 * 7
    dup_header = not no_header and len(set(grid[0])) != len(grid[0])
    if dup_header and idx % 11 != 0:
        # duplicate header cells are a recorded finding; keep a few, make the rest distinct
        grid[0] = [f"{v}#{i}" for i, v in enumerate(grid[0])]
        dup_header = False
    opts = (["--no-header"] if no_header else []) + (["--reverse"] if reverse else []) + (["--whitespace"] if ws else [])
    inp = {"grid": grid, "opts": opts}
    with tempfile.TemporaryDirectory() as d:
        res = roundtrip(grid, opts, d)
    exp = expected(grid, no_header, reverse, ws)
    # ---- protocol line for the model
    ids: dict = {}
    cells = []
    for row in grid:
        for v in row:
            v2 = norm_ws(v)
            k, x = classify(v2 if ws else v)
            if k == "F":
                ids.setdefault(repr(x), len(ids))
                k = f"F{ids[repr(x)]}"
            cells.append(f"{enc_text(v)} {enc_text(v2)} {k}")
    req = f"csv convert {int(no_header)} {int(reverse)} {int(ws)} {len(grid)} {len(grid[0])} " + " ".join(cells)
    # ---- implementation outcome, canonicalised
    if res[0] == "crash":
        out = f"err {res[2]}"
        sub.violation(f"csv-crash-{res[1]}-{res[2]}", f"{res[1]} crashed with {res[2]}: {res[3]}", inp)
    elif res[0] == "exit":
        out = f"exit {res[1]}"
        msg = res[2].strip()
        if "\n" in msg or not msg:
            sub.violation("csv-error-not-one-line", f"exit {res[1]} with stderr {msg[:200]!r}", inp)
        else:
            sub.violation("csv-wellformed-input-refused", f"well-formed CSV refused: {msg[:200]}", inp)
    else:
        got = res[1]
        canon_rows = []
        bad = None
        if len(got) != len(exp) or any(len(a) != len(b) for a, b in zip(got, exp)):
            bad = ("csv-grid-shape", f"exported {len(got)}x{len(got[0]) if got else 0} grid, expected {len(exp)}x{len(exp[0])}: got {got[:3]!r}")
        for i, row in enumerate(got):
            crow = []
            for j, t in enumerate(row):
                e = exp[i][j] if i < len(exp) and j < len(exp[i]) else None
                if e is not None and e[0] == "F":
                    try:
                        same = float(t) == e[1]
                    except ValueError:
                        same = False
                    crow.append(f"#{ids[repr(e[1])]}" if same else enc_text(t))
                    if not same and bad is None:
                        bad = ("csv-number-changed", f"cell ({i},{j}): number {e[1]!r} exported as {t!r}")
                else:
                    crow.append(enc_text(t))
                    if e is not None and t != e[1] and bad is None:
                        kind = classify(e[1])[0]
                        bad = ("csv-special-float-not-text" if kind in "NI" else "csv-text-changed",
                               f"cell ({i},{j}): text {e[1]!r} exported as {t!r}")
            canon_rows.append(" ".join(crow))
        out = "ok " + "|".join(canon_rows)
        if bad is not None:
            sig = bad[0]
            if dup_header:
                sig = "csv-duplicate-header-collapses-columns"
            elif sig == "csv-grid-shape" and (len(grid[0]) == 1 or len(exp) == 1):
                sig = "csv-grid-shape-minimum-2x2"
            sub.violation(sig, bad[1], inp)
    sub.count("grids", 1)
    if sum(len(r) for r in grid[(0 if no_header else 1):]) > 0:
        sub.mark(req)
    if idx < 3:
        sub.sample({"grid": grid[:4], "opts": opts, "outcome": out[:200]})
    return common.sub_result(sub, (req, out, dup_header))


def run(ctx: Ctx):
    n = 1200 if ctx.quick else 20000
    tasks = [(ctx.seed, c) for c in CORPUS] + [(ctx.seed, i) for i in range(n)]
    req, out = [], []
    for r, o, dup in common.run_parallel(ctx, one, tasks):
        if dup:
            continue  # known finding (duplicate header): the model needs Nodup header; not part of the correspondence
        req.append(r)
        out.append(o)
    ctx.correspond("generated grids through csv2numbers + cat-numbers -b (in-process mains)", req, out, keep=0)
    ctx.subspaces.pop("grids", None)
    ctx.evaluations -= n + len(CORPUS)


def replay(data):
    i = data["input"]
    with tempfile.TemporaryDirectory() as d:
        res = roundtrip(i["grid"], i["opts"], d)
    return {"grid": i["grid"], "opts": i["opts"], "result": res}
