"""C13 / C14 — the format-selection glue: correspondence of Model/FormatDispatch.lean (driver op `fmtd`) with the real
`Table.write` + `Table.set_cell_formatting(**args)` + `Cell.formatted_value`, and the API-level oracles of the glue.

Called from checks/c13.py (number formats, controls, non-date fixture cells) and checks/c14.py (datetime formats, date and
duration fixture cells).  Everything the model is compared with is read from the real objects by this module's own
readers (the data lists of the table's base data store, the control specs, the popup model, the custom format list),
never through `table_format` / `custom_format_map`.
"""
from __future__ import annotations

import itertools
import os
import shutil
import tempfile
import warnings
from datetime import datetime, timedelta
from decimal import Decimal
from fractions import Fraction

from common import REPO, Ctx, enc_text, exc_name

NUMBER_TYPES = ("base", "currency", "fraction", "number", "percentage", "scientific")
CONTROL_TYPES = ("tickbox", "rating", "slider", "stepper", "popup")
ALL_NAMES = ("base", "currency", "datetime", "fraction", "number", "percentage", "popup", "rating", "scientific", "slider",
             "stepper", "tickbox")
BAD_NAMES = ("text", "NUMBER", "Number", "bogus", "tıckbox", "baſe", "")
# what docs/ and the docstring of Table.set_cell_formatting document as the default of every optional argument
DOCUMENTED_DEFAULTS = {
    "base": {"base": 10, "base_places": 0, "base_use_minus_sign": True},
    "currency": {"currency_code": "GBP", "decimal_places": 2, "negative_style": 0, "show_thousands_separator": False,
                 "use_accounting_style": False},
    "fraction": {"fraction_accuracy": 0xFFFFFFFD},
    "number": {"decimal_places": None, "negative_style": 0, "show_thousands_separator": False},
    "percentage": {"decimal_places": None, "negative_style": 0, "show_thousands_separator": False},
    "scientific": {"decimal_places": None},
    "slider": {"control_format": "NUMBER", "increment": 1, "maximum": 100, "minimum": 1},
    "stepper": {"control_format": "NUMBER", "increment": 1, "maximum": 100, "minimum": 1},
    "popup": {"allow_none": False},
}
# CellInteractionType documented for every control
CONTROL_KIND = {"tickbox": 8, "rating": 6, "slider": 5, "stepper": 4, "popup": 7}


# ---------------------------------------------------------------------------------------------
# encoders
# ---------------------------------------------------------------------------------------------
def dec_of(v) -> Decimal:
    return Decimal(v) if isinstance(v, int) and not isinstance(v, bool) else Decimal(repr(float(v)))


def dec3(d: Decimal) -> str:
    s, digits, e = d.as_tuple()
    m = int("".join(map(str, digits))) if digits else 0
    return f"{s},{m},{e}"


def dec3n(x) -> str:
    """normalised (as the driver prints control numbers)"""
    d = dec_of(x)
    if d == 0:
        return "0,0,0"
    return dec3(d.normalize())


def num_tokens(d128, accs=(), scale=None) -> list[str]:
    from sigfig import round as sigfig
    toks = [f"n.repr={dec3(dec_of(d128))}", f"n.x100={dec3(dec_of(d128 * 100))}"]
    v15 = sigfig(d128, sigfigs=15, warn=False)
    toks.append(f"n.sci={dec3(Decimal(v15))}")
    fx = float(d128)
    pq = Fraction(fx)
    toks.append(f"n.ratio={pq.numerator}/{pq.denominator}")
    fixed = [a for a in accs if not a & 0xFF000000]
    if fixed:
        t = fixed[0] * (fx - int(fx))
        tp, tq = abs(t).as_integer_ratio()
        toks.append(f"n.frac={int(t < 0)},{tp},{tq}")
    if scale is not None:
        v = d128 * scale
        w = v * 100.0
        toks.append("n.cv=" + "/".join((dec3(Decimal(repr(float(v)))), dec3(Decimal(float(v))),
                                        dec3(Decimal(repr(float(w)))), dec3(Decimal(float(w))))))
    return toks


def value_tokens(v, accs=()) -> list[str]:
    """the cell `Table.write(v)` makes"""
    if v is None:
        return ["kind=EmptyCell"]
    if isinstance(v, bool):
        return ["kind=BoolCell", f"bool={int(v)}"]
    if isinstance(v, (int, float)):
        return ["kind=NumberCell", *num_tokens(v, accs), f"str={enc_text(str(v))}"]
    if isinstance(v, str):
        return ["kind=TextCell", f"text={enc_text(v)}"]
    if isinstance(v, datetime):
        return ["kind=DateCell", f"dt={v.year},{v.month},{v.day},{v.hour},{v.minute},{v.second},{v.microsecond}", "secs=1",
                f"str={enc_text(str(v))}"]
    if isinstance(v, timedelta):
        return ["kind=DurationCell", f"ms={round(v.total_seconds() * 1000)}", f"str={enc_text(str(v))}"]
    raise ValueError(v)


def arg_tokens(kw: dict) -> list[str]:
    out = []
    for k, v in kw.items():
        if k == "allow_none":
            out.append(f"a.allowNone={int(v)}")
        elif k == "base_places":
            out.append(f"a.basePlaces={int(v)}")
        elif k == "base_use_minus_sign":
            out.append(f"a.baseUseMinus={int(v)}")
        elif k == "base":
            out.append(f"a.base={int(v)}")
        elif k == "control_format":
            out.append("a.ctl=" + (v.name.lower() if hasattr(v, "name") else "invalid"))
        elif k == "currency_code":
            out.append(f"a.cur={enc_text(v)}")
        elif k == "date_time_format":
            out.append(f"a.dtf={enc_text(v)}")
        elif k == "decimal_places":
            out.append("a.dp=" + ("none" if v is None else str(int(v))))
        elif k == "fraction_accuracy":
            out.append(f"a.frac={int(v)}")
        elif k in ("increment", "maximum", "minimum"):
            out.append(f"a.{k[:3]}={dec3(dec_of(v))}")
        elif k == "popup_values":
            out.append("a.popup=" + (";".join(("s:" + enc_text(i)) if isinstance(i, str) else ("n:" + dec3(dec_of(i))) for i in v)
                                    or "-"))
        elif k == "negative_style":
            out.append(f"a.neg={int(v)}")
        elif k == "show_thousands_separator":
            out.append(f"a.thou={int(v)}")
        elif k == "use_accounting_style":
            out.append(f"a.acct={int(v)}")
        else:
            out.append("a.unk=1")
    return out


def call_tokens(name: str, kw: dict) -> list[str]:
    return ["//", f"name={enc_text(name)}", *arg_tokens(kw)]


def accs_of(calls) -> tuple:
    out = []
    for _, kw in calls:
        out.append(int(kw.get("fraction_accuracy", 0xFFFFFFFD)))
    return tuple(a for a in out if 0 <= a < 2 ** 32)


# ---------------------------------------------------------------------------------------------
# own readers
# ---------------------------------------------------------------------------------------------
def _entry(model, table_id, table_attr, key):
    bds = model.objects[table_id].base_data_store
    dl = model.objects[getattr(bds, table_attr).identifier]
    for e in dl.entries:
        if e.key == key:
            return e
    raise KeyError(key)


def fmt_text(f) -> str:
    return (f"ft:{int(f.format_type)};dp:{int(f.decimal_places)};cc:{enc_text(f.currency_code)};ns:{int(f.negative_style)};"
            f"th:{int(f.show_thousands_separator)};ac:{int(f.use_accounting_style)};b:{int(f.base)};bp:{int(f.base_places)};"
            f"bm:{int(f.base_use_minus_sign)};fa:{int(f.fraction_accuracy)};dtf:{enc_text(f.date_time_format)}")


def custom_list(model) -> dict:
    from numbers_parser.constants import DOCUMENT_ID
    from numbers_parser.numbers_uuid import NumbersUUID
    cl = model.objects[model.objects[DOCUMENT_ID].super.custom_format_list.identifier]
    return {NumbersUUID(u).hex: cl.custom_formats[i] for i, u in enumerate(cl.uuids)}


def fmt_full(f, customs: dict) -> str:
    """an archive read from a file, for `fmtd show`"""
    from numbers_parser.numbers_uuid import NumbersUUID
    s = fmt_text(f) + (f";ds:{int(f.duration_style)};dl:{int(f.duration_unit_largest)};dsm:{int(f.duration_unit_smallest)};"
                       f"au:{int(f.use_automatic_duration_units)}")
    if f.HasField("custom_uid"):
        u = NumbersUUID(f.custom_uid).hex
        if u not in customs:
            return s + ";uid:m"
        d = customs[u].default_format
        s += (f";uid:e;cft:{int(d.format_type)};cfa:{int(d.fraction_accuracy)};cfs:{enc_text(d.custom_format_string)};"
              f"c1:{int(d.scale_factor == 1.0)};ccc:{enc_text(d.currency_code)};cth:{int(d.show_thousands_separator)};"
              f"cni:{int(d.num_nonspace_integer_digits)};cnd:{int(d.num_nonspace_decimal_digits)};"
              f"crf:{int(d.requires_fraction_replacement)}")
    return s


def ctl_text(model, table_id, control_id) -> str:
    if control_id is None:
        return "-"
    spec = _entry(model, table_id, "control_cell_spec_table", control_id).cell_spec
    s = f"i:{int(spec.interaction_type)}"
    if spec.HasField("range_control_min") or spec.HasField("range_control_max") or spec.HasField("range_control_inc"):
        s += f";r:{dec3n(spec.range_control_min)}/{dec3n(spec.range_control_max)}/{dec3n(spec.range_control_inc)}"
    if spec.HasField("chooser_control_popup_model"):
        pm = model.objects[spec.chooser_control_popup_model.identifier]
        items = []
        for it in pm.tsce_item:
            tn = type(it).DESCRIPTOR.fields_by_name["cell_value_type"].enum_type.values_by_number[it.cell_value_type].name
            if tn == "NIL_TYPE":
                items.append("nil")
            elif tn == "STRING_TYPE":
                items.append("s." + enc_text(it.string_value.value))
            elif tn == "NUMBER_TYPE":
                items.append("n." + dec3n(it.number_value.value))
            else:
                items.append("?" + tn)
        s += f";p:{int(spec.chooser_control_start_w_first)}/" + "+".join(items)
    return s


SLOTS = (("num", "_num_format_id"), ("currency", "_currency_format_id"), ("text", "_text_format_id"),
         ("bool", "_bool_format_id"), ("date", "_date_format_id"))


def slots_text(model, cell) -> tuple[str, str]:
    parts, last = [], None
    for n, a in SLOTS:
        fid = getattr(cell, a, None)
        if fid is not None:
            last = _entry(model, cell._table_id, "format_table", fid).format
            parts.append(f"slot={n} fmt={fmt_text(last)}")
    sf = "-" if last is None else "+".join(sorted(f.name for f, _ in last.ListFields() if f.name != "format_type"))
    return (" ".join(parts) or "slot=- fmt=-"), sf


# ---------------------------------------------------------------------------------------------
# which formatter the real code calls (the module functions are wrapped in-process)
# ---------------------------------------------------------------------------------------------
class _Star(str):
    log = None

    def __mul__(self, n):
        self.log.append("rating")
        return str.__mul__(self, n)


class Spy:
    NAMES = {"_format_currency": "format_currency", "_format_base": "format_base", "_format_fraction": "format_fraction",
             "_format_scientific": "format_scientific", "_decode_number_format": "decode_number_format",
             "_decode_text_format": "decode_text_format", "_decode_date_format": "date_format"}

    def __init__(self):
        from numbers_parser import cell as K
        self.K = K
        self.called: list[str] = []
        self.saved = {n: getattr(K, n) for n in list(self.NAMES) + ["_format_decimal", "STAR_RATING_VALUE"]}
        self.saved_m = {n: getattr(K.Cell, n) for n in ("_duration_format", "_date_format", "_custom_format")}

    def __enter__(self):
        K, called = self.K, self.called

        def wrap(n, tag):
            f = self.saved[n]

            def g(*a, **k):
                called.append(tag)
                return f(*a, **k)
            return g

        for n, tag in self.NAMES.items():
            setattr(K, n, wrap(n, tag))
        fd = self.saved["_format_decimal"]

        def dec(*a, **k):
            called.append("format_percent" if (k.get("percent") or (len(a) > 2 and a[2])) else "format_decimal")
            return fd(*a, **k)
        K._format_decimal = dec
        star = _Star(self.saved["STAR_RATING_VALUE"])
        star.log = called
        K.STAR_RATING_VALUE = star

        def meth(n, tag):
            f = self.saved_m[n]

            def g(this):
                called.append(tag)
                return f(this)
            return g
        K.Cell._duration_format = meth("_duration_format", "duration_format")
        K.Cell._date_format = meth("_date_format", "@date")
        K.Cell._custom_format = meth("_custom_format", "@custom")
        return self

    def __exit__(self, *exc):
        for n, f in self.saved.items():
            setattr(self.K, n, f)
        for n, f in self.saved_m.items():
            setattr(self.K.Cell, n, f)

    def display(self, cell) -> str:
        """`fm=<formatter> t=<text>` as the driver prints it"""
        K = self.K
        del self.called[:]
        try:
            t = cell.formatted_value
        except Exception as e:  # noqa: BLE001
            return f"fm=? t=!{exc_name(e)}"
        real = [c for c in self.called if not c.startswith("@")]
        if real:
            fm = real[0]
        elif isinstance(cell, K.EmptyCell):
            fm = "empty"
        elif "@date" in self.called:
            fm = "date_unexpected"
        elif "@custom" in self.called:
            if t in (K.CHECKBOX_TRUE_VALUE, K.CHECKBOX_FALSE_VALUE) and t != cell.value:
                fm = "checkbox"
            elif t in ("TRUE", "FALSE") and t != str(cell.value):
                fm = "bool_text"
            else:
                fm = "str_value"
        else:
            fm = "fallback"
        return f"fm={fm} t={enc_text(str(t))}"


# ---------------------------------------------------------------------------------------------
# the real API
# ---------------------------------------------------------------------------------------------
class Impl:
    def __init__(self, spy: Spy):
        from numbers_parser import Document
        from numbers_parser.constants import CellType
        self.Document = Document
        self.CellType = CellType
        self.spy = spy
        self._new()

    def _new(self):
        self.doc = self.Document(num_header_rows=0, num_header_cols=0, num_rows=2, num_cols=2)
        self.table = self.doc.sheets[0].tables[0]
        self.n = 0

    def put(self, table, r, c, v):
        if v is None:
            table.write(r, c, "")
            K = self.spy.K
            e = K.Cell._empty_cell(table._table_id, r, c, table._model)
            table._data[r][c] = e
        else:
            table.write(r, c, v)

    def run(self, v, calls, display=True) -> tuple[str, str | None]:
        """-> (protocol line as the driver prints it, displayed text or None)"""
        self.n += 1
        if self.n > 4000:
            self._new()
        t = self.table
        self.put(t, 0, 0, v)
        for i, (name, kw) in enumerate(calls):
            try:
                t.set_cell_formatting(0, 0, name, **kw)
            except Exception as e:  # noqa: BLE001
                return f"err {exc_name(e)} {i}", None
        if not display:
            return "ok (accepted; not displayed)", None
        return self.describe(self.doc._model, t.cell(0, 0), t.cell(0, 0))

    def describe(self, model, shown_cell, cell):
        d = self.spy.display(shown_cell)
        slots, sf = slots_text(model, cell)
        line = (f"ok {d} {slots} set={sf} ctl={ctl_text(model, cell._table_id, cell._control_id)} "
                f"cur={int(cell._type == self.CellType.CURRENCY)}")
        text = None
        if " t=!" not in d:
            try:
                text = shown_cell.formatted_value
            except Exception:  # noqa: BLE001
                text = None
        return line, text


def request(op: str, v, calls) -> str:
    toks = ["fmtd", op, *value_tokens(v, accs_of(calls))]
    for name, kw in calls:
        toks += call_tokens(name, kw)
    return " ".join(toks)


# ---------------------------------------------------------------------------------------------
# replay payloads
# ---------------------------------------------------------------------------------------------
def enc_value(v):
    if isinstance(v, datetime):
        return {"datetime": v.isoformat()}
    if isinstance(v, timedelta):
        return {"timedelta_ms": round(v.total_seconds() * 1000)}
    if v is None:
        return {"empty": True}
    return {"py": repr(v)}


def dec_value(d):
    if "datetime" in d:
        return datetime.fromisoformat(d["datetime"])
    if "timedelta_ms" in d:
        return timedelta(milliseconds=d["timedelta_ms"])
    if "empty" in d:
        return None
    return eval(d["py"], {"__builtins__": {}}, {})  # repr of a bool/int/float/str produced by this module


def enc_kw(kw: dict) -> dict:
    out = {}
    for k, v in kw.items():
        if k == "control_format":
            out[k] = {"enum": v.name} if hasattr(v, "name") else {"raw": v}
        elif hasattr(v, "name") and hasattr(v, "value"):
            out[k] = int(v)
        else:
            out[k] = v
    return out


def dec_kw(kw: dict) -> dict:
    from numbers_parser import ControlFormattingType
    out = {}
    for k, v in kw.items():
        if k == "control_format":
            out[k] = ControlFormattingType[v["enum"]] if "enum" in v else v["raw"]
        else:
            out[k] = v
    return out


def payload(v, calls, **extra) -> dict:
    return {"glue": True, "value": enc_value(v), "calls": [[n, enc_kw(kw)] for n, kw in calls], **extra}


def replay(i: dict):
    warnings.showwarning = lambda *a, **k: None
    v = dec_value(i["value"])
    calls = [(n, dec_kw(kw)) for n, kw in i["calls"]]
    with Spy() as spy:
        impl = Impl(spy)
        line, text = impl.run(v, calls)
        out = {"write": repr(v), "set_cell_formatting": [[n, {k: str(x) for k, x in kw.items()}] for n, kw in calls],
               "result": line, "formatted_value": text}
        if i.get("compare_with"):
            calls2 = [(n, dec_kw(kw)) for n, kw in i["compare_with"]]
            line2, text2 = impl.run(v, calls2)
            out["compared with set_cell_formatting"] = [[n, {k: str(x) for k, x in kw.items()}] for n, kw in calls2]
            out["its result"] = line2
            out["its formatted_value"] = text2
    return out


# ---------------------------------------------------------------------------------------------
# the property oracles of c13.py on one displayed number (used for every number format and every control format)
# ---------------------------------------------------------------------------------------------
def number_oracle(ctx: Ctx, c13, ntype: str, kw: dict, held, text, inp):
    """`ntype` is the number format the text must be in; `kw` the arguments passed (documented defaults otherwise)."""
    from numbers_parser.currencies import CURRENCY_SYMBOLS
    d = dict(DOCUMENTED_DEFAULTS[ntype])
    d.update({k: v for k, v in kw.items() if k in d})
    v = dec_of(held)
    acct_any = bool(kw.get("use_accounting_style", False))
    if ntype in ("number", "percentage", "currency"):
        places = d["decimal_places"]
        if places is None and ntype == "currency":
            # observation, not a violation: the docstring says "decimal_places … default 2, or None for automatic", but None IS the
            # "not passed" marker of Formatting, so an explicit None also means 2 for a currency (automatic places can only be
            # asked for as decimal_places=253)
            places = 2
        elif places is not None and places >= 253:
            places = None
        style = 0 if acct_any else int(d["negative_style"])
        thou = bool(d["show_thousands_separator"])
    if ntype == "number":
        c13.check_decimal(ctx, "glue-number", text, v, places, thou, style, inp)
    elif ntype == "percentage":
        c13.check_decimal(ctx, "glue-percentage", text, v * 100, places, thou, style, inp, percent=True)
    elif ntype == "currency":
        if text is None:
            ctx.violation("glue-currency-raises", f"{inp}", inp)
            return
        code = d["currency_code"]
        symbol = CURRENCY_SYMBOLS.get(code, code + " ")
        if not text.startswith(symbol):
            ctx.violation("glue-currency-symbol", f"{inp} displays {text!r}", inp)
            return
        rest = text[len(symbol):]
        if d["use_accounting_style"]:
            if not rest.startswith("\t") or (v < 0) != rest[1:].startswith("("):
                ctx.violation("glue-currency-accounting-layout", f"{inp} displays {text!r}", inp)
                return
            c13.check_decimal(ctx, "glue-currency-accounting", rest[1:], v, places, thou, 2 if v < 0 else 0, inp)
        else:
            c13.check_decimal(ctx, "glue-currency", rest, v, places, thou, style, inp)
    elif ntype == "base":
        c13.check_base(ctx, text, v, int(d["base"]), int(d["base_places"]), bool(d["base_use_minus_sign"]), inp)
    elif ntype == "fraction":
        c13.check_fraction(ctx, text, Fraction(v), int(d["fraction_accuracy"]), inp)
    elif ntype == "scientific":
        from sigfig import round as sigfig
        c13.check_scientific(ctx, text, Decimal(sigfig(held, sigfigs=15, warn=False)), d["decimal_places"], inp)


# ---------------------------------------------------------------------------------------------
# argument pools
# ---------------------------------------------------------------------------------------------
def _enums():
    from numbers_parser import ControlFormattingType, FractionAccuracy, NegativeNumberStyle
    return ControlFormattingType, FractionAccuracy, NegativeNumberStyle


def arg_pool(name: str) -> dict:
    """argument -> candidate values (valid ones first, then invalid ones)"""
    CF, FA, NS = _enums()
    dec = {"decimal_places": [0, 2, 5, None, 253, -1], "negative_style": [NS.MINUS, NS.RED, NS.PARENTHESES, NS.RED_AND_PARENTHESES],
           "show_thousands_separator": [True, False]}
    if name == "base":
        return {"base": [2, 16, 36, 10, 8, 1, 37, 0, -2], "base_places": [0, 4, 8, -1], "base_use_minus_sign": [True, False]}
    if name == "currency":
        return {"currency_code": ["EUR", "USD", "XAF", "GBP", "XXQ", ""], **dec, "use_accounting_style": [True, False]}
    if name == "fraction":
        return {"fraction_accuracy": [FA.HALVES, FA.THREE, FA.ONE, FA.SIXTEENTHS, FA.HUNDRETHS, FA.TWO, 2 ** 32]}
    if name in ("number", "percentage"):
        return {**dec, "use_accounting_style": [True]}
    if name == "scientific":
        return {"decimal_places": [0, 2, 5, 10, -1]}
    if name == "datetime":
        return {"date_time_format": ["yyyy-MM-dd", "EEEE, d MMMM yyyy", "h:mm a", "'on' d/M/yy", "dd MMM yyyy HH:mm", "", "YYY", "d Q",
                                     "HH:MM", "d''d"]}
    if name in ("slider", "stepper"):
        return {"control_format": [CF.NUMBER, CF.CURRENCY, CF.BASE, CF.FRACTION, CF.PERCENTAGE, CF.SCIENTIFIC, "unknown"],
                "increment": [2, 0.5], "maximum": [10, 1e6], "minimum": [0, -5.5]}
    if name == "popup":
        return {"popup_values": [["a", 3, "b"], [3.0, 2.5], ["a"], [], ["", "x"]], "allow_none": [True, False]}
    if name in ("tickbox", "rating"):
        return {"decimal_places": [2], "bogus_keyword": [1]}
    return {}


NUMBER_POOL = [0, 3, -3.5, 1234.5678, -0.004, 255, 2.5]
DATE_POOL = [datetime(2024, 2, 29, 0, 7, 9), datetime(1999, 12, 31, 23, 59, 59, 123456)]
KIND_POOL = [3, -3.5, "a", "", True, False, datetime(2024, 3, 5, 10, 7, 9), timedelta(hours=1, seconds=5), None]


def arg_sets(rng, name: str, per_subset: int):
    """every subset of the optional arguments of `name`; for each subset the all-first-candidates assignment and
    `per_subset` seeded ones."""
    pool = arg_pool(name)
    keys = list(pool)
    for r in range(len(keys) + 1):
        for sub in itertools.combinations(keys, r):
            seen = set()
            if len(sub) == 1:            # one argument alone: every candidate value
                cands = [(i,) for i in range(len(pool[sub[0]]))]
            else:
                cands = [tuple(0 for _ in sub)] + [tuple(rng.randrange(len(pool[k])) for k in sub) for _ in range(per_subset)]
            for idx in cands:
                if idx in seen:
                    continue
                seen.add(idx)
                yield {k: pool[k][i] for k, i in zip(sub, idx)}


def number_args_for(rng, ntype: str) -> dict:
    pool = arg_pool(ntype)
    kw = {}
    for k, vals in pool.items():
        if rng.random() < 0.5:
            kw[k] = rng.choice(vals)
    return kw


# ---------------------------------------------------------------------------------------------
# streams
# ---------------------------------------------------------------------------------------------
def _values_for(name: str):
    if name == "datetime":
        return DATE_POOL
    if name == "tickbox":
        return [True, False]
    if name == "popup":
        return ["a", "", 3, 2.5, "zz"]
    if name == "rating":
        return [0, 3, 5, 2.7, -1]
    return NUMBER_POOL


def run_set_display(ctx: Ctx, c13, impl: Impl, names, tag: str):
    rng = ctx.rng
    quick = ctx.quick
    # 1. every type name (and names that are not types) x every cell kind
    req, out = [], []
    for name in tuple(names) + BAD_NAMES:
        for v in KIND_POOL:
            for kw in ({}, {"decimal_places": 2}):
                calls = [(name, kw)]
                line, _ = impl.run(v, calls)
                req.append(request("set", v, calls))
                out.append(line)
                if line.startswith("err") and exc_name_of(line) not in ("TypeError", "IndexError"):
                    ctx.violation("set-cell-formatting-undocumented-exception",
                                  f"set_cell_formatting({name!r}, {kw}) on a cell holding {v!r}: {line}", payload(v, calls))
    ctx.correspond(f"glue[{tag}]: every format name (+ names that are no format) x every cell kind: exception class / archive / control "
                   "/ formatter / text", req, out, exhaustive=True)

    # 2. every subset of the optional arguments (valid and invalid values) x a value pool, on the cell kind the format allows
    req, out = [], []
    per = 2 if quick else 6
    for name in names:
        for kw in arg_sets(rng, name, per):
            vals = _values_for(name)
            for v in (vals if len(kw) <= 1 else [rng.choice(vals), rng.choice(vals)]):
                if name in ("slider", "stepper"):
                    cf = kw.get("control_format")
                    extra = number_args_for(rng, cf.name.lower()) if hasattr(cf, "name") else number_args_for(rng, "number")
                    kw = {**extra, **kw}
                calls = [(name, kw)]
                inp = payload(v, calls)
                display = True
                if name in ("slider", "stepper") and hasattr(kw.get("control_format"), "name"):
                    # arguments the number format itself rejects must be rejected by the control too (and are never displayed:
                    # an unvalidated base of 1 would loop forever in _format_base)
                    cf = kw["control_format"]
                    plain = {k: x for k, x in kw.items() if k not in ("control_format", "increment", "maximum", "minimum")}
                    calls2 = [(cf.name.lower(), plain)]
                    line2, _ = impl.run(v, calls2)
                    if line2.startswith("err"):
                        display = False
                line, text = impl.run(v, calls, display=display)
                if not display and not line.startswith("err"):
                    ctx.violation("control-format-validation",
                                  f"{name} with control_format={cf.name} accepts {plain}; the {cf.name.lower()} format itself "
                                  f"rejects the same arguments ({line2})", {**inp, "compare_with": [[n, enc_kw(k)] for n, k in calls2]})
                req.append(request("set", v, calls))
                out.append(line)
                if not line.startswith("err") and display:
                    glue_oracles(ctx, c13, impl, name, kw, v, line, text, inp)
    ctx.correspond(f"glue[{tag}]: every subset of the optional arguments (valid / invalid values, seeded) x value pool through "
                   "Table.write + set_cell_formatting + formatted_value", req, out)


def exc_name_of(line: str) -> str:
    return line.split(" ")[1]


def glue_oracles(ctx: Ctx, c13, impl: Impl, name: str, kw: dict, v, line: str, text, inp):
    """API-level properties of the glue, independent of the model."""
    CF, _, _ = _enums()
    # (a) the text is in the notation of the number format that was asked for (controls: of their control format)
    if name in NUMBER_TYPES and isinstance(v, (int, float)) and not isinstance(v, bool):
        number_oracle(ctx, c13, name, kw, v, text, inp)
    elif name in ("slider", "stepper"):
        cf = kw.get("control_format", CF.NUMBER)
        if not hasattr(cf, "name"):
            ctx.violation("control-format-unknown-accepted",
                          f"{name} accepts control_format={cf!r}, which is no ControlFormattingType (documented: TypeError)", inp)
            return
        number_oracle(ctx, c13, cf.name.lower(), kw, v, text, inp)
        # … and is what the number format itself displays with the same arguments
        plain = {k: x for k, x in kw.items() if k not in ("control_format", "increment", "maximum", "minimum")}
        calls2 = [(cf.name.lower(), plain)]
        line2, text2 = impl.run(v, calls2)
        if text2 != text:
            ctx.violation("control-format-differs-from-number-format",
                          f"{name} with control_format={cf.name} {plain} on {v!r} displays {text!r}; the {cf.name.lower()} format "
                          f"with the same arguments displays {text2!r}", {**inp, "compare_with": [[n, enc_kw(k)] for n, k in calls2]})
    elif name == "rating" and float(v).is_integer() and 0 <= v <= 5:
        if text != "★" * int(v):
            ctx.violation("rating-stars", f"rating {v!r} displays {text!r}", inp)
    elif name == "tickbox":
        if text != ("☑" if v else "☐"):
            ctx.violation("tickbox-glyph", f"tickbox {v!r} displays {text!r}", inp)
    elif name == "popup":
        ok = text == v if isinstance(v, str) else (text is not None and _reads_as(text, v))
        if not ok:
            ctx.violation("popup-displays-value", f"popup on {v!r} displays {text!r}", inp)
    # (b) the control archive is of the documented kind and carries the arguments
    if name in CONTROL_KIND:
        ctl = line.split(" ctl=")[1].split(" ")[0]
        want = f"i:{CONTROL_KIND[name]}"
        if name in ("slider", "stepper"):
            dd = DOCUMENTED_DEFAULTS[name]
            want += ";r:" + "/".join(dec3n(kw.get(k, dd[k])) for k in ("minimum", "maximum", "increment"))
        if not (ctl == want or (name in ("rating", "popup") and ctl.startswith(want + ";"))):
            ctx.violation("control-archive-kind", f"{name} {kw} stores the control {ctl!r}, documented {want!r}", inp)
    # (c) an argument passed with its documented default value changes nothing
    dd = DOCUMENTED_DEFAULTS.get(name, {})
    missing = {k: x for k, x in dd.items() if k not in kw}
    if name in ("slider", "stepper") and hasattr(kw.get("control_format", CF.NUMBER), "name"):
        nd = DOCUMENTED_DEFAULTS[kw.get("control_format", CF.NUMBER).name.lower()]
        missing.update({k: x for k, x in nd.items() if k not in kw})
    if missing:
        full = dict(kw)
        for k, x in missing.items():
            full[k] = CF[x] if k == "control_format" else x
        calls2 = [(name, full)]
        line2, text2 = impl.run(v, calls2)
        if text2 != text or _ctl(line2) != _ctl(line):
            ctx.violation("documented-default",
                          f"{name} {kw} on {v!r} displays {text!r} ({_ctl(line)}); with the documented defaults spelled out "
                          f"{ {k: full[k] for k in missing} } it displays {text2!r} ({_ctl(line2)})",
                          {**inp, "compare_with": [[n, enc_kw(k)] for n, k in calls2]})


def _ctl(line: str) -> str:
    return line.split(" ctl=")[1].split(" ")[0] if " ctl=" in line else line


def _reads_as(text: str, v) -> bool:
    try:
        return Decimal(text) == dec_of(v)
    except Exception:  # noqa: BLE001
        return False


def run_reformat(ctx: Ctx, impl: Impl, names, tag: str):
    """a second set_cell_formatting on the same cell: the display is that of a fresh cell given only the last format."""
    rng = ctx.rng
    req, out = [], []
    for a in names:
        for b in names:
            if a == "datetime" or b == "datetime":
                v = DATE_POOL[0]
                if a != b:
                    continue
            elif "tickbox" in (a, b):
                v = True
                if a != b:
                    continue
            elif "popup" in (a, b):
                v = 3
            else:
                v = rng.choice([3, -3.5, 1234.5678])
            ka = {"popup_values": [3, "x"]} if a == "popup" else ({"date_time_format": "yyyy"} if a == "datetime" else {})
            kb = {"popup_values": [3, "x"]} if b == "popup" else ({"date_time_format": "MM"} if b == "datetime" else {})
            calls = [(a, ka), (b, kb)]
            line, text = impl.run(v, calls)
            req.append(request("set", v, calls))
            out.append(line)
            line1, text1 = impl.run(v, calls[1:])
            if line != line1:
                ctx.violation("stale-format-after-reformat",
                              f"write {v!r}; set_cell_formatting({a!r}); set_cell_formatting({b!r}) -> displays {text!r} [{line}]; "
                              f"a fresh cell given only {b!r} displays {text1!r} [{line1}]",
                              payload(v, calls, compare_with=[[n, enc_kw(k)] for n, k in calls[1:]]))
    ctx.correspond(f"glue[{tag}]: two set_cell_formatting calls on one cell (every ordered pair of formats)", req, out, exhaustive=True)


def run_reload(ctx: Ctx, impl: Impl, names, tag: str):
    """set, save, reopen: the archives and controls are read from the reopened file, the display from the reopened cell."""
    rng = ctx.rng
    cases = []
    for name in names:
        sets = list(arg_sets(rng, name, 1))
        rng.shuffle(sets)
        for kw in sets[: (6 if ctx.quick else 40)]:
            v = rng.choice(_values_for(name))
            if isinstance(v, int) and not isinstance(v, bool):
                v = float(v)          # an int is read back as a float (str(3) -> '3.0'): storage, not glue (C01)
            if name in ("slider", "stepper") and hasattr(kw.get("control_format"), "name"):
                kw = {**number_args_for(rng, kw["control_format"].name.lower()), **kw}
            cases.append((v, [(name, kw)]))
    for v in KIND_POOL:
        cases.append((float(v) if isinstance(v, int) and not isinstance(v, bool) else v, []))
    req, out = [], []
    tmp = tempfile.mkdtemp()
    try:
        for lo in range(0, len(cases), 120):
            chunk = cases[lo:lo + 120]
            doc = impl.Document(num_header_rows=0, num_header_cols=0, num_rows=len(chunk), num_cols=1)
            table = doc.sheets[0].tables[0]
            ok = []
            for r, (v, calls) in enumerate(chunk):
                impl.put(table, r, 0, v)
                try:
                    for n, kw in calls:
                        table.set_cell_formatting(r, 0, n, **kw)
                    ok.append(True)
                except Exception:  # noqa: BLE001
                    impl.put(table, r, 0, None)
                    ok.append(False)
            before = [impl.spy.display(table.cell(r, 0)) for r in range(len(chunk))]
            path = os.path.join(tmp, "t.numbers")
            doc.save(path)
            doc2 = impl.Document(path)
            t2 = doc2.sheets[0].tables[0]
            for r, (v, calls) in enumerate(chunk):
                if not ok[r]:
                    continue
                c2 = t2.cell(r, 0)
                line, text = impl.describe(doc2._model, c2, c2)
                req.append(request("reload", v, calls))
                out.append(line)
                after = line.split(" slot=")[0][3:]
                if after != before[r]:
                    ctx.violation("display-changes-on-reload",
                                  f"write {v!r}; {calls}: displays [{before[r]}] before save and [{after}] after reopening the file",
                                  payload(v, calls, reload=True))
    finally:
        shutil.rmtree(tmp, ignore_errors=True)
    ctx.correspond(f"glue[{tag}]: set_cell_formatting, save, reopen: archive / control read from the file, display of the reopened cell",
                   req, out)


def fixture_cells(ctx: Ctx, impl: Impl, want_dates: bool, tag: str):
    """every formatted cell of the fixture documents: the format records are read by this module from the data lists,
    the model's text is compared with the real formatted_value."""
    from numbers_parser import cell as K
    files = sorted((REPO / "tests" / "data").glob("*.numbers"))
    req, out = [], []
    seen = set()
    cap = 1200 if ctx.quick else 20000
    for path in files:
        try:
            doc = impl.Document(str(path))
            model = doc._model
            customs = custom_list(model)
            tables = [t for s in doc.sheets for t in s.tables]
        except Exception:  # noqa: BLE001
            continue
        n_file = 0
        for tab in tables:
            try:
                rows = list(tab.iter_rows())
            except Exception:  # noqa: BLE001
                continue
            for row in rows:
                for c in row:
                    ids = [getattr(c, a, None) for a in ("_num_format_id", "_currency_format_id", "_text_format_id",
                                                          "_bool_format_id", "_date_format_id", "_duration_format_id")]
                    if all(i is None for i in ids):
                        continue
                    is_date = isinstance(c, (K.DateCell, K.DurationCell))
                    if is_date != want_dates or n_file >= cap:
                        continue
                    quickkey = (path.name, type(c).__name__, tuple(ids), repr(c.value), c._table_id)
                    if quickkey in seen:
                        continue
                    seen.add(quickkey)
                    try:
                        toks = fixture_tokens(model, customs, c, K)
                    except Exception:  # noqa: BLE001  (an id the table does not hold, a value outside the model's domain)
                        toks = None
                    if toks is None:
                        continue
                    line = "fmtd show " + " ".join(toks)
                    if line in seen:
                        continue
                    seen.add(line)
                    n_file += 1
                    req.append(line)
                    out.append("ok " + impl.spy.display(c))
    ctx.correspond(f"glue[{tag}]: formatted cells of the fixture documents (tests/data/*.numbers), format records read from the data "
                   "lists by the harness", req, out)


def fixture_tokens(model, customs, c, K):
    kind = type(c).__name__
    if kind == "BulletedTextCell":
        kind = "RichTextCell"
    toks = [f"kind={kind}"]
    fmts = {}
    for key, a in (("f.num", "_num_format_id"), ("f.cur", "_currency_format_id"), ("f.text", "_text_format_id"),
                   ("f.bool", "_bool_format_id"), ("f.date", "_date_format_id"), ("f.dur", "_duration_format_id")):
        fid = getattr(c, a, None)
        if fid is not None:
            fmts[key] = _entry(model, c._table_id, "format_table", fid).format
    accs, scales = set(), set()
    from numbers_parser.numbers_uuid import NumbersUUID
    for key, f in fmts.items():
        if key in ("f.date", "f.dur"):
            continue
        if f.HasField("custom_uid"):
            u = NumbersUUID(f.custom_uid).hex
            if u in customs:
                d = customs[u].default_format
                scales.add(d.scale_factor)
                if d.requires_fraction_replacement:
                    accs.add(int(d.fraction_accuracy))
        elif int(f.format_type) == 262:
            accs.add(int(f.fraction_accuracy))
    fixed = {a for a in accs if not a & 0xFF000000}
    if len(fixed) > 1 or len(scales) > 1:
        return None
    if isinstance(c, K.NumberCell):
        if c._d128 is None or abs(c._d128) >= 10 ** 15:
            return None               # C13's domain: |x| < 10^15 (beyond it int(value) prints binary digits)
        toks += num_tokens(c._d128, tuple(accs), next(iter(scales)) if scales else None)
        toks.append(f"str={enc_text(str(c.value))}")
    elif isinstance(c, K.TextCell):
        toks += [f"text={enc_text(c.value)}", f"stext={enc_text(c.value)}"]
    elif isinstance(c, K.RichTextCell):
        toks += [f"text={enc_text(c.value)}"]
    elif isinstance(c, K.BoolCell):
        toks += [f"bool={int(c.value)}"]
        if c._double is not None:
            toks.append(f"dbl={round(c._double * 1000)}")
    elif isinstance(c, K.DateCell):
        v = c._datetime
        toks += [f"dt={v.year},{v.month},{v.day},{v.hour},{v.minute},{v.second},{v.microsecond}",
                 f"secs={int(c._seconds is not None)}", f"str={enc_text(str(c.value))}"]
    elif isinstance(c, K.DurationCell):
        ms = c._double * 1000
        if ms < 0 or ms != round(ms):
            return None
        toks += [f"ms={round(ms)}", f"dbl={round(ms)}", f"str={enc_text(str(c.value))}"]
    elif not isinstance(c, (K.EmptyCell, K.ErrorCell, K.MergedCell)):
        return None
    from numbers_parser.constants import CellType
    if c._type == CellType.CURRENCY:
        toks.append("cur=1")
    for key, f in fmts.items():
        toks.append(f"{key}={fmt_full(f, customs)}")
    return toks


def default_datetime_oracle(ctx: Ctx, impl: Impl):
    v = DATE_POOL[0]
    calls = [("datetime", {})]
    line, text = impl.run(v, calls)
    if line.startswith("err"):
        ctx.violation("datetime-default-format-rejected",
                      f"set_cell_formatting(row, col, 'datetime') with the documented default date_time_format -> {line}",
                      payload(v, calls))


def formatter_identity_observable(spy: "Spy") -> bool:
    """the streams below record WHICH formatter the real code calls by wrapping the module-level functions of cell.py in
    process.  A refactoring that binds those functions elsewhere at import time (a dispatch table, say) bypasses the
    wrappers although nothing a caller can observe has changed: a number cell with a decimal, a currency, a base and a
    scientific format is displayed once; if a wrapper that must fire does not, the identity of the formatter is not
    observable in this tree and the formatter-identity streams are skipped (the text-level streams of c13.py / c14.py and
    every property oracle still run)."""
    from numbers_parser import Document
    doc = Document(num_header_rows=0, num_header_cols=0, num_rows=2, num_cols=2)
    table = doc.sheets[0].tables[0]
    for name, kw, tag in (("number", {"decimal_places": 1}, "format_decimal"), ("currency", {"currency_code": "EUR"}, "format_currency"),
                          ("base", {"base": 2}, "format_base"), ("scientific", {"decimal_places": 1}, "format_scientific")):
        table.write(0, 0, 5.0)
        table.set_cell_formatting(0, 0, name, **kw)
        if f"fm={tag} " not in spy.display(table.cell(0, 0)) + " ":
            return False
    return True


def _skip_note(ctx: Ctx, tag: str):
    ctx.notes.append(f"glue[{tag}]: the module-level formatter functions of cell.py are not reached through their module "
                     "attributes in this tree (wrappers do not fire on a calibration cell): formatter-identity streams skipped; "
                     "displayed texts are still compared by the other streams and judged by the property oracles")


def run_c13(ctx: Ctx, c13):
    names = [n for n in ALL_NAMES if n != "datetime"]
    with Spy() as spy:
        if not formatter_identity_observable(spy):
            _skip_note(ctx, "C13")
            return
        impl = Impl(spy)
        run_set_display(ctx, c13, impl, names, "C13")
        run_reformat(ctx, impl, names, "C13")
        run_reload(ctx, impl, names, "C13")
        fixture_cells(ctx, impl, False, "C13")


def run_c14(ctx: Ctx):
    with Spy() as spy:
        if not formatter_identity_observable(spy):
            _skip_note(ctx, "C14")
            return
        impl = Impl(spy)
        default_datetime_oracle(ctx, impl)
        run_set_display(ctx, None, impl, ["datetime"], "C14")
        run_reformat(ctx, impl, ["datetime"], "C14")
        run_reload(ctx, impl, ["datetime"], "C14")
        fixture_cells(ctx, impl, True, "C14")
